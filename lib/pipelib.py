"""Composition check (specs/Pipeline): design run, scripts sampled from behaviours of Pipeline.tla, executed on a real service
(test receiver -> real batch processor -> exporter helper -> scripted backend), judged by PipelineMonitor.tla.
Used by checks/C03.py (thorough tier) -- the end-to-end clause is C03's drain clause seen through the whole pipeline."""
import json, os
import vlib


def consts(items, batch, cap, retry, ma=2):
    return """CONSTANTS
  Items = {%s}
  BatchSize = %d
  QueueCap = %d
  RetryOn = %s
  MaxAttempts = %d
""" % (",".join('"%s"' % i for i in items), batch, cap, "TRUE" if retry else "FALSE", ma)


def run_pipeline(c, num):
    items = ["a", "b", "c", "d"]
    plans = [(2, 1, True), (2, 2, False), (3, 1, False), (1, 2, True)]
    for k, (b, cap, retry) in enumerate(plans[:2]):
        cfg = "SPECIFICATION Spec\n" + consts(items, b, cap, retry) + \
              "INVARIANTS NoSilentLoss ExactlyOnceIfClean NothingInvented RefusedUntouched NoDuplicates\nCHECK_DEADLOCK FALSE\n"
        c.tlc_must_pass("Pipeline", "Pipeline", cfg_text=cfg, timeout=900, label="pipeline_design%d" % k)
    scripts, seen = [], set()
    for k, (b, cap, retry) in enumerate(plans):
        cfg = "SPECIFICATION GSpec\n" + consts(items, b, cap, retry) + "INVARIANT EmitScript\nCHECK_DEADLOCK FALSE\n"
        r = c.tlc("Pipeline", "PipelineGen", cfg_text=cfg, workers=1, simulate="num=%d" % num, depth=80, seed=c.seed * 17 + k,
                  timeout=600, count=False, label="pipeline_gen%d" % k)
        if not r.ok:
            raise vlib.Inconclusive("pipeline script generator failed: %s %s" % (r.error, r.out[-1000:]))
        for beh in r.printed:
            steps = []
            for s in beh["steps"]:
                steps.append(s)
                if s["op"] == "shutdown":
                    break
            key = json.dumps([b, cap, retry, steps, beh["outcomes"]])
            if key in seen:
                continue
            seen.add(key)
            scripts.append(dict(id="p%d" % len(scripts), cfg=dict(batch=b, cap=cap, retry=retry), steps=steps, outcomes=beh["outcomes"]))
    binp = c.go_build("pipeline", pkg="./cmd")
    sp, tp = os.path.join(c.work, "pipe_scripts.ndjson"), os.path.join(c.work, "pipe_traces.ndjson")
    vlib.write_ndjson(sp, scripts)
    c.run([binp, "run", sp, tp], timeout=1800)
    lines = open(tp).read().splitlines()
    if sum(1 for l in lines if '"ev":"reset"' in l) != len(scripts):
        raise vlib.Inconclusive("pipeline driver returned a different number of traces")
    r = c.tlc("Pipeline", "PipelineMonitor", cfg="PipelineMonitor.cfg", workers=1, files={"observed.ndjson": tp}, timeout=900,
              count=False, label="pipeline_monitor")
    if not r.ok:
        raise vlib.Inconclusive("pipeline monitor failed: %s %s" % (r.error, r.out[-1500:]))
    byid = {s["id"]: s for s in scripts}
    return scripts, r.printed, byid, binp
