"""Helpers shared by checks C09 / C10 / C13 (pipeline graph, lifecycle, config validation)."""
import os
import vlib


def fix_repo_modules():
    """vlib.repo_modules() skips directories named `testdata`, but /repo/pdata/testdata IS a Go module
    (imported by processortest, which service/internal/builders imports).  Add the skipped modules to
    vlib's cached module table so that gen_gomod writes a replace line for them too."""
    mods = vlib.repo_modules()
    for root, dirs, files in os.walk(vlib.REPO):
        dirs[:] = [d for d in dirs if d not in (".git", "node_modules")]
        if "go.mod" in files and "testdata" in root.split(os.sep):
            for line in open(os.path.join(root, "go.mod")):
                if line.startswith("module "):
                    mods.setdefault(line.split()[1], root)
                    break
    return mods


def go_build(c, harness, pkg="./cmd", **kw):
    fix_repo_modules()
    return c.go_build(harness, pkg=pkg, **kw)
