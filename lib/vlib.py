"""Shared machinery for /verif checks: scratch dirs, TLC runs, Go harness builds,
trace validation, evidence, verdicts.  Pure standard library, runs offline.

Verdict policy (DESIGN.md 2.4):
  exit 0  property held on everything explored (KNOWN-FINDING lines allowed)
  exit 1  "VIOLATION property=<id> replay=<path>"  -- only from observations of the real code
  exit 2  "INCONCLUSIVE ..."  -- tool failure, timeout, vacuity; never a violation
"""
import json, os, re, shutil, subprocess, sys, time, hashlib, random, glob

VERIF = os.path.dirname(os.path.dirname(os.path.abspath(__file__)))
REPO = os.environ.get("VERIF_REPO", "/repo")
TLA_JAR = "/opt/veriftools/tla/tla2tools.jar"
COMMUNITY = "/opt/veriftools/tla/CommunityModules-deps.jar"
NCPU = os.cpu_count() or 4


class Inconclusive(Exception):
    pass


def _find_classpath():
    # the `tlc` wrapper knows the classpath; reproduce it so that we control heap / properties
    cp = [TLA_JAR]
    for j in glob.glob("/opt/veriftools/tla/*.jar"):
        if j != TLA_JAR:
            cp.append(j)
    return ":".join(cp)


CLASSPATH = _find_classpath()


def go_env():
    e = dict(os.environ)
    e.update(GOFLAGS="-mod=mod", GOPROXY="off", GOSUMDB="off", GOTOOLCHAIN="local",
             GOWORK="off", CGO_ENABLED=e.get("CGO_ENABLED", "0"))
    return e


class TLCResult:
    def __init__(self):
        self.rc = None
        self.out = ""
        self.generated = 0
        self.distinct = 0
        self.depth = 0
        self.error = None          # None | ("invariant", name) | ("deadlock",) | ("property", name) | ("other", text)
        self.printed = []          # values printed via PrintT(<<"TAG", json>>), parsed
        self.coverage = {}         # action name -> count (if -coverage)
        self.wall = 0.0
        self.timed_out = False
        self.trace_text = ""       # counterexample text when an error was reported

    @property
    def ok(self):
        return self.error is None and not self.timed_out and self.rc == 0


_RE_STATES = re.compile(r"(\d+) states generated, (\d+) distinct states found")
_RE_DEPTH = re.compile(r"The depth of the complete state graph search is (\d+)")
_RE_INV = re.compile(r"Error: Invariant (\S+) is violated")
_RE_APROP = re.compile(r"Error: Action property (\S+) is violated")
_RE_COV = re.compile(r"^<(\w+) line \d+, col \d+ to line \d+, col \d+ of module (\w+)(?: \([\d ]+\))?>: (\d+):(\d+)", re.M)


def parse_tlc(out, res):
    m = None
    for m in _RE_STATES.finditer(out):
        pass
    if m:
        res.generated, res.distinct = int(m.group(1)), int(m.group(2))
    m = _RE_DEPTH.search(out)
    if m:
        res.depth = int(m.group(1))
    mi = _RE_INV.search(out)
    if mi:
        res.error = ("invariant", mi.group(1))
    elif _RE_APROP.search(out):
        res.error = ("property", _RE_APROP.search(out).group(1))
    elif "Error: Deadlock reached" in out:
        res.error = ("deadlock",)
    elif "Temporal properties were violated" in out:
        res.error = ("property", "temporal")
    elif re.search(r"is violated", out) and "Error:" in out:
        res.error = ("property", "unknown")
    elif "Error:" in out:
        idx = out.index("Error:")
        res.error = ("other", out[idx:idx + 600])
    if res.error:
        i = out.find("Error:")
        res.trace_text = out[i:i + 20000]
    for m in _RE_COV.finditer(out):
        name = m.group(1)
        res.coverage[name] = res.coverage.get(name, 0) + int(m.group(4))
    return res


def extract_printed(out, tag="BEH"):
    """PrintT(<<"BEH", ToJson(x)>>) prints  <<"BEH", "json text with \\" escapes">>  on one line."""
    vals = []
    pref = '<<"%s", "' % tag
    for line in out.splitlines():
        if line.startswith(pref) and line.endswith('">>'):
            body = line[len(pref):-3]
            # TLC escapes " and \ inside strings
            body = body.replace('\\"', '"').replace("\\\\", "\\")
            try:
                vals.append(json.loads(body))
            except Exception:
                pass
    return vals


class Check:
    def __init__(self, pid, tier="quick", seed=None, replay=None):
        self.pid = pid
        self.tier = tier
        self.seed = int(seed if seed is not None else os.environ.get("VERIF_SEED", "1"))
        self.replay = replay
        self.t0 = time.time()
        # one scratch directory per RUN (several runs of the same check may be going on: sweeps, seeded-change runs,
        # quick + thorough): .work/<Cnn>.<process id>; directories left by runs whose process is gone are removed
        wroot = os.path.join(VERIF, ".work")
        os.makedirs(wroot, exist_ok=True)
        for d in os.listdir(wroot):
            if d == pid or d.startswith(pid + "."):
                owner = d.split(".")[-1]
                if not (owner.isdigit() and os.path.exists("/proc/" + owner)):
                    shutil.rmtree(os.path.join(wroot, d), ignore_errors=True)
        self.work = os.path.join(wroot, "%s.%d" % (pid, os.getpid()))
        shutil.rmtree(self.work, ignore_errors=True)
        os.makedirs(self.work, exist_ok=True)
        self.rng = random.Random(self.seed)
        # evidence accumulators
        self.states = 0
        self.transitions = 0
        self.traces_validated = 0
        self.evaluations = 0
        self.samples = []
        self.tlc_runs = []
        self.coverage_actions = {}
        self.assumptions = []
        self.extra = {}
        self.violations = []       # (what, replay_path)
        self.known_hits = []       # (finding id, what)
        self.drift = []
        self.exhaustive = None
        self._n = 0
        self._counter = __import__('itertools').count(1)
        self.findings = load_findings(pid)

    # ------------------------------------------------------------------ util
    def log(self, *a):
        print("[%s %6.1fs]" % (self.pid, time.time() - self.t0), *a, flush=True)

    def scratch(self, name):
        d = os.path.join(self.work, name)
        os.makedirs(d, exist_ok=True)
        return d

    def quick(self):
        return self.tier != "thorough"

    def pick(self, q, t):
        return q if self.quick() else t

    # ------------------------------------------------------------------ TLC
    def tlc(self, spec_dir, module, cfg=None, cfg_text=None, workers=None, timeout=600, simulate=None,
            depth=None, coverage=False, files=None, deadlock=None, heap="6g", dfs=False, seed=None,
            count=True, extra_args=None, label=None, tag="BEH", keep_out=True, view=None):
        """Run TLC on specs/<spec_dir>/<module>.tla in a scratch copy.
        cfg: name of a .cfg file in the spec dir; cfg_text: literal config (wins).
        files: {name: text or path} extra files placed in the scratch dir (e.g. observed.ndjson).
        count: add states/transitions to the evidence totals."""
        n = next(self._counter)      # thread-safe: several TLC runs may be started from a thread pool
        sdir = os.path.join(VERIF, "specs", spec_dir)
        run = self.scratch("tlc%02d_%s" % (n, label or module))
        for f in os.listdir(sdir):
            if f.endswith(".tla") or f.endswith(".cfg"):
                shutil.copy(os.path.join(sdir, f), run)
        # shared modules
        common = os.path.join(VERIF, "specs", "Common")
        if os.path.isdir(common):
            for f in os.listdir(common):
                if f.endswith(".tla") and not os.path.exists(os.path.join(run, f)):
                    shutil.copy(os.path.join(common, f), run)
        for name, val in (files or {}).items():
            dst = os.path.join(run, name)
            if isinstance(val, str) and os.path.isfile(val) and "\n" not in val:
                shutil.copy(val, dst)
            else:
                with open(dst, "w") as fh:
                    fh.write(val)
        cfgname = module + "_run.cfg"
        if cfg_text is None:
            cfg_text = open(os.path.join(sdir, cfg or (module + ".cfg"))).read()
        with open(os.path.join(run, cfgname), "w") as fh:
            fh.write(cfg_text)
        if workers is None:
            workers = NCPU
        args = ["java", "-Xmx" + heap, "-Xss64m", "-XX:+UseParallelGC", "-Djava.io.tmpdir=" + run, "-cp", CLASSPATH]
        if dfs:
            args.append("-Dtlc2.tool.queue.IStateQueue=StateDeque")
        args += ["tlc2.TLC", "-config", cfgname, "-workers", str(workers), "-metadir",
                 os.path.join(run, "meta"), "-nowarning"]
        if deadlock is False:
            args.append("-deadlock")      # -deadlock = do NOT check deadlock
        if coverage:
            args += ["-coverage", "1"]
        if simulate:
            args += ["-simulate", simulate]
        if depth:
            args += ["-depth", str(depth)]
        if seed is not None:
            args += ["-seed", str(seed)]
        if extra_args:
            args += extra_args
        args.append(module + ".tla")
        res = TLCResult()
        t = time.time()
        try:
            p = subprocess.run(args, cwd=run, stdout=subprocess.PIPE, stderr=subprocess.STDOUT,
                               timeout=timeout, text=True, errors="replace")
            res.rc, res.out = p.returncode, p.stdout
        except subprocess.TimeoutExpired as e:
            res.timed_out = True
            res.out = (e.stdout or b"").decode("utf8", "replace") if isinstance(e.stdout, bytes) else (e.stdout or "")
            subprocess.run(["pkill", "-f", os.path.join(run, "meta")], check=False)
        res.wall = time.time() - t
        parse_tlc(res.out, res)
        res.printed = extract_printed(res.out, tag)
        with open(os.path.join(run, "tlc.out"), "w") as fh:
            fh.write(res.out)
        res.run_dir = run
        if count:
            self.states += res.distinct
            self.transitions += res.generated
        for a, c in res.coverage.items():
            self.coverage_actions[a] = self.coverage_actions.get(a, 0) + c
        self.tlc_runs.append(dict(module=module, label=label or cfg or "", generated=res.generated,
                                  distinct=res.distinct, depth=res.depth, wall_s=round(res.wall, 2),
                                  error=list(res.error) if res.error else None, timed_out=res.timed_out))
        # free disk: TLC state dirs can be large
        shutil.rmtree(os.path.join(run, "meta"), ignore_errors=True)
        shutil.rmtree(os.path.join(run, "states"), ignore_errors=True)
        return res

    def tlc_must_pass(self, *a, **kw):
        """Exhaustive design check that is expected to succeed.  Failure of the MODEL is never a
        violation by itself (DESIGN 2.4): it is INCONCLUSIVE unless a caller replays it on the code."""
        vac = kw.pop("vacuous_ok", ())
        res = self.tlc(*a, **kw)
        if res.timed_out:
            raise Inconclusive("TLC timed out on %s" % (kw.get("label") or a[1]))
        if not res.ok:
            raise Inconclusive("TLC design check failed on %s: %s\n%s" % (kw.get("label") or a[1], res.error,
                                                                         res.trace_text[:3000] or res.out[-3000:]))
        if kw.get("coverage"):
            zero = [k for k, v in res.coverage.items() if v == 0 and k not in vac]
            if zero:
                raise Inconclusive("vacuous: actions never taken in %s: %s" % (a[1], zero))
        return res

    # ------------------------------------------------------------------ Go
    def go_build(self, harness, out=None, tags="verif", pkg=".", overlay=None, race=False, timeout=900):
        hdir = os.path.join(VERIF, "harness", harness)
        gen_gomod(hdir)
        out = out or os.path.join(self.work, "bin_" + harness.replace("/", "_"))
        args = ["go", "build", "-tags", tags, "-o", out]
        if race:
            args.append("-race")
        if os.environ.get("VERIF_COVER"):
            # gap finding (tools/anchor_coverage.sh): which statements of the tree under test do the drivers of this check reach?
            # the binaries write coverage counters to $GOCOVERDIR when they exit
            args += ["-cover", "-coverpkg=go.opentelemetry.io/collector/..."]
        ov = overlay or os.environ.get("VERIF_OVERLAY")
        if ov:
            args += ["-overlay", ov]
        args.append(pkg)
        env = go_env()
        if race:
            env["CGO_ENABLED"] = "1"
        t = time.time()
        p = subprocess.run(args, cwd=hdir, env=env, stdout=subprocess.PIPE, stderr=subprocess.STDOUT,
                           text=True, timeout=timeout)
        if p.returncode != 0:
            raise Inconclusive("go build failed for harness %s:\n%s" % (harness, p.stdout[-4000:]))
        self.log("built harness %s in %.1fs" % (harness, time.time() - t))
        return out

    def run(self, args, timeout=600, stdin=None, cwd=None, env=None, ok_codes=(0,)):
        t = time.time()
        try:
            p = subprocess.run(args, cwd=cwd or self.work, input=stdin, stdout=subprocess.PIPE,
                               stderr=subprocess.PIPE, text=True, timeout=timeout, env=env, errors="replace")
        except subprocess.TimeoutExpired:
            raise Inconclusive("driver timed out after %ss: %s" % (timeout, " ".join(args)[:200]))
        if p.returncode not in ok_codes:
            # A Go panic raised INSIDE THE CODE UNDER TEST (the panicking goroutine's stack has a frame in the tree under
            # test) while a driver feeds it valid input is a failure of that code, not of the harness: the command is run
            # once more, and if it panics there again this is reported as a violation (exit 1); anything else is exit 2.
            head = code_panic(p.stderr)
            if head:
                # (a panic that depends on a race need not come back at once: up to 3 more runs of the same command)
                for _ in range(3):
                    try:
                        p2 = subprocess.run(args, cwd=cwd or self.work, input=stdin, stdout=subprocess.PIPE,
                                            stderr=subprocess.PIPE, text=True, timeout=timeout, env=env, errors="replace")
                    except subprocess.TimeoutExpired:
                        p2 = None
                    head2 = code_panic(p2.stderr) if p2 is not None and p2.returncode not in ok_codes else None
                    if head2:
                        raise CodePanic(head2, [os.path.basename(a) for a in args])
                    if p2 is not None and p2.returncode in ok_codes:
                        # the panic did not come back and the command completed: its observations are judged as usual
                        # (the unreproduced panic is named in the evidence)
                        self.extra.setdefault("unreproduced_code_panics", []).append(head[:300])
                        return p2
            raise Inconclusive("driver failed rc=%s: %s\n%s\n%s" % (p.returncode, " ".join(args)[:200],
                                                                    p.stdout[-2000:], p.stderr[-4000:]))
        return p

    # ------------------------------------------------------------------ verdicts
    def violation(self, what, replay_obj=None, replay_path=None, signature=None):
        """Report a property violation observed on the real code, unless it matches an open known finding."""
        f = self.match_finding(signature, what)
        if f is not None:
            if f["id"] not in [k[0] for k in self.known_hits]:
                self.known_hits.append((f["id"], f.get("what", what)))
            return False
        if replay_path is None:
            rdir = os.path.join(VERIF, "replays")
            os.makedirs(rdir, exist_ok=True)
            h = hashlib.sha1(json.dumps(replay_obj, sort_keys=True, default=str).encode()).hexdigest()[:12]
            replay_path = os.path.join(rdir, "%s_%s.json" % (self.pid, h))
            with open(replay_path, "w") as fh:
                json.dump(dict(property=self.pid, what=what, signature=signature, replay=replay_obj), fh, indent=1,
                          default=str)
        self.violations.append((what, replay_path))
        return True

    def match_finding(self, signature, what=""):
        if signature is None:
            return None
        for f in self.findings:
            if f.get("status") != "open":
                continue
            if f.get("signature") == signature:
                return f
        return None

    def model_drift(self, what):
        self.drift.append(what)
        print("MODEL-DRIFT %s=%s %s" % ("spec" if self.pid.startswith("E") else "property", self.pid, what), flush=True)

    def sample(self, s, cap=5):
        if len(self.samples) < cap:
            self.samples.append(s)

    def finish(self, level="model_checking", rule=None, distinct_nontrivial=None):
        wall = time.time() - self.t0
        cov = dict(states=self.states, transitions=self.transitions,
                   traces_validated_against_impl=self.traces_validated,
                   samples=self.samples[:8] or ["(none)"],
                   evaluations=max(self.evaluations, self.traces_validated),
                   tlc_runs=self.tlc_runs, action_coverage=self.coverage_actions,
                   conformance="diverged" if self.drift else "conforms",
                   model_drift=self.drift[:20],
                   known_findings_observed=[k[0] for k in self.known_hits])
        if rule:
            cov["rule"] = rule
        if distinct_nontrivial is not None:
            cov["distinct_nontrivial"] = distinct_nontrivial
        if self.exhaustive is not None:
            cov["exhaustive"] = self.exhaustive
        cov.update(self.extra)
        ev = dict(property_id=self.pid, tier=self.tier if self.tier in ("quick", "thorough") else "quick",
                  seed=self.seed, level=level, coverage=cov, assumptions=self.assumptions,
                  wall_s=round(wall, 2), violations=len(self.violations))
        # extras (ids E..): specifications of behaviour BEYOND the listed properties (DESIGN 12).  They are not in
        # MANIFEST.json, their evidence goes to extras/evidence/, and what they report is worded EXTRA-FINDING spec=<id>
        # -- never "VIOLATION property=": no listed property is concerned.
        extra = self.pid.startswith("E")
        edir = os.path.join(VERIF, "extras", "evidence") if extra else os.path.join(VERIF, "evidence")
        if not os.environ.get("VERIF_NO_EVIDENCE"):
            os.makedirs(edir, exist_ok=True)
            with open(os.path.join(edir, self.pid + ".json"), "w") as fh:
                json.dump(ev, fh, indent=1, default=str)
        for fid, what in self.known_hits:
            print("%s=%s %s [%s]" % ("EXTRA-KNOWN: spec" if extra else "KNOWN-FINDING: property", self.pid, what, fid), flush=True)
        for what, path in self.violations[:20]:
            print("%s=%s replay=%s" % ("EXTRA-FINDING spec" if extra else "VIOLATION property", self.pid, path), flush=True)
            print("  what: %s" % what, flush=True)
        if not os.environ.get("VERIF_KEEP_WORK"):
            shutil.rmtree(self.work, ignore_errors=True)
        self.log("done: states=%d transitions=%d traces=%d violations=%d wall=%.1fs" % (
            self.states, self.transitions, self.traces_validated, len(self.violations), wall))
        return 1 if self.violations else 0


# ---------------------------------------------------------------------- known findings
def load_findings(pid=None):
    p = os.path.join(VERIF, "known_findings.json")
    if pid and pid.startswith("E"):
        p = os.path.join(VERIF, "extras", "known_findings.json")     # same format, key "spec" instead of "property"
        if os.path.exists(p):
            return [f for f in json.load(open(p)).get("findings", []) if f.get("spec") == pid]
        return []
    if not os.path.exists(p):
        return []
    fs = json.load(open(p)).get("findings", [])
    return [f for f in fs if pid is None or f.get("property") == pid]


# ---------------------------------------------------------------------- go.mod generation
_RE_REPLACE = re.compile(r"^\s*(?:replace\s+)?(\S+)\s*=>\s*(\S+)\s*$")


def repo_modules():
    """module path -> dir, for every go.mod under REPO (cached per process)."""
    global _MODS
    try:
        return _MODS
    except NameError:
        pass
    mods = {}
    for root, dirs, files in os.walk(REPO):
        dirs[:] = [d for d in dirs if d not in (".git", "node_modules")]
        if "go.mod" in files:
            for line in open(os.path.join(root, "go.mod")):
                if line.startswith("module "):
                    m = line.split()[1]
                    # fixtures under .../testdata/ are not collector modules -- except pdata/testdata, which is one
                    if "/testdata/" in root + "/" and m != "go.opentelemetry.io/collector/pdata/testdata":
                        break
                    mods[m] = root
                    break
    _MODS = mods
    return mods


def gen_gomod(hdir):
    """(Re)generate go.mod / go.sum for a harness module from harness.json:
       {"module": "<module path>", "require": ["go.opentelemetry.io/collector/service", ...]}
    Every collector module is replaced by its directory in the /repo working tree, so the
    harness always compiles the current tree."""
    spec = json.load(open(os.path.join(hdir, "harness.json")))
    mods = repo_modules()
    lines = ["module " + spec["module"], "", "go 1.23.0", "", "require ("]
    for r in spec["require"]:
        lines.append("\t%s v0.0.0" % r if r in mods else "\t" + r)
    lines.append(")")
    lines.append("")
    lines.append("replace (")
    for m in sorted(mods):
        if m == spec["module"]:
            continue
        lines.append("\t%s => %s" % (m, mods[m]))
    lines.append(")")
    lines.append("")
    txt = "\n".join(lines)
    gm = os.path.join(hdir, "go.mod")
    # keep go's own edits (indirect requires) if the header is unchanged: cheap check via marker file
    marker = os.path.join(hdir, ".gomod.src")
    if not (os.path.exists(gm) and os.path.exists(marker) and open(marker).read() == txt):
        with open(gm, "w") as fh:
            fh.write(txt)
        with open(marker, "w") as fh:
            fh.write(txt)
    # go.sum: union of all go.sum files of the repo (cheap, a few hundred KB)
    gs = os.path.join(hdir, "go.sum")
    if not os.path.exists(gs) or os.path.getmtime(gs) < time.time() - 3600:
        seen = set()
        for m, d in mods.items():
            p = os.path.join(d, "go.sum")
            if os.path.exists(p):
                seen.update(open(p).read().splitlines())
        with open(gs, "w") as fh:
            fh.write("\n".join(sorted(seen)) + "\n")


# ---------------------------------------------------------------------- ndjson helpers
def write_ndjson(path, events):
    with open(path, "w") as fh:
        for e in events:
            fh.write(json.dumps(e, separators=(",", ":")) + "\n")


def read_ndjson(path):
    out = []
    for line in open(path):
        line = line.strip()
        if line:
            out.append(json.loads(line))
    return out


class CodePanic(Inconclusive):
    """the code under test panicked (twice) while a driver ran valid input"""
    def __init__(self, head, cmd):
        Inconclusive.__init__(self, head)
        self.head, self.cmd = head, cmd


def code_panic(stderr):
    """'panic: ... at <frames>' if stderr is a Go panic whose panicking goroutine has a frame in the tree under test"""
    # (a runaway recursion ends as "fatal error: stack overflow": same treatment as a panic)
    if not stderr or ("panic:" not in stderr and "fatal error: stack overflow" not in stderr):
        return None
    lines = stderr.splitlines()
    try:
        k = next(i for i, l in enumerate(lines) if l.startswith("panic:") or l.startswith("fatal error: stack overflow"))
        g = next(i for i in range(k, len(lines)) if lines[i].startswith("goroutine ") and lines[i].rstrip().endswith(":"))
    except StopIteration:
        return None
    block = []
    for l in lines[g + 1:]:
        if not l.strip():
            break
        block.append(l)
    root = REPO.rstrip("/") + "/"
    frames = [l.strip().split(" +")[0].replace(root, "") for l in block if l.startswith("\t") and root in l]
    if not frames:
        return None
    return "%s at %s" % (lines[k][:300], ", ".join(frames[:3]))


def main(pid, fn):
    """Entry used by checks/<pid>.py : fn(check) performs the work and calls check.violation()."""
    import argparse
    ap = argparse.ArgumentParser()
    ap.add_argument("--tier", default=os.environ.get("VERIF_TIER", "quick"))
    ap.add_argument("--replay", default=None)
    ap.add_argument("--selftest", action="store_true")
    a = ap.parse_args(sys.argv[2:] if len(sys.argv) > 1 and sys.argv[1] == pid else sys.argv[1:])
    if a.replay:
        try:
            if json.load(open(a.replay))["replay"].get("kind") == "code-panic":
                a.replay = None         # the panic was hit by the tier's own input: run the tier again
        except Exception:
            pass
    c = Check(pid, a.tier, replay=a.replay)
    c.selftest = a.selftest
    try:
        fn(c)
        rc = c.finish(**getattr(c, "finish_args", {}))
    except CodePanic as e:
        c.violation("the code under test panicked while the driver fed it valid input (reproduced by running the same "
                    "command again): %s" % e.head, replay_obj=dict(kind="code-panic", panic=e.head, cmd=e.cmd))
        fa = getattr(c, "finish_args", None) or dict(rule="aborted by a panic of the code under test", distinct_nontrivial=0)
        rc = c.finish(**fa)
    except Inconclusive as e:
        if c.violations:
            # violations already observed on the real code (each re-confirmed by its check) stand, whatever a LATER stage of the
            # run could not conclude -- very often it could not conclude BECAUSE of them (a driver that cannot complete, part of
            # the generated universe not realised).  They are reported; the unfinished rest is named in the evidence.
            print("NOTE %s=%s a later stage was inconclusive (%s); the violations observed before it are reported" % (
                "spec" if pid.startswith("E") else "property", pid, str(e)[:300]), flush=True)
            c.extra["inconclusive_after_violations"] = str(e)[:500]
            fa = getattr(c, "finish_args", None) or dict(rule="aborted after violations: a later stage was inconclusive", distinct_nontrivial=0)
            rc = c.finish(**fa)
        else:
            print("INCONCLUSIVE %s=%s %s" % ("spec" if pid.startswith("E") else "property", pid, e), flush=True)
            rc = 2
    except Exception:
        import traceback
        traceback.print_exc()
        print("INCONCLUSIVE %s=%s internal error in the check machinery" % ("spec" if pid.startswith("E") else "property", pid), flush=True)
        rc = 2
    sys.exit(rc)
