"""C13 (partial) -- configuration loading is strict: mistakes are rejected, not ignored.
Specs: specs/ConfigValidate/ConfigValidate.tla (on top of specs/PipelineGraph: same configuration builder +
defect-injecting actions) and specs/ConfigValidate/ValidateWalk.tla.  Binding: harness/cfgvalidate (real confmap
resolver + otelcol.ConfigProvider.Get + xconfmap.Validate, the path otelcol/collector.go takes before it builds a
service; `walk` mode: xconfmap.Validate on generated value trees).
Clauses covered:
  (a) reference / shape: undefined component referenced by a pipeline or by service::extensions, processor listed
      twice, pipeline without receivers or exporters, id shared by a connector and a receiver/exporter, empty document.
  (b) unknown key: WriteKey(place, key) writes one key at any place a document has (top level, service,
      service::telemetry, ::logs, ::metrics, service::pipelines::<id>, the body of a component of each class at depth
      1 / 2 (nested struct) / 3 (row of a map of structs)); the key alphabet makes every key the defect at one place
      and its accepted NEGATIVE TWIN at another.  Specified: reject iff no field accepts the key there, error names
      the key and its path; an accepted key must not be rejected and must be reflected in the typed configuration.
      The driver reports the decoded configuration back; every written value (the twin, sibling settings written next
      to it, pipeline lists, defaults of everything not written) is compared with what the document wrote.
  (c) every nested validation rule is evaluated: ValidateWalk.tla models the reflective walk of xconfmap.Validate over
      value trees (pointer / nil, struct by value, slices and maps of pointers and of values, map keys, interface
      wrapped values, embedded squash, promoted Validate, renamed / missing / "-" tags, unexported fields, named
      collection types with their own rule); TLC enumerates the trees, the driver builds each one from a fixed family
      of Go types and calls xconfmap.Validate; compared: reported rules = failing reachable rules (parents failing or
      valid), each at its path.
  (d) defaults overlaid by exactly the written keys, in the typed AND in the effective configuration, secrets redacted:
      ConfigOverlay.tla -- settings with factory defaults (value typed, behind a pointer, in a map, in a slice) and
      secret-typed settings (configopaque.String) in every container position the encoder distinguishes (plain field,
      pointer, slice, map value, struct in a map, struct in a slice, squashed embedded struct) next to plain strings with the
      same kind of text; HISTORIES of loads in one process.  Per load: typed = defaults overlaid by its own writes (secrets in
      clear text); effective (conf.Marshal, what extensions are handed) = the same with the redaction marker for every written
      secret; and no written secret text occurs ANYWHERE in the marshalled effective configuration (whole-tree search).  How
      an unwritten, empty secret is rendered is undocumented by configopaque and left open.  The same whole-tree search is
      applied to documents of the REAL otlphttp exporter (headers, TLS pem material) and otlp receiver (response_headers).
  1. TLC exhaustive design checks (WalkSound; WalkComplete, WalkPaths, OnlyPromotedExtra; Faithful, Redacted -- the variants with
     defaults built once per process / with an encoder fast path for maps of string kind are refuted by TLC inside the check).
  2. TLC prints every configuration / value tree of the same spaces with the statement-level answer; each is loaded /
     walked by the real code and compared.
  (e) the first clause over the REAL BUILT-IN COMPONENTS (part_builtin_overlay, BuiltinSettings.tla): a table of 204 setting
      paths of the built-in factories available in this module set (otlp receiver; batch, memory_limiter processors; otlp,
      otlphttp, debug exporters; zpages, memory_limiter extensions; nop receiver / exporter and the forward connector have no
      settings) with alternative valid values; TLC generates the documents -- every single write, every PAIR of writes within a
      component (in every validity context of the component), seeded random larger subsets (TLC simulation) -- and prints the
      statement-level effective configuration of each (the paths that differ from the factory defaults).  The driver takes the
      factory defaults from the real factories (`settings`: CreateDefaultConfig marshalled by confmap) and loads every document
      through the same path with the real factories (`overlay-builtin`): conf.Marshal of the typed otelcol.Config is compared AT
      EVERY PATH of the component with defaults-overlaid-by-the-printed-paths (written secrets by the redaction marker, durations
      by their value).  Documents the loader rejects (value combinations that are not valid together) give no verdict and are
      counted.  A mismatch is confirmed by loading the smallest such document alone in a fresh process.  Documented interactions
      are explicit rows of the module (Presence: otlp receiver protocols; Alias: sending_queue::blocking; Created: sections that
      come into being with zero values; Shows: case-insensitive verbosity); the variant in which a switch write erases a sibling
      subtree is refuted by TLC inside the check.
Still NOT covered (DESIGN 4 C13): the built-in settings that need another component (auth::authenticator, middlewares), the
deprecated experimental `batcher` section of the otlp exporter (undocumented defaults), zero / empty alternative values of
omitempty settings (absent and zero are the same rendering), what extensions actually receive through NotifyConfig (the check
marshals the configuration the way otelcol/collector.go does, it does not run an extension), the nested Validate() rules of
built-in components themselves.  Known finding C13-sizer-not-in-effective-config (fixes/C13-sizer-marshaltext-value-receiver.patch).
"""
import json, os, re, random
import vlib, graphlib

PG = os.path.join(vlib.VERIF, "specs", "PipelineGraph")
PGFILES = {"PipelineGraph.tla": os.path.join(PG, "PipelineGraph.tla"),
           "PipelineGraphMC.tla": os.path.join(PG, "PipelineGraphMC.tla")}


def q(xs):
    return "{" + ", ".join('"%s"' % x for x in xs) + "}"


def cfg_text(pipes, rcvs, procs, exps, conns, maxsize, exts, maxdef, invs, maxkeys=0):
    return """SPECIFICATION VSpec
CONSTANTS
  PipeSeq <- %s
  Rcvs = %s
  Procs = %s
  Exps = %s
  Conns = %s
  Support <- SupportDef
  MaxSize = %d
  ExtIds = %s
  MaxDefects = %d
  MaxKeys = %d
INVARIANTS %s
CHECK_DEADLOCK FALSE
""" % (pipes, q(rcvs), q(procs), q(exps), q(conns), maxsize, q(exts), maxdef, maxkeys, invs)


LOGS_LEVELS = ["debug", "warn", "error"]
METRICS_LEVELS = {"none": "None", "basic": "Basic", "detailed": "Detailed"}
JUNK = [1, "x", True, {"a": 1}, [1], None]


def render(c, d):
    """TLC-printed configuration -> (document text (JSON is YAML), document as written).  Free choices (list order, empty
    list vs. missing key, null vs. {} component body, sibling settings of the test components, the values of written keys)
    are made with the seed: they do not change the specified verdict."""
    if d["blank"]:
        return c.rng.choice(["{}", ""]), {}
    doc = {}
    for sec in ("receivers", "processors", "exporters", "connectors", "extensions"):
        ids = list(d[sec])
        c.rng.shuffle(ids)
        if ids or c.rng.random() < 0.3:
            doc[sec] = {}
            for i in ids:
                body = None if c.rng.random() < 0.4 else {}
                if body is not None and c.rng.random() < 0.5:          # sibling settings that ARE accepted
                    if c.rng.random() < 0.6:
                        body["limit"] = c.rng.randrange(100)
                    if c.rng.random() < 0.4:
                        body["nested"] = {"name": "n%d" % c.rng.randrange(9)}
                    if c.rng.random() < 0.3:
                        body["table"] = {"rowb": {"weight": c.rng.randrange(9)}}
                doc[sec][i] = body
    svc = {}
    if d["sexts"] or c.rng.random() < 0.3:
        x = list(d["sexts"])
        c.rng.shuffle(x)
        svc["extensions"] = x
    pipes = {}
    for p in d["pipes"]:
        body = {}
        r, e = list(p["r"]), list(p["e"])
        c.rng.shuffle(r)
        c.rng.shuffle(e)
        if r or c.rng.random() < 0.5:
            body["receivers"] = r
        if p["p"] or c.rng.random() < 0.5:
            body["processors"] = list(p["p"])
        if e or c.rng.random() < 0.5:
            body["exporters"] = e
        pipes["%s/%s" % (p["sig"], p["name"])] = body
    svc["pipelines"] = pipes
    doc["service"] = svc
    for k in d.get("keys", []):
        kind, key = k["kind"], k["key"]
        if k["accepted"]:
            val = {"logs": lambda: c.rng.choice(LOGS_LEVELS), "metrics": lambda: c.rng.choice(sorted(METRICS_LEVELS)),
                   "telemetry": lambda: {"k%d" % c.rng.randrange(3): "v%d" % c.rng.randrange(9)},
                   "comp1": lambda: "h:%d" % c.rng.randrange(1000), "comp2": lambda: True,
                   "comp3": lambda: c.rng.randrange(1, 50)}[kind]()
        else:
            val = c.rng.choice(JUNK)

        def sub(m, name):
            if not isinstance(m.get(name), dict):
                m[name] = {}
            return m[name]
        if kind == "top":
            doc[key] = val
        elif kind == "service":
            svc[key] = val
        elif kind == "telemetry":
            sub(svc, "telemetry")[key] = val
        elif kind in ("logs", "metrics"):
            sub(sub(svc, "telemetry"), kind)[key] = val
        elif kind == "pipeline":
            pipes["%s/%s" % (k["a"], k["b"])][key] = val
        else:
            body = sub(doc[k["a"]], k["b"])
            if kind == "comp1":
                body[key] = val
            elif kind == "comp2":
                sub(body, "nested")[key] = val
            else:
                sub(sub(body, "table"), "rowa")[key] = val
    # "any subset of their settings written": the list-valued settings of the telemetry sections, in both schema generations
    # the section's decoder accepts (v0.2.0: otlp headers as a map; v0.3.0: as a name/value list).  They are valid settings
    # next to whatever else the document writes in the section, so they change nothing about which keys are accepted, which
    # are unknown and what the scalar settings decode to (seeded change C13-6: a schema-fallback that forgot the errors of the
    # section's other keys once the list decoded).
    if c.rng.random() < 0.5:
        tel = svc.get("telemetry")
        if isinstance(tel, dict) or c.rng.random() < 0.3:
            if not isinstance(tel, dict):
                tel = svc["telemetry"] = {}
            gen = c.rng.choice(["v2", "v3"])
            hdr = {"key1": "value1"} if gen == "v2" else [{"name": "key1", "value": "value1"}]
            otlp = {"otlp": {"protocol": "http/protobuf", "endpoint": "http://127.0.0.1:4317", "headers": hdr}}
            for sect, key, items in (("logs", "processors", [{"batch": {"exporter": otlp}}, {"simple": {"exporter": {"console": {}}}}]),
                                     ("metrics", "readers", [{"periodic": {"exporter": otlp}}, {"pull": {"exporter": {"prometheus": {"host": "127.0.0.1", "port": 8902}}}}])):
                if isinstance(tel.get(sect), dict) or c.rng.random() < 0.3:
                    if not isinstance(tel.get(sect), dict):
                        if tel.get(sect) is not None:
                            continue
                        tel[sect] = {}
                    if key not in tel[sect]:
                        tel[sect][key] = [c.rng.choice(items)] if c.rng.random() < 0.5 else list(items)
    return json.dumps(doc), doc


def expected_view(doc):
    """the typed configuration a document must decode to (factory defaults overlaid by exactly the written keys)"""
    svc = doc.get("service") or {}
    tel = svc.get("telemetry") or {}
    v = dict(logs_level=(tel.get("logs") or {}).get("level", "info"), logs_encoding="console",
             sampling=dict(enabled=True, initial=10, thereafter=100),
             metrics_level=METRICS_LEVELS.get((tel.get("metrics") or {}).get("level"), "Normal"),
             resource=tel.get("resource"), comps={}, pipelines={}, sexts=list(svc.get("extensions") or []))
    for sec in ("receivers", "processors", "exporters", "connectors", "extensions"):
        v["comps"][sec] = {}
        for i, body in (doc.get(sec) or {}).items():
            body = body or {}
            nested = body.get("nested") or {}
            table = body.get("table")
            v["comps"][sec][i] = dict(endpoint=body.get("endpoint", "default:1"), limit=body.get("limit", 7),
                                      nested=dict(flag=nested.get("flag", False), name=nested.get("name", "dflt")),
                                      table=None if table is None else {r: dict(weight=(row or {}).get("weight", 0)) for r, row in table.items()},
                                      opt=dict(size=5, mode="m0"), labels=dict(env="dev"), hosts=["h0", "hx"],
                                      sec=dict(secret="", secret_ptr=None, secrets=[], secret_map={}, rows={}, row_list=[], password="",
                                               public="", public_map={}))
    for pid, body in (svc.get("pipelines") or {}).items():
        v["pipelines"][pid] = {k: list(body.get(k) or []) for k in ("receivers", "processors", "exporters")}
    return v


def names_key(defect, text):
    """unknown key: the decoder's (multi-line) error must name the key and the place it was written at"""
    _, kind, a, b, key = defect
    if not re.search(r"invalid keys: [^\n]*(?<![\w])%s(?![\w])" % re.escape(key), text):
        return False
    want = {"top": ["'' has invalid keys"], "service": ["'service' has invalid keys"], "telemetry": ["service.telemetry"],
            "logs": ["service.telemetry", "'logs'"], "metrics": ["service.telemetry", "'metrics'"],
            "pipeline": ["pipelines[%s/%s]" % (a, b)], "comp1": ["'%s'" % a, '"%s"' % b],
            "comp2": ["'%s'" % a, '"%s"' % b, "'nested'"], "comp3": ["'%s'" % a, '"%s"' % b, "table[rowa]"]}[kind]
    return all(w in text for w in want)


def names(defect, line):
    cls, what, sig, name, cid = defect
    pid = "%s/%s" % (sig, name)
    if cls == "undefined":
        if what == "extension":
            return '"%s"' % cid in line and "extension" in line
        return pid in line and '"%s"' % cid in line and what in line
    if cls == "duplicate":
        return pid in line and '"%s"' % cid in line
    if cls == "shape":
        return pid in line and what[:-1] in line
    if cls == "ambiguous":
        return '"%s"' % cid in line and "connector" in line and what in line
    return True          # empty / missing sections: there is no entry to name


def compare(d, o):
    if o.get("panic"):
        return "configuration loading panicked: %s" % o["panic"]
    err = o["err"]
    if d["reject"] and not err:
        return "mistake ignored: configuration accepted although it has offending entries %s" % d["defects"][:3]
    if not d["reject"] and err:
        return "valid configuration rejected (%s): %s" % (o["stage"], err[:300])
    if err and o.get("err2") and o["err2"] != err:
        return ("the rejection names the offending entry inconsistently: the same error value renders differently the second time: "
                "first %r, then %r" % (err[:200], o["err2"][:200]))
    if d["reject"]:
        lines = err.split("\n")
        ukeys = [x for x in d["defects"] if x[0] == "unknownkey"]
        if ukeys:
            # the document does not decode: the decoder must name (at least one of) the unknown keys with its place
            if o["stage"] != "get" or not any(names_key(x, err) for x in ukeys):
                return "rejected, but the error names none of the unknown keys %s with its place: (%s) %s" % (ukeys[:3], o["stage"], err[:400])
        elif not any(names(x, ln) for x in d["defects"] for ln in lines):
            return "rejected, but the error names none of the offending entries %s: %s" % (d["defects"][:3], err[:300])
    # faithfulness of what was decoded: every written key (accepted twins, sibling settings, lists) and every default
    if o.get("view") is not None and d.get("_written") is not None:
        want = expected_view(d["_written"])
        got = o["view"]
        if got.get("resource") == {}:
            got["resource"] = None if want["resource"] is None else got["resource"]
        if want != got:
            diff = [k for k in want if want[k] != got.get(k)] or [k for k in got if k not in want]
            k = diff[0]
            return "typed configuration does not reflect the document at %s: written/default %s, decoded %s" % (
                k, json.dumps(want[k], sort_keys=True)[:300], json.dumps(got.get(k), sort_keys=True)[:300])
    return None


def run_docs(c, binp, docs, universe_ids, label):
    inp = os.path.join(c.work, "docs_%s.ndjson" % label)
    out = os.path.join(c.work, "res_%s.ndjson" % label)
    types = {k: universe_ids for k in ("receivers", "processors", "exporters", "connectors", "extensions")}
    texts = []
    for d in docs:
        if d.get("_doc") is None:
            d["_doc"], d["_written"] = render(c, d)
        texts.append(d["_doc"])
    vlib.write_ndjson(inp, [dict(doc=t, types=types) for t in texts])
    try:
        c.run([binp, inp, out], timeout=1800)
    except vlib.Inconclusive as e:
        # the documents are loaded by 8 goroutines side by side, which the statement does not ask for: if the driver dies
        # (e.g. a runtime fault on state shared between loads), load them again strictly one after the other
        c.log("parallel driver failed (%s...): loading the documents sequentially" % str(e)[:120].replace("\n", " "))
        c.run([binp, inp, out], timeout=3600, env=dict(os.environ, CFGVALIDATE_WORKERS="1"))
    res = vlib.read_ndjson(out)
    if len(res) != len(docs):
        raise vlib.Inconclusive("driver loaded %d of %d documents" % (len(res), len(docs)))
    nbad = 0
    for d, t, o in zip(docs, texts, res):
        why = compare(d, o)
        if why:
            nbad += 1
            if nbad <= 5:
                c.violation("%s; document %s" % (why, t[:400]), replay_obj=dict(expected=d, universe=universe_ids, observed=o))
    c.log("loaded %d documents (%s): %d mismatches" % (len(docs), label, nbad))
    return res, texts


def dedup(vals):
    seen, out = set(), []
    for v in vals:
        k = json.dumps(v, sort_keys=True)
        if k not in seen:
            seen.add(k)
            out.append(v)
    return out


# ------------------------------------------------------------------ clause (c): the validation walk
def rule_id(rule):
    return "/".join(rule[0]) + "#" + rule[1]


def seg_texts(path, rid):
    return [(rid if t == "<ID>" else t, k) for t, k in path]


def compare_walk(d, o):
    """-> (violation or None, drift or None)"""
    if o.get("panic"):
        return "xconfmap.Validate panicked: %s" % o["panic"], None
    if o.get("err"):
        raise vlib.Inconclusive("walk driver could not build a generated tree: %s" % o["err"])
    failing = {rule_id(r) for r in d["failing"]}
    obs = [(r["path"].split("::") if r["path"] else [], r["msg"][4:] if r["msg"].startswith("bad:") else r["msg"]) for r in o["reports"]]
    got = {m for _, m in obs}
    if failing - got:
        return "validation rule(s) not evaluated / not reported: %s (reported: %s)" % (sorted(failing - got), sorted(got)), None
    if got - failing:
        return "reported validation failure(s) that no reachable rule produced: %s" % sorted(got - failing), None
    drift = None
    for e in d["expected"]:
        rid = rule_id(e["rule"])
        want = seg_texts(e["path"], rid)
        paths = [p for p, m in obs if m == rid]
        if [t for t, _ in want] in paths:
            continue
        # no report of this rule at its path: which kind of segment differs?
        worst = None
        for p in paths:
            if len(p) == len(want) and all(a == t or k in ("lower", "squash", "dash") for a, (t, k) in zip(p, want)):
                worst = "convention"
        if worst == "convention":
            drift = "rule %s reported at %s, model path %s (differs only in a code-convention segment)" % (rid, paths, "::".join(t for t, _ in want))
        else:
            return "failing rule %s is reported with the wrong path %s, its entry is %s" % (
                rid, ["::".join(p) for p in paths], "::".join(t for t, _ in want)), None
    if drift is None:
        wantbag = sorted(("::".join(t for t, _ in seg_texts(r["path"], rule_id(r["rule"]))), rule_id(r["rule"])) for r in d["reports"])
        gotbag = sorted(("::".join(p), m) for p, m in obs)
        if wantbag != gotbag:
            drift = "reports differ from the implementation-shaped walk: model %s, real %s" % (wantbag[:6], gotbag[:6])
    return None, drift


def walk_cfg(depth, nodes, wraps, bad, invs):
    return """SPECIFICATION WSpec
CONSTANTS
  MaxDepth = %d
  MaxNodes = %d
  MaxWraps = %d
  MaxBad = %d
INVARIANTS %s
CHECK_DEADLOCK FALSE
""" % (depth, nodes, wraps, bad, invs)


def run_trees(c, binp, trees, label):
    inp = os.path.join(c.work, "trees_%s.ndjson" % label)
    out = os.path.join(c.work, "walk_%s.ndjson" % label)
    vlib.write_ndjson(inp, [dict(nodes=t["nodes"], wraps=t["wraps"], bad=t["bad"]) for t in trees])
    c.run([binp, "walk", inp, out], timeout=1800)
    res = vlib.read_ndjson(out)
    if len(res) != len(trees):
        raise vlib.Inconclusive("driver walked %d of %d trees" % (len(res), len(trees)))
    nbad = ndrift = 0
    for t, o in zip(trees, res):
        viol, drift = compare_walk(t, o)
        if viol:
            nbad += 1
            if nbad <= 5:
                c.violation("%s; tree nodes %s wraps %s bad %s" % (viol, t["nodes"], t["wraps"], t["bad"]),
                            replay_obj=dict(kind="walk", tree=t, observed=o))
        elif drift:
            ndrift += 1
            if ndrift <= 2:
                c.model_drift(drift)
    c.log("walked %d value trees (%s): %d mismatches, %d drifts" % (len(trees), label, nbad, ndrift))
    return res


# ------------------------------------------------------------------ clause (d): defaults overlaid by exactly the written keys
def _comp(c):
    return "rt/" + c


SEC_KEYS = {"sec.plain": ["secret"], "sec.ptr": ["secret_ptr"], "sec.list": ["secrets"], "sec.map.k": ["secret_map", "k"],
            "sec.rowmap": ["rows", "r1"], "sec.rowlist": ["row_list"], "sec.squash": ["password"],
            "pub.plain": ["public"], "pub.map.k": ["public_map", "k"]}


def setting_path(sname):
    """setting of ConfigOverlay.tla -> path in the document"""
    p = sname.split(".")
    if ".".join(p[1:]) in SEC_KEYS:
        return ["receivers", _comp(p[0])] + SEC_KEYS[".".join(p[1:])]
    if p[0] == "tl":
        return ["service", "telemetry", "logs"] + (["sampling", p[2]] if p[1] == "s" else [p[1]])
    if p[0] == "tm":
        return ["service", "telemetry", "metrics", p[1]]
    return ["receivers", _comp(p[0])] + p[1:]


def token_value(sname, tok):
    if sname.endswith(".sec.rowmap"):
        return {"token": tok}
    if sname.endswith(".sec.rowlist"):
        return [{"token": tok}]
    if sname.endswith(".sec.list"):
        return tok.split(",")
    if ".sec." in sname or ".pub." in sname:
        return tok
    if sname.endswith(".hosts"):
        return [x for x in tok.split(",") if x]
    if tok in ("true", "false") and (sname.endswith("enabled") or sname.endswith("flag")):
        return tok == "true"
    if tok.isdigit():
        return int(tok)
    return tok


def to_token(v):
    if v is None:
        return "<absent>"
    if isinstance(v, bool):
        return "true" if v else "false"
    if isinstance(v, list):
        return ",".join(to_token(x.get("token")) if isinstance(x, dict) else str(x) for x in v)
    if isinstance(v, dict) and set(v) == {"token"}:
        return to_token(v["token"])
    return str(v)


def dig(m, path):
    for k in path:
        if not isinstance(m, dict) or k not in m:
            return None
        m = m[k]
    return m


def observed_tokens(o, names):
    """(typed, effective) values of every setting as tokens"""
    v, eff = o["view"], o.get("eff") or {}
    typed, effective = {}, {}
    for s in names:
        p = s.split(".")
        if p[0] == "tl":
            if p[1] == "s":
                typed[s] = to_token((v["sampling"] or {}).get(p[2]))
                effective[s] = to_token(dig(eff, ["logs", "sampling", p[2]]))
            else:
                typed[s] = to_token(v["logs_" + p[1]])
                effective[s] = to_token(dig(eff, ["logs", p[1]]))
        elif p[0] == "tm":
            typed[s] = to_token(v["metrics_level"]).lower()
            effective[s] = to_token(eff.get("metrics_level")).lower()
        elif ".".join(p[1:]) in SEC_KEYS:
            kp = SEC_KEYS[".".join(p[1:])]
            typed[s] = to_token(dig(v["comps"]["receivers"], [_comp(p[0]), "sec"] + kp))
            effective[s] = to_token(dig(eff, ["receivers", _comp(p[0])] + kp))
        else:
            typed[s] = to_token(dig(v["comps"]["receivers"], [_comp(p[0])] + p[1:]))
            effective[s] = to_token(dig(eff, ["receivers", _comp(p[0])] + p[1:]))
    return typed, effective


def render_load(c, ld):
    doc = {"receivers": {_comp("a"): c.rng.choice([None, {}]), _comp("b"): c.rng.choice([None, {}])}, "exporters": {"e1": None},
           "service": {"pipelines": {"logs/a": {"receivers": [_comp("a"), _comp("b")], "exporters": ["e1"]}}}}
    for w in ld["w"]:
        path = setting_path(w["s"])
        m = doc
        for k in path[:-1]:
            if not isinstance(m.get(k), dict):
                m[k] = {}
            m = m[k]
        m[path[-1]] = token_value(w["s"], w["v"])
    if ld["defect"] == "dangling":
        doc["service"]["pipelines"]["logs/a"]["processors"] = ["pmissing"]
    elif ld["defect"] == "unknownkey":
        where = c.rng.choice(["top", "service", "telemetry"])
        if where == "top":
            doc["bogus_key"] = 1
        elif where == "service":
            doc["service"]["bogus_key"] = 1
        else:
            doc["service"].setdefault("telemetry", {})["bogus_key"] = 1
    return json.dumps(doc)


def compare_load(ld, o):
    if o.get("panic"):
        return "configuration loading panicked: %s" % o["panic"]
    if ld["reject"] != bool(o["err"]):
        return "document %s but %s: %s" % ("must be rejected" if ld["reject"] else "is valid", "accepted" if not o["err"] else "rejected", o["err"][:200])
    if ld["decoded"] != (o.get("view") is not None):
        return "document must %sdecode, stage %s: %s" % ("" if ld["decoded"] else "not ", o["stage"], o["err"][:200])
    if not ld["decoded"]:
        return None
    if o.get("eff_err"):
        return "effective configuration could not be marshalled: %s" % o["eff_err"]
    if o.get("leaks"):
        lk = o["leaks"][0]
        return "secret text %r occurs in the effective configuration handed to extensions, at %s" % (lk["needle"], lk["path"].lstrip(":"))
    typed, eff = observed_tokens(o, ld["typed"])
    for what, got, want in (("typed", typed, ld["typed"]), ("effective (conf.Marshal)", eff, ld["effective"])):
        bad = sorted(s for s in want if want[s] != "<open>" and want[s] != got[s])
        if bad and what.startswith("effective") and any(w["s"] == bad[0] and w["sec"] for w in ld["w"]):
            return "secret-typed setting %s is not redacted in the effective configuration: shows %r, must show %r" % (
                "::".join(setting_path(bad[0])), got[bad[0]], want[bad[0]])
        if bad:
            s0 = bad[0]
            written = {w["s"] for w in ld["w"]}
            return "%s configuration is not 'defaults overlaid by exactly the written keys': %s = %r, must be %r (%s)" % (
                what, "::".join(setting_path(s0)), got[s0], want[s0], "written by this document" if s0 in written else "NOT written by this document: factory default")
    return None


def run_seq_file(c, binp, seqs, label):
    """seqs: list of lists of loads (each with _doc).  All sequences are loaded by ONE process, one after the other."""
    inp = os.path.join(c.work, "seq_%s.ndjson" % label)
    out = os.path.join(c.work, "seqres_%s.ndjson" % label)
    types = {k: ["rt", "e1"] for k in ("receivers", "processors", "exporters", "connectors", "extensions")}
    # needles: the secret texts each document wrote -- they may occur nowhere in its effective configuration
    vlib.write_ndjson(inp, [dict(docs=[ld["_doc"] for ld in sq], types=types,
                                 needles=[[x for w in ld["w"] if w.get("sec") for x in w["v"].split(",") if x] for ld in sq]) for sq in seqs])
    c.run([binp, "seq", inp, out], timeout=1800)
    res = vlib.read_ndjson(out)
    if len(res) != len(seqs) or any(len(r["loads"]) != len(sq) for r, sq in zip(res, seqs)):
        raise vlib.Inconclusive("driver loaded %d of %d sequences" % (len(res), len(seqs)))
    return res


def first_mismatch(seqs, res):
    for j, (sq, r) in enumerate(zip(seqs, res)):
        for k, (ld, o) in enumerate(zip(sq, r["loads"])):
            why = compare_load(ld, o)
            if why:
                return j, k, why
    return None


def run_histories(c, binp, seqs, label, procs=6):
    procs = procs if len(seqs) < 50000 else 6
    """The histories are split into `procs` contiguous chunks, each chunk is loaded by ONE process on one goroutine, history
    after history.  Every load is compared with its own specification.  Because process-wide state may carry over from
    EARLIER histories of the same process, a mismatch is confirmed (and minimised) in a fresh process before it is reported."""
    from concurrent.futures import ThreadPoolExecutor
    for sq in seqs:
        for ld in sq:
            if ld.get("_doc") is None:
                ld["_doc"] = render_load(c, ld)
    n = max(1, (len(seqs) + procs - 1) // procs)
    chunks = [seqs[i:i + n] for i in range(0, len(seqs), n)]
    with ThreadPoolExecutor(max_workers=procs) as ex:
        results = list(ex.map(lambda kc: run_seq_file(c, binp, kc[1], "%s_p%d" % (label, kc[0])), enumerate(chunks)))
    nbad = 0
    reported = False
    for ck, (chunk, res) in enumerate(zip(chunks, results)):
        nbad += sum(1 for sq, r in zip(chunk, res) if any(compare_load(ld, o) for ld, o in zip(sq, r["loads"])))
        mm = first_mismatch(chunk, res)
        if not mm or reported:
            continue
        j, k, why = mm
        hist, win = None, 0
        while True:                              # the history alone, then growing windows of the histories loaded before it
            cand = [ld for sq in chunk[max(0, j - win):j + 1] for ld in sq]
            r = run_seq_file(c, binp, [cand], label + "_confirm")
            bad = [(i, compare_load(ld, o)) for i, (ld, o) in enumerate(zip(cand, r[0]["loads"]))]
            bad = [(i, w) for i, w in bad if w]
            if bad:
                hist, why = cand[:bad[0][0] + 1], bad[0][1]
                break
            if win >= j:
                break
            win = min(j, max(1, win * 2))
        if hist is None:
            raise vlib.Inconclusive("a load differed from its specification in the batch but no history reproduces it in a fresh process: %s" % why)
        reported = True
        c.violation("%s; history of %d loads in one process, the last one: %s; the ones before: %s" % (
                        why, len(hist), hist[-1]["_doc"][:300], [dict(w=h["w"], defect=h["defect"]) for h in hist[:-1]][-3:]),
                    replay_obj=dict(kind="seq", loads=hist))
    c.log("loaded %d histories (%d loads) in %d processes (%s): %d histories with a mismatch" % (
        len(seqs), sum(len(sq) for sq in seqs), len(chunks), label, nbad))
    return [r for res in results for r in res]


def part_builtin(pc, binp, k, _):
    """real built-in components: secrets written into the opaque settings of the otlphttp exporter (headers, TLS pem material) and
    of the otlp receiver (http response_headers), one at a time and all together; loaded through the same path.  The typed
    configuration must hold the clear text, the marshalled effective configuration must not contain it anywhere."""
    secrets = {"hdr": "S3CR3T-hdr", "rhdr": "S3CR3T-rhdr", "key": "S3CR3T-keypem", "cert": "S3CR3T-certpem", "ca": "S3CR3T-capem"}
    docs = []
    for pick in [[x] for x in ("hdr", "rhdr", "ca")] + [["key", "cert"], sorted(secrets), []]:
        exp = {"endpoint": "http://localhost:1"}
        rcv = {"protocols": {"http": {"endpoint": "localhost:0"}}}
        if "hdr" in pick:
            exp["headers"] = {"x-api-key": secrets["hdr"], "plain-name": "v-%d" % pc.rng.randrange(9)}
        tls = {}
        for name, key in (("key", "key_pem"), ("cert", "cert_pem"), ("ca", "ca_pem")):
            if name in pick:
                tls[key] = secrets[name]
        if tls:
            exp["tls"] = tls
        if "rhdr" in pick:
            rcv["protocols"]["http"]["response_headers"] = {"x-token": secrets["rhdr"]}
        doc = {"receivers": {"otlp": rcv}, "exporters": {"otlphttp": exp},
               "service": {"pipelines": {"traces": {"receivers": ["otlp"], "exporters": ["otlphttp"]}}}}
        docs.append(dict(pick=pick, doc=json.dumps(doc), needles=[secrets[x] for x in pick]))
    inp = os.path.join(pc.work, "builtin.ndjson")
    out = os.path.join(pc.work, "builtin_res.ndjson")
    vlib.write_ndjson(inp, [dict(doc=d["doc"], needles=d["needles"]) for d in docs])
    pc.run([binp, "builtin", inp, out], timeout=600)
    res = vlib.read_ndjson(out)
    if len(res) != len(docs):
        raise vlib.Inconclusive("driver loaded %d of %d built-in documents" % (len(res), len(docs)))
    nbad = 0
    for d, o in zip(docs, res):
        why = None
        if o.get("panic"):
            why = "loading panicked: %s" % o["panic"]
        elif o["err"]:
            why = "valid document of real built-in components rejected (%s): %s" % (o["stage"], o["err"][:300])
        elif o["leaks"]:
            why = "secret text %r occurs in the effective configuration handed to extensions, at %s" % (
                o["leaks"][0]["needle"], o["leaks"][0]["path"].lstrip(":"))
        elif ("hdr" in d["pick"] and o["headers"].get("x-api-key") != secrets["hdr"]) or \
             ("rhdr" in d["pick"] and o["response_headers"].get("x-token") != secrets["rhdr"]) or \
             ("key" in d["pick"] and o["key_pem"] != secrets["key"]):
            why = "typed configuration does not hold the written secret: headers %s response_headers %s" % (o["headers"], o["response_headers"])
        elif o["redacted"] < len(d["pick"]):
            why = "only %d redaction markers in the effective configuration for %d written secrets" % (o["redacted"], len(d["pick"]))
        if why:
            nbad += 1
            pc.violation("%s; built-in document %s" % (why, d["doc"][:400]), replay_obj=dict(kind="builtin", doc=d))
    pc.total += len(docs)
    pc.log("loaded %d documents of real built-in components with secrets: %d mismatches" % (len(docs), nbad))


# ------------------------------------------------------------------ clause (d) over the REAL built-in components
# specs/ConfigValidate/BuiltinSettings.tla: table of the settings of the built-in factories with alternative valid values; TLC
# generates the documents (every single write, every pair of writes within a component, seeded random larger subsets) together with
# the statement-level effective configuration (paths that differ from the factory defaults); the driver loads each document through
# the same path with the real factories and hands back conf.Marshal of the typed configuration; compared at EVERY path with the
# factory defaults (taken from the factories at run time: `settings` mode) overlaid by what TLC printed.
BS_COMPS = ["exporters/otlphttp", "exporters/otlp", "exporters/debug", "receivers/otlp", "processors/batch",
            "processors/memory_limiter", "extensions/memory_limiter", "extensions/zpages"]


def bs_cfg(maxw, comps, invs, switch=False):
    return """SPECIFICATION BSpec
CONSTANTS
  MaxWrites = %d
  Comps = %s
  SwitchErases = %s
INVARIANTS %s
CHECK_DEADLOCK FALSE
""" % (maxw, q(comps), "TRUE" if switch else "FALSE", invs)


def tok_value(tok):
    """value token of the table (JSON text with single quotes) -> value"""
    if tok == "[REDACTED]":          # Marker of the module: how a written secret shows in the effective configuration
        return tok
    return json.loads(tok.replace("'", '"'))


_DUR = re.compile(r"(\d+(?:\.\d+)?)(ns|us|ms|s|m|h)")
_UNIT = dict(ns=1, us=10**3, ms=10**6, s=10**9, m=60 * 10**9, h=3600 * 10**9)


def dur_ns(text):
    pos, total = 0, 0
    for m in _DUR.finditer(text):
        if m.start() != pos:
            return None
        total += float(m.group(1)) * _UNIT[m.group(2)]
        pos = m.end()
    return int(round(total)) if pos == len(text) and pos else None


def schema_type(schema, path):
    segs = path.split("::")
    for row in schema:
        rs = row["path"].split("::")
        if len(rs) == len(segs) and all(a == b or a == "*" for a, b in zip(rs, segs)):
            return row["type"]
    return None


def bs_canon(schema, path, v):
    """how the confmap encoder renders a value of the setting's Go type: a time.Duration (written as text) is rendered as its
    number of nanoseconds -- the same value"""
    if isinstance(v, str) and schema_type(schema, path) == "time.Duration":
        ns = dur_ns(v)
        if ns is not None:
            return ns
    return v


def set_path(m, path, val):
    segs = path.split("::")
    for k in segs[:-1]:
        if not isinstance(m.get(k), dict):
            m[k] = {}
        m = m[k]
    m[segs[-1]] = val


def del_path(m, path):
    segs = path.split("::")
    for k in segs[:-1]:
        m = m.get(k) if isinstance(m, dict) else None
        if m is None:
            return
    if isinstance(m, dict):
        m.pop(segs[-1], None)


def all_diffs(want, got, path, out):
    if isinstance(want, dict) and isinstance(got, dict):
        for k in sorted(set(want) | set(got)):
            sub = (path + "::" + k) if path else k
            if k not in want:
                out.append((sub, "<absent>", got[k]))
            elif k not in got:
                out.append((sub, want[k], "<absent>"))
            else:
                all_diffs(want[k], got[k], sub, out)
    elif isinstance(want, bool) != isinstance(got, bool) or want != got:
        out.append((path, want, got))


def bs_render(d):
    cls, typ = d["c"].split("/")
    body = {}
    for w in d["w"]:
        set_path(body, w["p"], tok_value(w["v"]))
    doc = {"receivers": {"nop": None}, "exporters": {"nop": None},
           "service": {"pipelines": {"traces": {"receivers": ["nop"], "exporters": ["nop"]}}}}
    doc.setdefault(cls, {})[typ] = body or None
    pl = doc["service"]["pipelines"]["traces"]
    if cls in ("receivers", "exporters"):
        pl[cls] = [typ]
        if cls == "receivers":
            del doc["receivers"]["nop"]
        else:
            del doc["exporters"]["nop"]
    elif cls == "processors":
        pl["processors"] = [typ]
    elif cls == "extensions":
        doc["service"]["extensions"] = [typ]
    return json.dumps(doc)


def bs_expected(st, d):
    import copy
    exp = copy.deepcopy(st["defaults"][d["c"]])
    for sect in d["absent"]:
        set_path(exp, sect, None)          # a section that is not there is a nil pointer: rendered as null
    for e in d["eff"]:
        set_path(exp, e["p"], bs_canon(st["schema"][d["c"]], e["p"], tok_value(e["v"])))
    return exp


def bs_settings(pc, binp):
    out = os.path.join(pc.work, "bs_settings.ndjson")
    pc.run([binp, "settings", out], timeout=300)
    st = dict(defaults={}, schema={})
    for r in vlib.read_ndjson(out):
        if r.get("err"):
            raise vlib.Inconclusive("default configuration of %s/%s cannot be marshalled: %s" % (r["class"], r["type"], r["err"]))
        st["defaults"]["%s/%s" % (r["class"], r["type"])] = r["defaults"] or {}
        st["schema"]["%s/%s" % (r["class"], r["type"])] = r["schema"] or []
    missing = [x for x in BS_COMPS if x not in st["defaults"]]
    if missing:
        raise vlib.Inconclusive("built-in factories missing from the driver: %s" % missing)
    return st


def bs_load(pc, binp, docs, label, alone=False):
    inp = os.path.join(pc.work, "bs_%s.ndjson" % label)
    out = os.path.join(pc.work, "bs_%s_res.ndjson" % label)
    for d in docs:
        if d.get("_doc") is None:
            d["_doc"] = bs_render(d)
    vlib.write_ndjson(inp, [dict(doc=d["_doc"]) for d in docs])
    pc.run([binp, "overlay-builtin", inp, out], timeout=1800, env=dict(os.environ, CFGVALIDATE_WORKERS="1") if alone else None)
    res = vlib.read_ndjson(out)
    if len(res) != len(docs):
        raise vlib.Inconclusive("driver loaded %d of %d built-in documents" % (len(res), len(docs)))
    return res


def bs_compare(st, d, o):
    """-> None (skipped: the document did not load / validate), or the list of (path, expected, observed)"""
    if o.get("panic"):
        return [("(load)", "no panic", "panic: %s" % o["panic"])]
    if o.get("err"):
        return None
    cls, typ = d["c"].split("/")
    got = (o.get("eff") or {}).get(cls, {}).get(typ)
    diffs = []
    all_diffs(bs_expected(st, d), got if got is not None else {}, "", diffs)
    return diffs


def bs_check_docs(pc, binp, st, docs, label):
    """loads the documents, compares, confirms every kind of mismatch on its own and reports it; -> (loaded, skipped, mismatching docs)"""
    res = bs_load(pc, binp, docs, label)
    groups, skipped, nbad = {}, [], 0
    for d, o in zip(docs, res):
        diffs = bs_compare(st, d, o)
        if diffs is None:
            skipped.append((d, o))
            continue
        if diffs:
            nbad += 1
        for path, want, got in diffs:
            groups.setdefault((d["c"], path), []).append((d, want, got))
    for n, ((comp, path), hits) in enumerate(sorted(groups.items(), key=lambda kv: (len(kv[1][0][0]["w"]), kv[0]))):
        hits.sort(key=lambda h: len(h[0]["w"]))
        d = hits[0][0]
        # confirm: the smallest document of the group alone, in a fresh process, one goroutine
        again = bs_compare(st, d, bs_load(pc, binp, [d], label + "_confirm", alone=True)[0]) or []
        same = [x for x in again if x[0] == path]
        if not same:
            raise vlib.Inconclusive("built-in document differed at %s::%s in the batch but not when loaded alone: %s" % (comp, path, d["_doc"][:300]))
        _, want, got = same[0]
        written = sorted("%s=%s" % (w["p"], w["v"]) for w in d["w"])
        own = any(w["p"] == path or w["p"].startswith(path + "::") or path.startswith(w["p"] + "::") for w in d["w"])
        why = ("built-in component %s: effective / typed configuration is not 'factory defaults overlaid by exactly the written keys' at %s: "
               "expected %s, observed %s (%s); written keys: %s; %d generated documents differ at this path" % (
                   comp, path, json.dumps(want)[:200], json.dumps(got)[:200],
                   "a WRITTEN key is not reflected" if own else "this key was NOT written: it must show the factory default",
                   ", ".join(written), len(hits)))
        if n < 8:
            pc.violation(why + "; document " + d["_doc"][:400], replay_obj=dict(kind="builtin-overlay", doc={k: v for k, v in d.items() if k != "_doc"}),
                         signature="C13:builtin-overlay:%s:%s:observed=%s" % (path, "written" if own else "unwritten", json.dumps(got, sort_keys=True)[:60]))
    pc.log("loaded %d documents of real built-in components (%s): %d skipped (rejected by the loader), %d differ from the overlay, %d kinds of mismatch" % (
        len(docs), label, len(skipped), nbad, len(groups)))
    return res, skipped, nbad


def part_builtin_overlay(pc, binp, k, mode):
    """first clause over the real built-in components.  mode: (MaxWrites exhaustive, pair sample or None, simulated subsets, depth)"""
    maxw, pair_sample, nsim, depth = mode
    st = bs_settings(pc, binp)
    r = pc.tlc("ConfigValidate", "BuiltinSettingsGen", cfg_text=bs_cfg(maxw, BS_COMPS, "Faithful EmitDoc"), workers=1, timeout=1500,
               label="bsettings", count=True, heap="4g")
    if not r.ok:
        raise vlib.Inconclusive("BuiltinSettings design check / generator failed: %s\n%s" % (r.error, (r.trace_text or r.out)[-1500:]))
    docs = dedup(r.printed)
    if not docs:
        raise vlib.Inconclusive("BuiltinSettings generator printed nothing")
    # negative control: the decoder hook in which a switch write erases a sibling subtree is refuted by the model
    rn = pc.tlc("ConfigValidate", "BuiltinSettings", cfg_text=bs_cfg(2, ["exporters/otlphttp"], "Faithful", switch=True), workers=1, timeout=600,
                label="bsettings_switch", count=False)
    if rn.ok or not rn.error or rn.error[0] != "invariant":
        raise vlib.Inconclusive("BuiltinSettings with SwitchErases=TRUE should violate Faithful (the model lost its bite): %s" % (rn.error,))
    singles = [d for d in docs if d["n"] <= 1]
    pairs = [d for d in docs if d["n"] == 2]
    more = [d for d in docs if d["n"] > 2]
    if pair_sample is not None and len(pairs) > pair_sample:
        pairs = pc.rng.sample(pairs, pair_sample)
    big = []
    if nsim:
        rs = pc.tlc("ConfigValidate", "BuiltinSettingsGen", cfg_text=bs_cfg(depth, BS_COMPS, "EmitDoc"), workers=1, timeout=900,
                    simulate="num=%d" % nsim, depth=depth + 1, seed=pc.seed, label="bsettings_sim", count=False, heap="4g")
        if not rs.ok and not rs.printed:
            raise vlib.Inconclusive("BuiltinSettings simulation failed: %s" % (rs.error,))
        big = [d for d in dedup(rs.printed) if d["n"] > 2]
    res1, skipped1, bad1 = bs_check_docs(pc, binp, st, singles, "singles")
    rest = pairs + more + big
    res2, skipped2, bad2 = [], [], 0
    for i in range(0, len(rest), 20000):          # (bounded memory: the driver hands back a whole component configuration per document)
        r2, s2, b2 = bs_check_docs(pc, binp, st, rest[i:i + 20000], "subsets%d" % (i // 20000))
        res2 = res2 or r2
        skipped2 += s2
        bad2 += b2
    ndocs = len(singles) + len(rest)
    pc.total += ndocs
    pc.nontrivial += sum(1 for d in singles + rest if d["n"] >= 2)
    nrows = len({(d["c"], w["p"]) for d in singles for w in d["own"]})
    nleaf = sum(len(st["schema"][c]) for c in BS_COMPS)
    pc.c.extra["builtin_overlay"] = dict(
        components=len(BS_COMPS), setting_paths_in_table=nrows, schema_leaf_paths=nleaf,
        documents=ndocs, single_write_documents=len(singles), pair_documents=len(pairs), larger_subset_documents=len(more) + len(big),
        skipped_rejected_by_loader=len(skipped1) + len(skipped2), skipped_singles=len(skipped1), documents_differing_incl_known_findings=bad1 + bad2)
    if len(skipped1) > len(singles) // 15:
        # vacuity guard (after the subsets have been compared: violations observed there win over this)
        raise vlib.Inconclusive("%d of %d single-write documents of built-in components were rejected by the loader, e.g. %s: %s" % (
            len(skipped1), len(singles), skipped1[-1][0]["_doc"][:200], skipped1[-1][1]["err"][:200]))
    pick = [i for i, d in enumerate(rest) if d["c"] == "exporters/otlphttp" and any(w["p"] == "sending_queue::enabled" for w in d["own"])
            and any(w["p"].startswith("sending_queue::batch") for w in d["own"]) and i < len(res2) and not res2[i].get("err")]
    if pick:
        i = pick[0]
        cls, typ = rest[i]["c"].split("/")
        pc.sample(dict(kind="built-in document", doc=rest[i]["_doc"], specified_differs_from_defaults=rest[i]["eff"],
                       observed_sending_queue=((res2[i].get("eff") or {}).get(cls, {}).get(typ) or {}).get("sending_queue")))


def overlay_cfg(loads, writes, defects, invs, share=False, fastpath=False):
    return """SPECIFICATION OSpec
CONSTANTS
  MaxLoads = %d
  MaxWrites = %d
  Defects = %s
  ShareDefaults = %s
  MapFastPath = %s
INVARIANTS %s
CHECK_DEADLOCK FALSE
""" % (loads, writes, q(defects), "TRUE" if share else "FALSE", "TRUE" if fastpath else "FALSE", invs)


class Part:
    """One independent part of the check, run on its own thread: own seeded PRNG (so that the documents do not depend on
    thread scheduling) and own state/transition counters (added up by the main thread); everything else is the Check."""

    def __init__(self, c, k):
        self.c, self.rng = c, random.Random(c.seed * 1000 + k)
        self.states = self.transitions = self.total = self.nontrivial = 0

    def __getattr__(self, name):
        return getattr(self.c, name)

    def tlc(self, *a, **kw):
        count = kw.pop("count", True)
        r = self.c.tlc(*a, count=False, **kw)
        if count:
            self.states += r.distinct
            self.transitions += r.generated
        return r

    def tlc_must_pass(self, *a, **kw):
        r = self.c.tlc_must_pass(*a, count=False, **kw)
        self.states += r.distinct
        self.transitions += r.generated
        return r


def part_docs(pc, binp, k, u):
    """clauses (a) and (b): configurations x defect injections x written keys"""
    args = u[:8]
    if u[8]:
        # written-key universes: design invariant and generator in one (single worker) run
        r = pc.tlc("ConfigValidate", "ConfigValidateGen", cfg_text=cfg_text(*args, "WalkSound EmitDoc", maxkeys=u[8]), workers=1,
                   files=PGFILES, timeout=1800, label="keys%d" % k, count=True, heap="8g")
    else:
        # (the WriteKey disjunct quantifies over a state-dependent set: TLC reports it under the name VNext)
        pc.tlc_must_pass("ConfigValidate", "ConfigValidate", cfg_text=cfg_text(*args, "WalkSound"), coverage=True, files=PGFILES,
                         vacuous_ok=("WriteKey", "VNext"), timeout=1500, label="design%d" % k)
        r = pc.tlc("ConfigValidate", "ConfigValidateGen", cfg_text=cfg_text(*args, "EmitDoc"), workers=1, files=PGFILES,
                   timeout=1500, label="gen%d" % k, count=False, heap="8g")
    if not r.ok:
        raise vlib.Inconclusive("generator failed: %s\n%s" % (r.error, (r.trace_text or r.out)[-1500:]))
    docs = dedup(r.printed)
    if not docs:
        raise vlib.Inconclusive("generator printed nothing")
    ids = sorted(set(u[1] + u[2] + u[3] + u[4] + u[6]))
    res, texts = run_docs(pc, binp, docs, ids, "u%d" % k)
    pc.total += len(docs)
    pc.nontrivial += sum(1 for d in docs if d["reject"])
    nkeys = sum(1 for d in docs if d["keys"])
    if u[8] and not (any(d["keys"] and d["reject"] for d in docs) and any(d["keys"] and not d["reject"] for d in docs)):
        raise vlib.Inconclusive("vacuous: the written-key universe has no rejected key or no accepted twin")
    pc.log("universe %d: %d configurations (%d to be rejected; %d with a written key, %d of them accepted twins)" % (
        k, len(docs), sum(1 for d in docs if d["reject"]), nkeys, sum(1 for d in docs if d["keys"] and all(x["accepted"] for x in d["keys"]))))
    pick = [i for i, d in enumerate(docs) if (d["keys"] if u[8] else len(d["defects"]) >= 2) and d["pipes"]]
    if pick and k <= 1:
        i = pick[len(pick) // 2]
        pc.sample(dict(kind="loaded document", doc=texts[i], specified=dict(reject=docs[i]["reject"], defects=docs[i]["defects"]),
                       observed=dict(stage=res[i]["stage"], err=res[i]["err"])))


def part_walk(pc, binp, k, w):
    """clause (c): value trees"""
    r = pc.tlc("ConfigValidate", "ValidateWalkGen", cfg_text=walk_cfg(*w, "WalkComplete WalkPaths OnlyPromotedExtra EmitTree"), workers=1,
               timeout=1800, label="walk%d" % k, count=True, heap="8g")
    if not r.ok:
        raise vlib.Inconclusive("value-tree design check / generator failed: %s\n%s" % (r.error, (r.trace_text or r.out)[-1500:]))
    trees = dedup(r.printed)
    if not trees:
        raise vlib.Inconclusive("value-tree generator printed nothing")
    res = run_trees(pc, binp, trees, "w%d" % k)
    pc.total += len(trees)
    pc.nontrivial += sum(1 for t in trees if t["failing"])
    pick = [i for i, t in enumerate(trees) if len(t["failing"]) >= 2 and t["nodes"]]
    if pick and k == 0:
        i = pick[len(pick) // 2]
        pc.sample(dict(kind="walked value tree", tree={x: trees[i][x] for x in ("nodes", "wraps", "bad")},
                       specified=[["::".join(t for t, _ in seg_texts(e["path"], rule_id(e["rule"]))), rule_id(e["rule"])] for e in trees[i]["expected"]],
                       observed=res[i]["reports"]))


def part_overlay(pc, binp, k, ov):
    """clause (d): histories of loads in one process, defaults overlaid by exactly the written keys"""
    nl, nw, df = ov
    r = pc.tlc("ConfigValidate", "ConfigOverlayGen", cfg_text=overlay_cfg(nl, nw, df, "Faithful Redacted EmitHist"), workers=1, timeout=1800,
               label="overlay%d" % k, count=True, heap="8g")
    if not r.ok:
        raise vlib.Inconclusive("overlay design check / generator failed: %s\n%s" % (r.error, (r.trace_text or r.out)[-1500:]))
    seqs = dedup(r.printed)
    if not seqs:
        raise vlib.Inconclusive("overlay generator printed nothing")
    pc.rng.shuffle(seqs)                      # the order of the histories in the process is seeded
    res = run_histories(pc, binp, seqs, "o%d" % k)
    pc.total += len(seqs)
    pc.nontrivial += sum(1 for sq in seqs if len(sq) >= 2 and any(ld["w"] for ld in sq[:-1]))
    if k == 0:
        pick = [i for i, sq in enumerate(seqs) if len(sq) == nl and sq[0]["w"] and sq[0]["w"][0]["s"].startswith("tl.s") and not sq[-1]["w"]]
        if pick:
            i = pick[0]
            pc.sample(dict(kind="history of loads", docs=[ld["_doc"] for ld in seqs[i]],
                           specified_last={s: v for s, v in seqs[i][-1]["typed"].items() if s.startswith("tl.")},
                           observed_last=dict(stage=res[i]["loads"][-1]["stage"], sampling=(res[i]["loads"][-1].get("view") or {}).get("sampling"))))
        # the memoised-defaults design (defaults built once per process) is refuted by the model itself
        r = pc.tlc("ConfigValidate", "ConfigOverlay", cfg_text=overlay_cfg(2, 1, [], "Faithful", share=True), workers=1, timeout=600,
                   label="overlay_shared", count=False)
        if r.ok or not r.error or r.error[0] != "invariant":
            raise vlib.Inconclusive("ConfigOverlay with ShareDefaults=TRUE should violate Faithful (the model lost its bite): %s" % (r.error,))
        # ... and so is the encoder that copies map values of string KIND without the encode hook
        r = pc.tlc("ConfigValidate", "ConfigOverlay", cfg_text=overlay_cfg(1, 1, [], "Redacted", fastpath=True), workers=1, timeout=600,
                   label="overlay_fastpath", count=False)
        if r.ok or not r.error or r.error[0] != "invariant":
            raise vlib.Inconclusive("ConfigOverlay with MapFastPath=TRUE should violate Redacted (the model lost its bite): %s" % (r.error,))


def run(c):
    qk = c.quick()
    binp = graphlib.go_build(c, "cfgvalidate")
    if c.replay:
        rp = json.load(open(c.replay))["replay"]
        c.tlc_must_pass("ConfigValidate", "ConfigValidate", files=PGFILES, timeout=600, label="design",
                        cfg_text=cfg_text("Pipes2", ["r1"], ["p1"], ["e1"], ["ca1"], 3, ["x1"], 1, "WalkSound"))
        if rp.get("kind") == "builtin":
            part_builtin(Part(c, 0), binp, 0, None)
            c.sample(dict(kind="replayed built-in documents", doc=rp["doc"]["doc"]))
        elif rp.get("kind") == "builtin-overlay":
            pc = Part(c, 0)
            bs_check_docs(pc, binp, bs_settings(pc, binp), [rp["doc"]], "replay")
            c.sample(dict(kind="replayed built-in document", doc=rp["doc"].get("_doc")))
        elif rp.get("kind") == "seq":
            run_histories(c, binp, [rp["loads"]], "replay")
            c.sample(dict(kind="replayed history", docs=[ld["_doc"] for ld in rp["loads"]]))
        elif rp.get("kind") == "walk":
            run_trees(c, binp, [rp["tree"]], "replay")
            c.sample(dict(kind="replayed value tree", tree={k: rp["tree"][k] for k in ("nodes", "wraps", "bad")}))
        else:
            run_docs(c, binp, [rp["expected"]], rp["universe"], "replay")
            c.sample(dict(kind="replayed document", doc=rp["expected"]["_doc"]))
        c.traces_validated += 1
        return
    # (pipes, rcvs, procs, exps, conns, MaxSize, exts, MaxDefects, MaxKeys)
    universes = [("Pipes2", ["r1"], ["p1", "p2"], ["e1"], ["ca1"], 4, ["x1", "x2"], 2, 0),
                 ("Pipes2", ["r1"], ["p1"], ["e1"], ["ca1"], 3, ["x1"], 0, 1)] if qk else \
                [("Pipes2", ["r1"], ["p1", "p2"], ["e1"], ["ca1"], 5, ["x1", "x2"], 2, 0),
                 ("Pipes2", ["r1"], ["p1"], ["e1"], ["ca1"], 3, ["x1"], 1, 1),
                 ("Pipes2", ["r1"], ["p1", "p2"], ["e1"], ["ca1"], 6, ["x1"], 2, 0),
                 ("Pipes3", ["r1"], ["p1"], ["e1"], ["ca1", "cs1"], 4, ["x1"], 2, 0),
                 ("Pipes2", ["r1"], ["p1", "p2"], ["e1"], ["ca1"], 4, ["x1"], 3, 0),
                 ("Pipes3", ["r1", "r2"], ["p1"], ["e1"], ["ca1"], 5, ["x1", "x2"], 2, 0),
                 ("Pipes2", ["r1"], ["p1"], ["e1"], ["ca1"], 2, ["x1"], 0, 2),
                 ("Pipes2", ["r1", "r2"], ["p1"], ["e1"], ["ca1"], 4, ["x1"], 0, 1)]
    walks = [(2, 1, 1, 2), (2, 2, 1, 1)] if qk else [(2, 2, 1, 2), (3, 3, 1, 1), (2, 1, 1, 4)]
    ovs = [(2, 1, ["dangling"])] if qk else [(3, 1, []), (2, 1, ["dangling", "unknownkey"]), (1, 3, [])]
    # the parts are independent: they run side by side (own PRNG each, see Part)
    from concurrent.futures import ThreadPoolExecutor
    jobs = [(part_docs, k, u) for k, u in enumerate(universes)] + [(part_walk, k, w) for k, w in enumerate(walks)] + \
           [(part_overlay, k, ov) for k, ov in enumerate(ovs)] + [(part_builtin, 0, None)] + \
           [(part_builtin_overlay, 0, (2, None, 40, 5) if qk else (2, None, 1500, 8))]
    parts = [Part(c, n) for n in range(len(jobs))]
    with ThreadPoolExecutor(max_workers=7 if qk else 4) as ex:
        futs = [ex.submit(fn, pc, binp, k, arg) for pc, (fn, k, arg) in zip(parts, jobs)]
        errs = []
        for f in futs:
            try:
                f.result()
            except vlib.Inconclusive as e:
                errs.append(e)
    if errs and not c.violations:
        raise errs[0]
    for e in errs:          # a part that could not finish does not mask violations observed by the other parts
        c.log("part inconclusive (violations of other parts are reported): %s" % str(e)[:300])
    total = sum(pc.total for pc in parts)
    nontrivial = sum(pc.nontrivial for pc in parts)
    c.states += sum(pc.states for pc in parts)
    c.transitions += sum(pc.transitions for pc in parts)
    c.traces_validated += total
    c.evaluations = total
    c.exhaustive = True
    c.extra["level_note"] = ("partial. Covered: (a) the reference/shape clauses (undefined component referenced by a pipeline or by "
                             "service::extensions, processor listed twice, pipeline without receivers or exporters, id shared by a connector "
                             "and a receiver/exporter, empty configuration); (b) a key no field accepts, at every place of a document (top "
                             "level, service, service::telemetry, ::logs, ::metrics, service::pipelines::<id>, inside a component of each "
                             "class at depth 1-3) is rejected naming key and place, while the same key where a field accepts it is decoded "
                             "faithfully together with sibling settings and defaults (test component config + a few telemetry fields); "
                             "(c) every nested validation rule is evaluated and reported at its path by the xconfmap.Validate walk, over "
                             "generated value trees covering every kind of nesting; (d) over histories of loads in one process every load's "
                             "typed configuration = factory defaults overlaid by exactly its own written keys (value / pointer / map / "
                             "slice settings, siblings keep defaults), its effective configuration (conf.Marshal) shows the same with every "
                             "written secret-typed value (configopaque.String as field, pointer, slice element, map value, inside a struct "
                             "in a map / slice, in a squashed struct) replaced by the redaction marker, and no written secret text occurs "
                             "anywhere in the marshalled effective configuration -- also for real otlphttp exporter / otlp receiver "
                             "documents (headers, response_headers, TLS pem); (e) the same clause over the REAL built-in components "
                             "(BuiltinSettings.tla): for every single write, every pair of writes within a component and seeded larger "
                             "subsets of ~200 setting paths of the otlp receiver, batch / memory_limiter processors, otlp / otlphttp / debug "
                             "exporters and zpages / memory_limiter extensions, the marshalled typed configuration equals the factory "
                             "defaults overlaid by exactly the written keys at every path (counts in coverage.builtin_overlay; documents "
                             "whose value combination the loader rejects give no verdict). NOT covered: built-in settings that reference "
                             "other components (auth, middlewares), the deprecated otlp exporter `batcher` section, zero values of "
                             "omitempty settings, the rendering of unwritten empty secrets (undocumented), what an extension actually "
                             "receives via NotifyConfig, the Validate() rules of built-in components themselves")
    c.assumptions += ["'names the offending entry' is checked as: one line of the joined error contains the pipeline id and the quoted "
                      "component id (resp. the extension / connector id) of at least one offending entry the specification lists; for an "
                      "unknown key: the decoder's error lists the key after 'invalid keys:' and contains the place's path elements",
                      "components are test factories (one type per id) whose config has real fields: endpoint, limit, nested{flag,name}, "
                      "table{row{weight}}",
                      "built-in components: the factory defaults are what CreateDefaultConfig of the real factory marshals to at run time; "
                      "the values of the settings table (BuiltinSettings.tla) are valid values per the components' documentation; a time.Duration "
                      "written as text is compared by value with the nanoseconds the encoder renders; a section that is not there is rendered null",
                      "path segments of the validation walk that are conventions of the code (lower-cased field name for untagged and "
                      "squashed fields, '-' for fields tagged '-') are compared as model drift, not as violations"]
    c.finish_args = dict(rule="every configuration of the C09 builder with at most MaxSize references followed by at most MaxDefects defect "
                              "injections and at most MaxKeys written keys (place x key alphabet), and every value tree with at most MaxNodes "
                              "optional nodes / MaxBad failing rules, enumerated by TLC; non-trivial = must be rejected / has a failing rule",
                         distinct_nontrivial=nontrivial)
