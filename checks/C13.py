"""C13 (partial: reference / shape clauses) -- configuration loading is strict: mistakes are rejected, not ignored.
Spec: specs/ConfigValidate (on top of specs/PipelineGraph: same configuration builder + defect-injecting
actions).  Binding: harness/cfgvalidate (real confmap resolver + otelcol.ConfigProvider.Get + xconfmap.Validate,
the path otelcol/collector.go takes before it builds a service).
  1. TLC exhaustive design check: for every configuration x injected defects in the bounds, everything the
     validation walk can report (otelcol.Config.Validate first-error sequence + nested pipeline validation,
     any map order) is non-empty iff the configuration has an offending entry, and names only offending entries.
  2. TLC prints every configuration of the same space with the statement-level verdict (reject, set of offending
     entries); each is rendered as a document and loaded through the real code.  Compared: error <=> reject, and
     the error text names (ids of) at least one of the offending entries the specification lists.
Not covered here (DESIGN 4 C13): per-field faithfulness, unknown keys, redaction, nested Validate of built-in components.
"""
import json, os
import vlib, graphlib

PG = os.path.join(vlib.VERIF, "specs", "PipelineGraph")
PGFILES = {"PipelineGraph.tla": os.path.join(PG, "PipelineGraph.tla"),
           "PipelineGraphMC.tla": os.path.join(PG, "PipelineGraphMC.tla")}


def q(xs):
    return "{" + ", ".join('"%s"' % x for x in xs) + "}"


def cfg_text(pipes, rcvs, procs, exps, conns, maxsize, exts, maxdef, invs):
    return """SPECIFICATION VSpec
CONSTANTS
  PipeSeq <- %s
  Rcvs = %s
  Procs = %s
  Exps = %s
  Conns = %s
  Support <- SupportDef
  MaxSize = %d
  ExtIds = %s
  MaxDefects = %d
INVARIANTS %s
CHECK_DEADLOCK FALSE
""" % (pipes, q(rcvs), q(procs), q(exps), q(conns), maxsize, q(exts), maxdef, invs)


def render(c, d):
    """TLC-printed configuration -> document text (JSON is YAML).  Free choices (list order, empty list vs.
    missing key, null vs. {} component body) are made with the seed: they do not change the meaning."""
    if d["blank"]:
        return c.rng.choice(["{}", ""])
    doc = {}
    for sec in ("receivers", "processors", "exporters", "connectors", "extensions"):
        ids = list(d[sec])
        c.rng.shuffle(ids)
        if ids or c.rng.random() < 0.3:
            doc[sec] = {i: (None if c.rng.random() < 0.5 else {}) for i in ids}
    svc = {}
    if d["sexts"] or c.rng.random() < 0.3:
        x = list(d["sexts"])
        c.rng.shuffle(x)
        svc["extensions"] = x
    pipes = {}
    for p in d["pipes"]:
        body = {}
        r, e = list(p["r"]), list(p["e"])
        c.rng.shuffle(r)
        c.rng.shuffle(e)
        if r or c.rng.random() < 0.5:
            body["receivers"] = r
        if p["p"] or c.rng.random() < 0.5:
            body["processors"] = list(p["p"])
        if e or c.rng.random() < 0.5:
            body["exporters"] = e
        pipes["%s/%s" % (p["sig"], p["name"])] = body
    svc["pipelines"] = pipes
    doc["service"] = svc
    return json.dumps(doc)


def names(defect, line):
    cls, what, sig, name, cid = defect
    pid = "%s/%s" % (sig, name)
    if cls == "undefined":
        if what == "extension":
            return '"%s"' % cid in line and "extension" in line
        return pid in line and '"%s"' % cid in line and what in line
    if cls == "duplicate":
        return pid in line and '"%s"' % cid in line
    if cls == "shape":
        return pid in line and what[:-1] in line
    if cls == "ambiguous":
        return '"%s"' % cid in line and "connector" in line and what in line
    return True          # empty / missing sections: there is no entry to name


def compare(d, o):
    if o.get("panic"):
        return "configuration loading panicked: %s" % o["panic"]
    err = o["err"]
    if d["reject"] and not err:
        return "mistake ignored: configuration accepted although it has offending entries %s" % d["defects"][:3]
    if not d["reject"] and err:
        return "valid configuration rejected (%s): %s" % (o["stage"], err[:300])
    if err and o.get("err2") and o["err2"] != err:
        return ("the rejection names the offending entry inconsistently: the same error value renders differently the second time: "
                "first %r, then %r" % (err[:200], o["err2"][:200]))
    if d["reject"]:
        lines = err.split("\n")
        if not any(names(x, ln) for x in d["defects"] for ln in lines):
            return "rejected, but the error names none of the offending entries %s: %s" % (d["defects"][:3], err[:300])
    return None


def run_docs(c, binp, docs, universe_ids, label):
    inp = os.path.join(c.work, "docs_%s.ndjson" % label)
    out = os.path.join(c.work, "res_%s.ndjson" % label)
    types = {k: universe_ids for k in ("receivers", "processors", "exporters", "connectors", "extensions")}
    texts = [d.get("_doc") or render(c, d) for d in docs]
    vlib.write_ndjson(inp, [dict(doc=t, types=types) for t in texts])
    c.run([binp, inp, out], timeout=1800)
    res = vlib.read_ndjson(out)
    if len(res) != len(docs):
        raise vlib.Inconclusive("driver loaded %d of %d documents" % (len(res), len(docs)))
    nbad = 0
    for d, t, o in zip(docs, texts, res):
        why = compare(d, o)
        if why:
            nbad += 1
            if nbad <= 5:
                c.violation("%s; document %s" % (why, t[:400]), replay_obj=dict(expected=dict(d, _doc=t), universe=universe_ids, observed=o))
    c.log("loaded %d documents (%s): %d mismatches" % (len(docs), label, nbad))
    return res, texts


def dedup(vals):
    seen, out = set(), []
    for v in vals:
        k = json.dumps(v, sort_keys=True)
        if k not in seen:
            seen.add(k)
            out.append(v)
    return out


def run(c):
    qk = c.quick()
    binp = graphlib.go_build(c, "cfgvalidate")
    if c.replay:
        rp = json.load(open(c.replay))["replay"]
        c.tlc_must_pass("ConfigValidate", "ConfigValidate", files=PGFILES, timeout=600, label="design",
                        cfg_text=cfg_text("Pipes2", ["r1"], ["p1"], ["e1"], ["ca1"], 3, ["x1"], 1, "WalkSound"))
        run_docs(c, binp, [rp["expected"]], rp["universe"], "replay")
        c.traces_validated += 1
        c.sample(dict(kind="replayed document", doc=rp["expected"]["_doc"]))
        return
    universes = [("Pipes2", ["r1"], ["p1", "p2"], ["e1"], ["ca1"], 4, ["x1", "x2"], 2)] if qk else \
                [("Pipes2", ["r1"], ["p1", "p2"], ["e1"], ["ca1"], 5, ["x1", "x2"], 2),
                 ("Pipes2", ["r1"], ["p1", "p2"], ["e1"], ["ca1"], 6, ["x1"], 2),
                 ("Pipes3", ["r1"], ["p1"], ["e1"], ["ca1", "cs1"], 4, ["x1"], 2),
                 ("Pipes2", ["r1"], ["p1", "p2"], ["e1"], ["ca1"], 4, ["x1"], 3),
                 ("Pipes3", ["r1", "r2"], ["p1"], ["e1"], ["ca1"], 5, ["x1", "x2"], 2),
                 ("Pipes2", ["r1"], ["p1", "p2"], ["e1"], ["ca1"], 6, ["x1", "x2"], 2)]
    total = nontrivial = 0
    for k, u in enumerate(universes):
        c.tlc_must_pass("ConfigValidate", "ConfigValidate", cfg_text=cfg_text(*u, "WalkSound"), coverage=True, files=PGFILES,
                        timeout=1500, label="design%d" % k)
        r = c.tlc("ConfigValidate", "ConfigValidateGen", cfg_text=cfg_text(*u, "EmitDoc"), workers=1, files=PGFILES, timeout=1500,
                  label="gen%d" % k, count=False, heap="8g")
        if not r.ok:
            raise vlib.Inconclusive("generator failed: %s\n%s" % (r.error, r.out[-1500:]))
        docs = dedup(r.printed)
        if not docs:
            raise vlib.Inconclusive("generator printed nothing")
        ids = sorted(set(u[1] + u[2] + u[3] + u[4] + u[6]))
        res, texts = run_docs(c, binp, docs, ids, "u%d" % k)
        total += len(docs)
        nontrivial += sum(1 for d in docs if d["reject"])
        c.log("universe %d: %d configurations (%d to be rejected)" % (k, len(docs), sum(1 for d in docs if d["reject"])))
        pick = [i for i, d in enumerate(docs) if len(d["defects"]) >= 2 and d["pipes"]]
        if pick:
            i = pick[len(pick) // 2]
            c.sample(dict(kind="loaded document", doc=texts[i], specified=dict(reject=docs[i]["reject"], defects=docs[i]["defects"]),
                          observed=res[i]))
    c.traces_validated += total
    c.evaluations = total
    c.exhaustive = True
    c.extra["level_note"] = ("partial: only the reference/shape clauses of C13 (undefined component referenced by a pipeline or by "
                             "service::extensions, processor listed twice, pipeline without receivers or exporters, id shared by a "
                             "connector and a receiver/exporter, empty configuration); per-field faithfulness, unknown keys, redaction "
                             "and nested Validate() of built-in components are not covered by this technique")
    c.assumptions += ["'names the offending entry' is checked as: one line of the joined error contains the pipeline id and the quoted "
                      "component id (resp. the extension / connector id) of at least one offending entry the specification lists",
                      "components are test factories with empty configs, one type per id (an ambiguous id needs a receiver/exporter "
                      "factory of the connector's type)"]
    c.finish_args = dict(rule="every configuration of the C09 builder with at most MaxSize references followed by at most MaxDefects "
                              "defect injections, enumerated by TLC; non-trivial = must be rejected",
                         distinct_nontrivial=nontrivial)
