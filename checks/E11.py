"""E11 -- OTLP receiver lifecycle: one shared instance per configuration, its servers, requests around Start / Shutdown.
                                                                                                    (EXTRA specification)
Record in the form of properties.jsonl (no listed property is concerned; derived from component/component.go (lifecycle
contract), receiver/doc.go (acknowledgment order), docs/component-status.md, receiver/otlpreceiver/README.md and the doc
comments of receiver/otlpreceiver/factory.go + otlp.go and internal/sharedcomponent):

  title       OTLP receiver: one shared instance per configuration, its servers, and requests around Start / Shutdown
  statement   The receivers the otlpreceiver factory creates for one configuration (CreateTraces / Metrics / Logs / Profiles)
              are ONE component: it is started once however many of them are started (a later Start does not bind again and
              returns nil) and stopped once.  Start binds exactly the protocols present in the configuration (grpc and / or
              http); when a configured endpoint cannot be bound Start returns an error, a PermanentError (or FatalError)
              status event has reached the host's status reporter by then, and a later Shutdown is still safe.  While the
              receiver runs (first Start returned nil, Shutdown not requested) a request for a signal that has a consumer is
              handed to THAT signal's consumer exactly once and answered with success iff the consumer returned nil, with a
              failure iff it returned an error; a request for a signal without a consumer is answered with a failure and
              reaches no consumer.  At every moment: a request answered with success was handed to its signal's consumer
              exactly once and that call returned nil before the answer; no request is handed over twice; no consumer is
              called over a protocol that is not configured.  Shutdown: when any Shutdown call returns no consumer call of
              that instance is still running, none starts afterwards (requests in flight are finished or answered with a
              failure -- never success without the consumer's nil), the endpoints are released (they can be bound again: by
              anybody, and by a new instance created from the same configuration object or from an equal one), and Shutdown
              never panics: not without Start, not after a failed Start, not a second time, not through another signal's
              receiver.
  quantifier  protocol sets {grpc}, {http}, {grpc, http}; every subset of the four signals created; every order of Start /
              Shutdown calls through the signals' receivers; a configured endpoint occupied by the driver or by another
              running instance when Start is called; requests over gRPC and HTTP (protobuf / JSON) for created and not
              created signals, consumer returning nil / an error / blocking on a gate, sent before Start, while running,
              while a Shutdown is in progress and after it; Shutdown requested with requests in flight on either protocol; a
              second incarnation created from the same configuration object or an equal one, before / after the first one's
              Shutdown
  anchors     receiver/otlpreceiver/factory.go (createTraces .. createProfiles, receivers), otlp.go (Start, startGRPCServer,
              startHTTPServer, Shutdown), otlphttp.go, internal/{trace,metrics,logs,profiles}/otlp.go (Export),
              internal/sharedcomponent/sharedcomponent.go (Map.LoadOrStore, Component.Start / Shutdown, hostWrapper),
              component/component.go, receiver/doc.go, docs/component-status.md, receiver/otlpreceiver/README.md

Left OPEN because the documentation is silent (O1-O8 in specs/OtlpLifecycle/OtlpLifeObs.tla; the monitor accepts every
behaviour there, the implementation-shaped model does what the code does, a divergence is MODEL-DRIFT, not a finding): kind of
failure answer (404 / Unimplemented / refused); whether requests arriving during a Shutdown are served; endpoints and service
after a FAILED Start before Shutdown; second receiver's Start after a failed shared Start; Shutdown with a deadline; exact
status events; Shutdown's error value; creation after Start; empty requests; README's profiles_url_path / /v1/profiles.

Technique (BUILDER-GUIDE): specs/OtlpLifecycle
  1. TLC exhaustive design check (OtlpLifecycleMC): every interleaving of driver, servers, shutdown runner and waiting Shutdown
     callers inside the bounds keeps the history of observable events inside the statement (clauses of OtlpLifeObs.tla); two
     WRONG designs (Variant nowait / noshare) must be refuted.
  2. TLC generates histories (OtlpLifecycleGen: exhaustive for small bounds + random simulation for big ones); they are realised
     step by step against REAL receivers over loopback by harness/otlplife, which records what happened.
  3. Every observation is judged by TLC: OtlpLifecycleMonitor (the statement's clauses -> findings) and OtlpLifecycleTrace (is
     it a behaviour of the implementation-shaped model? -> model drift otherwise).
"""
import json, os
import vlib

SPEC = "OtlpLifecycle"
STALL_MS, SETTLE_MS = 10000, 25
DRIVER = {"create", "hold", "unhold", "startcall", "probe", "send", "consret", "sdcall"}
SIG4 = '{"traces", "metrics", "logs", "profiles"}'


def sset(xs):
    return "{%s}" % ", ".join('"%s"' % x if isinstance(x, str) else str(x) for x in xs)


def mc_cfg(sigs, reqs, variant, configs, kinds, maxlen, probe, hold, sd, gset, restrict):
    return """SPECIFICATION Spec
CONSTANTS
  Sigs = %s
  Reqs = %s
  Variant = "%s"
  Configs = %s
  Kinds = %s
  MaxLen = %d
  MaxProbe = %d
  MaxHold = %d
  MaxSd = %d
  GSet = %s
CONSTRAINT Bound
VIEW View
ACTION_CONSTRAINT InOrder
%s
INVARIANT TypeOK
INVARIANT Lifetime
INVARIANT StatementHolds
CHECK_DEADLOCK FALSE
""" % (sset(sigs), sset(reqs), variant, sset(configs), sset(kinds), maxlen, probe, hold, sd, sset(gset),
       "\n".join("ACTION_CONSTRAINT " + r for r in restrict))


def gen_cfg(sigs, reqs, configs, kinds, env, probe, hold, sd):
    return """SPECIFICATION GSpec
CONSTANTS
  Sigs = %s
  Reqs = %s
  Variant = "real"
  Configs = %s
  Kinds = %s
  MaxEnv = %d
  MaxProbe = %d
  MaxHold = %d
  MaxSd = %d
INVARIANT Emit
CHECK_DEADLOCK FALSE
""" % (sset(sigs), sset(reqs), sset(configs), sset(kinds), env, probe, hold, sd)


def to_steps(h):
    """history -> driver steps: every event, the consumer's plan added to the sends (held = the driver does something between
    the consumer being entered and its return)"""
    steps = []
    for k, ev in enumerate(h):
        st = {f: ev[f] for f in ("e", "g", "sig", "p", "r", "tr", "ok") if f in ev}
        if ev["e"] == "send":
            out = "ok"
            cons = next((i for i in range(k + 1, len(h)) if h[i]["e"] == "consume" and h[i]["r"] == ev["r"]), None)
            if cons is not None:
                ret = next((i for i in range(cons + 1, len(h)) if h[i]["e"] == "consret" and h[i]["r"] == ev["r"]), None)
                if ret is None or any(h[i]["e"] in DRIVER for i in range(cons + 1, ret)):
                    out = "held"
                else:
                    out = "ok" if h[ret]["ok"] else "err"
            st["out"] = out
        steps.append(st)
    return steps


def make_scripts(c, behs, start_id):
    scripts, seen = [], set()
    for b in behs:
        steps = to_steps(b["h"])
        key = json.dumps([b["cfg"], b["kind2"], steps], sort_keys=True)
        if key in seen:
            continue
        seen.add(key)
        scripts.append(dict(id=start_id + len(scripts), cfg=b["cfg"], kind2=b["kind2"], stall_ms=STALL_MS, settle_ms=SETTLE_MS,
                            steps=steps))
    return scripts


def fmt(s):
    def one(o):
        e = o["e"]
        if e in ("create", "startcall", "sdcall"):
            return "%s(%d,%s)" % (e, o["g"], o["sig"])
        if e in ("hold", "unhold", "probe"):
            return "%s(%s)" % (e, o["p"])
        if e == "send":
            return "send(%d,%s,%s,%s)" % (o["r"], o["tr"], o["sig"], o["out"])
        if e == "consret":
            return "consret(%d,%s)" % (o["r"], "ok" if o["ok"] else "err")
        return None
    protos = "+".join(p for p in ("grpc", "http") if s["cfg"][p])
    return "%s second=%s: %s" % (protos, s["kind2"], " ".join(x for x in map(one, s["steps"]) if x))


def slim(ev):
    return {k: v for k, v in ev.items() if k not in ("t", "inst", "enc")}


def judge(c, binp, scripts, label, workers):
    """run the scripts on the real code, have TLC judge the observations; returns (observations by id, verdicts, rejected ids)"""
    sf = os.path.join(c.work, "scripts_%s.ndjson" % label)
    of = os.path.join(c.work, "observed_%s.ndjson" % label)
    vlib.write_ndjson(sf, scripts)
    c.run([binp, "run", sf, of, str(workers)], timeout=1500)
    obs = {o["id"]: o for o in vlib.read_ndjson(of)}
    if len(obs) != len(scripts):
        raise vlib.Inconclusive("driver returned %d observations for %d scripts" % (len(obs), len(scripts)))
    from concurrent.futures import ThreadPoolExecutor
    with ThreadPoolExecutor(2) as ex:
        fm = ex.submit(c.tlc, SPEC, "OtlpLifecycleMonitor", workers=1, files={"observed.ndjson": of}, timeout=1200, count=False,
                       label="monitor_" + label, heap="6g")
        ft = ex.submit(c.tlc, SPEC, "OtlpLifecycleTrace", workers=4, files={"observed.ndjson": of}, timeout=1500, count=False,
                       label="trace_" + label, heap="8g")
        r, t = fm.result(), ft.result()
    if not r.ok:
        raise vlib.Inconclusive("monitor failed: %s %s" % (r.error, r.out[-2000:]))
    if not t.ok:
        raise vlib.Inconclusive("trace validation failed: %s %s" % (t.error, t.out[-2000:]))
    accepted = {p["acc"] for p in t.printed if "acc" in p}
    rejected = [i for i in obs if i not in accepted]
    return obs, r.printed, rejected


def locate(c, o):
    """first event of a rejected observation that the model cannot explain"""
    f = os.path.join(c.work, "one_%d.ndjson" % o["id"])
    vlib.write_ndjson(f, [o])
    r = c.tlc(SPEC, "OtlpLifecycleTrace", cfg="OtlpLifecycleTraceHW.cfg", workers=1, dfs=True,
              files={"observed.ndjson": f}, timeout=300, count=False, label="locate")
    hw = [p["hw"] for p in r.printed if "hw" in p]
    return hw[-1] if hw else None


KNOWN = {}


def run(c):
    q = c.quick()
    if c.replay:
        os.environ["VERIF_NO_EVIDENCE"] = "1"      # a replay runs one script: it is not the tier's evidence
    from concurrent.futures import ThreadPoolExecutor
    import threading
    ex = ThreadPoolExecutor(8)
    S2, S1 = ["traces", "metrics"], ["traces"]
    # ------------------------------------------------------------------ 1. design
    dfuts, nfuts = [], []
    if not c.replay:
        designs = DESIGNS_QUICK if q else DESIGNS_THOROUGH
        sem = threading.Semaphore(2)

        def design(name, cfg, cov):
            with sem:
                return c.tlc_must_pass(SPEC, "OtlpLifecycleMC", cfg_text=cfg, timeout=c.pick(200, 1500), label="design_" + name,
                                       heap="6g", workers=c.pick(3, 5), coverage=cov, vacuous_ok=VACUOUS.get(name, ()))
        dfuts = [(name, ex.submit(design, name, cfg, cov)) for name, cfg, cov in designs]
        # the WRONG designs must be refuted by the clause they break
        for name, cfg, clause in NEGATIVE:
            nfuts.append((name, clause, ex.submit(c.tlc, SPEC, "OtlpLifecycleMC", cfg_text=cfg, workers=2, timeout=300, count=False,
                                                  label="negative_" + name)))

    # ------------------------------------------------------------------ 2. scripts
    if c.replay:
        rp = json.load(open(c.replay))["replay"]
        scripts = [dict(rp["script"], id=1)]
    else:
        plans = GEN_QUICK if q else GEN_THOROUGH
        gsem = threading.Semaphore(3)

        def gen(label, cfg, sim, depth):
            with gsem:
                kw = dict(simulate="num=%d" % sim, depth=depth, seed=c.seed) if sim else {}
                return c.tlc(SPEC, "OtlpLifecycleGen", cfg_text=cfg, workers=1, timeout=900, count=False, label="gen_" + label,
                             heap="6g", **kw)
        gfuts = [(label, ex.submit(gen, label, cfg, sim, depth)) for label, cfg, sim, depth in plans]
    binp = c.go_build("otlplife", pkg="./cmd")
    if not c.replay:
        behs = []
        for label, f in gfuts:
            r = f.result()
            if r.timed_out or r.error or not r.printed:
                raise vlib.Inconclusive("generator %s failed: %s %s" % (label, r.error, r.out[-1500:]))
            c.log("generator %s: %d histories" % (label, len(r.printed)))
            behs += r.printed
        scripts = make_scripts(c, behs, 1)
        c.log("%d distinct scripts" % len(scripts))
    for name, f in dfuts:
        r = f.result()
        c.log("design %s: %d states, %d distinct, depth %d, %.1fs" % (name, r.generated, r.distinct, r.depth, r.wall))
    for name, clause, f in nfuts:
        r = f.result()
        if r.error != ("invariant", "StatementHolds"):
            raise vlib.Inconclusive("the wrong design %s was expected to violate StatementHolds: %s %s" % (name, r.error, r.out[-800:]))
        c.extra.setdefault("negative_designs", {})[name] = "refuted (StatementHolds, clause %s) after %d states" % (clause, r.distinct)
    ex.shutdown()

    # ------------------------------------------------------------------ 3. run + judge
    nontrivial = 0
    byid = {s["id"]: s for s in scripts}
    obs, verdicts, rejected = judge(c, binp, scripts, "main", c.pick(6, 8))
    flagged = {}
    for v in verdicts:
        flagged.setdefault(v["id"], []).append(v)
    # every verdict is re-confirmed by running the script once more, alone (endpoints are real: another process may have
    # taken one; waits are real time)
    if flagged and not c.replay:
        ids = sorted(flagged)[:40]
        obs2, verdicts2, _ = judge(c, binp, [byid[i] for i in ids], "confirm", 1)
        again = {}
        for v in verdicts2:
            again.setdefault(v["id"], set()).update(v["clauses"])
        for i in sorted(flagged):
            if i in ids:
                kept = [v for v in flagged[i] if set(v["clauses"]) & again.get(i, set())]
                if not kept:
                    c.log("script %d: verdict %s not reproduced when run alone, dropped" % (i, sorted(set(sum((v["clauses"] for v in flagged[i]), [])))))
                    del flagged[i]
                else:
                    flagged[i] = kept
    reported = 0
    for i in sorted(flagged):
        o, s = obs[i], byid[i]
        for v in flagged[i][:2]:
            at, clauses = v["at"], sorted(v["clauses"])
            sig = next((k for k, f in KNOWN.items() if f(o, at, clauses)), None)
            if reported >= 6 and c.match_finding(sig) is None:
                continue
            what = "clause %s of the statement does not hold at event %d %s of what the real receiver did; script: %s; events: %s" % (
                "+".join(clauses), at, json.dumps(slim(o["ev"][at - 1])), fmt(s), json.dumps([slim(e) for e in o["ev"][:at]]))
            if c.violation(what[:3500], replay_obj=dict(kind="script", script={k: s[k] for k in s if k != "id"}, clauses=clauses,
                                                        at=at, events=o["ev"]), signature=sig):
                reported += 1
    drift = [i for i in rejected if i not in flagged]
    for i in drift[:3]:
        at = locate(c, obs[i])
        evs = obs[i]["ev"]
        c.model_drift("observation of script [%s] is not a behaviour of OtlpLifecycle.tla (statement intact): first unexplained event %s: %s"
                      % (fmt(byid[i]), at, json.dumps([slim(e) for e in evs[:at or len(evs)]])[-1500:]))
    if len(drift) > 3:
        c.model_drift("... and %d more observations" % (len(drift) - 3))
    unfollowed = sum(1 for o in obs.values() if any(e["e"] in ("unfollowed", "stall") for e in o["ev"]))
    nontrivial = sum(1 for o in obs.values() if any(e["e"] == "consume" for e in o["ev"]))
    c.traces_validated += len(scripts)
    c.evaluations += sum(len(o["ev"]) for o in obs.values())
    c.extra["scripts"] = len(scripts)
    c.extra["requests_sent"] = sum(1 for o in obs.values() for e in o["ev"] if e["e"] == "send")
    c.extra["shutdowns_with_request_in_flight"] = sum(1 for o in obs.values() if inflight_at_shutdown(o["ev"]))
    c.extra["failed_starts"] = sum(1 for o in obs.values() for e in o["ev"] if e["e"] == "startret" and e["err"])
    c.extra["second_incarnations_started"] = sum(1 for o in obs.values() if any(e["e"] == "startret" and e["g"] == 2 and not e["err"] for e in o["ev"]))
    c.extra["observations_rejected_by_model"] = len(rejected)
    c.extra["observations_flagged_by_monitor"] = len(flagged)
    c.extra["scripts_not_followed_to_the_end"] = unfollowed
    c.log("%d scripts run: monitor flagged %d, model rejected %d, %d not followed to the end" % (len(scripts), len(flagged), len(rejected), unfollowed))
    if not c.replay and unfollowed > len(scripts) // 10 and not c.violations:
        raise vlib.Inconclusive("%d of %d scripts could not be followed to their end" % (unfollowed, len(scripts)))
    mid = scripts[len(scripts) // 2]
    c.sample(dict(kind="script", script=fmt(mid)))
    c.sample(dict(kind="observation", events=[slim(e) for e in obs[mid["id"]]["ev"]][:40]))

    c.exhaustive = False
    c.assumptions += ["the recorder's mutex orders the recorded events consistently with real time",
                      "endpoints are loopback ports below the kernel's ephemeral range, tested free before a script uses them; "
                      "a verdict is only reported if the script, run once more alone, offends the same clause again",
                      "a step of the code a script waits for that does not come within 10 s counts as not happening",
                      "Shutdown is called with context.Background() (as the service does); a deadline is an open point (O4)"]
    c.finish_args = dict(rule="scripts = histories of OtlpLifecycleGen (exhaustive for small bounds, TLC -simulate for 4 signals / 4 "
                              "requests / 2 incarnations), de-duplicated; non-trivial = at least one consumer call observed",
                         distinct_nontrivial=nontrivial)


def inflight_at_shutdown(evs):
    open_, hit = set(), False
    for e in evs:
        if e["e"] == "consume":
            open_.add(e["r"])
        elif e["e"] == "consret":
            open_.discard(e["r"])
        elif e["e"] == "sdcall" and open_:
            hit = True
    return hit


S2, S1 = ["traces", "metrics"], ["traces"]
# (name, configuration, coverage)
COVER = ("cover", mc_cfg(S2, [1], "real", ["gh"], ["same"], 10, 1, 1, 1, [1], ["LifeOrder"]), True)      # every action taken
DESIGNS_QUICK = [
    COVER,
    ("life", mc_cfg(S2, [], "real", ["gh", "g"], ["same", "fresh"], 11, 1, 1, 2, [1, 2], ["LifeOrder"]), False),
    ("serve", mc_cfg(S2, [1, 2], "real", ["gh"], ["same"], 13, 0, 0, 2, [1], ["ServeOrder"]), False),
]
DESIGNS_THOROUGH = [
    COVER,
    ("life", mc_cfg(S2, [], "real", ["gh", "g", "h"], ["same", "fresh"], 12, 2, 1, 3, [1, 2], ["LifeOrder"]), False),
    ("serve", mc_cfg(S2, [1, 2], "real", ["gh", "g", "h"], ["same"], 15, 0, 0, 2, [1], ["ServeOrder"]), False),
    ("restart", mc_cfg(S1, [1, 2], "real", ["gh"], ["same", "fresh"], 15, 1, 0, 2, [1, 2], ["ServeOrder"]), False),
]
VACUOUS = {}
NEGATIVE = [
    ("nowait", mc_cfg(S1, [1], "nowait", ["g"], ["same"], 9, 0, 0, 1, [1], ["ServeOrder"]), "Quiescent"),
    ("noshare", mc_cfg(S2, [], "noshare", ["g"], ["same"], 9, 0, 0, 1, [1], []), "StartOutcome"),
]
# (label, generator configuration, number of random behaviours or None = exhaustive, depth)
GEN_QUICK = [
    ("tiny", gen_cfg(S2, [1], ["gh"], ["same"], 6, 1, 0, 1), None, None),
    ("one", gen_cfg(S1, [1, 2], ["gh", "g"], ["same"], 8, 0, 0, 2), None, None),       # one signal: more steps left for requests
    ("sim", gen_cfg(["traces", "metrics", "logs", "profiles"], [1, 2, 3, 4], ["gh", "g", "h"], ["same", "fresh"], 16, 3, 1, 4), 1200, 90),
]
GEN_THOROUGH = [
    ("tiny", gen_cfg(S2, [1], ["gh", "g", "h"], ["same"], 6, 1, 0, 2), None, None),
    ("one", gen_cfg(S1, [1, 2], ["gh", "g", "h"], ["same", "fresh"], 8, 0, 0, 2), None, None),
    ("sim", gen_cfg(["traces", "metrics", "logs", "profiles"], [1, 2, 3, 4], ["gh", "g", "h"], ["same", "fresh"], 18, 3, 2, 5), 8000, 110),
    ("sim2", gen_cfg(S2, [1, 2, 3], ["gh", "g", "h"], ["same", "fresh"], 14, 2, 1, 4), 4000, 90),
]
