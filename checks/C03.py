"""C03 -- graceful exporter shutdown drains accepted data and stops all work.
Spec: specs/ExporterHelper (ExporterHelper.tla composed model, XHGen generator, XHMonitor monitor).
Binding: harness/exporter/xs (real exporterhelper.New{Logs,Traces,Metrics} through the public API)."""
import json
import vlib, xslib
from xslib import R2, R3

CLAUSES = {"DrainedMemory", "DrainedPersistent", "AllExportsReturned", "NoGoroutineLeft", "NoExportAfterReturn",
           "ExactlyOnceIfNoFailure", "ShutdownReturns",
           # "still durably stored for the next start": measured by the next start itself -- the driver brings a second incarnation
           # up over the same storage and it must export what was left (seeded change C03-6 left the body in storage but unreachable)
           "StoredIsRedelivered"}


def run(c):
    q = c.quick()
    designs = [(R2, "memory", 2, 1, False, 0, 0, True), (R3, "memory", 2, 1, True, 3, 2, False), (R2, "persistent", 2, 2, False, 0, 0, True)] if q else \
              [(R3, "memory", 2, 2, False, 0, 0, True), (R3, "memory", 2, 1, True, 3, 2, True), (R3, "memory", 3, 1, True, 2, 0, True, 3),
               (R3, "persistent", 2, 2, False, 0, 0, True), (R3, "persistent", 3, 1, True, 3, 2, True)]
    xslib.design(c, designs, xslib.ALL_INVS)
    binp = c.go_build("exporter", pkg="./xs")
    if c.replay:
        scripts = [dict(json.load(open(c.replay))["replay"], id="replay")]
    else:
        plans = [((R3, "memory", 3, 1, False, 0, 0, True), {}), ((R3, "memory", 3, 2, False, 0, 0, False), {}),
                 ((R3, "memory", 3, 1, True, 3, 2, True), {}), ((R3, "memory", 3, 1, True, 4, 0, False), {}),
                 ((R3, "persistent", 3, 1, False, 0, 0, True), {}), ((R3, "persistent", 3, 2, False, 0, 0, False), {}), ((R3, "persistent", 3, 1, True, 3, 2, True), {}), ((R3, "persistent", 3, 1, True, 2, 1, True), {}),
                 ((R3, "memory", 1, 1, False, 0, 0, True), {}), ((R3, "memory", 3, 1, True, 2, 1, True), {})]
        scripts = xslib.generate(c, plans, num=c.pick(60, 500))
        scripts = xslib.variants(scripts, c.rng)
        # directed family (persistent queue, two consumers, retry with a long back-off): request a is exported successfully while
        # b fails retryably and sits in its back-off when shutdown is requested; ONE storage call of the run is slow, for every
        # call number in turn -- among them the completion write of a, during which b is dequeued.  b must be stored for the
        # next start (StoredIsRedelivered), however the writes are scheduled.
        base = dict(signal="logs", queue="persistent", cap=3, consumers=2, block=False, wfr=False,
                    batch=dict(on=False, min=0, max=0, sizer="items"), retry=True, retry_fast=False)
        S = lambda r, n: dict(op="send", req=r, items=n)
        W = dict(op="wait_idle")
        for steps in ([S("r1", 1), W, S("r2", 1), W, W, W, dict(op="shutdown")], [S("r1", 1), W, W, S("r2", 2), W, W, W, W, dict(op="shutdown")],
                      [S("r1", 2), W, S("r2", 1), W, S("r3", 1), W, W, W, dict(op="shutdown")], [S("r1", 1), S("r2", 1), W, W, dict(op="shutdown")]):
            for outs in (["ok", "transient"], ["ok", "transient", "transient"], ["ok", "ok", "transient"]):
                for k in range(3, 10):
                    scripts.append(dict(cfg=dict(base, slow_call=k), steps=steps, outcomes=outs, id="d%d" % len(scripts)))
    c.log("%d scripts" % len(scripts))
    lines = xslib.execute_or_crash(c, binp, scripts, "main")
    if lines is None:
        c.finish_args = dict(rule="crashed", distinct_nontrivial=len(scripts))
        c.sample(dict(script=xslib.fmt(scripts[0])))
        return
    verdicts = [v for v in xslib.monitor(c, lines, "main") if v["clause"] in CLAUSES]
    byid = {s["id"]: s for s in scripts}
    c.traces_validated += len(scripts)
    reported = 0
    c.extra["verdict_lines"] = len(verdicts)
    tried = 0
    for v in verdicts:
        if reported >= 10 or tried >= 30:
            break       # enough evidence; every reported verdict has been re-confirmed alone
        tried += 1
        s = byid[v["script"]]
        # re-confirm once, alone (timing-sensitive observations: goroutine census, late pushes)
        # (a verdict that depends on a race -- which write overtakes which -- may need more than one run alone: up to 3)
        again = dict(s, id="confirm")
        confirmed = False
        for _ in range(3):
            l2 = xslib.execute(c, binp, [again], "confirm")
            if [w for w in xslib.monitor(c, l2, "confirm") if w["clause"] == v["clause"]]:
                confirmed = True
                break
        if not confirmed:
            c.extra["unconfirmed"] = c.extra.get("unconfirmed", 0) + 1
            c.extra.setdefault("unconfirmed_clauses", []).append(v["clause"])
            continue
        if reported < 10:
            c.violation("%s violated: %s; script: %s" % (v["clause"], v["detail"], xslib.fmt(s)),
                        replay_obj={k: s[k] for k in ("cfg", "steps", "outcomes")})
            reported += 1
    # verdicts that do not reproduce when the script is re-run alone are timing artefacts of the loaded batch run (goroutine
    # census / late-export window): recorded in the evidence (unconfirmed, unconfirmed_clauses), not reported
    # composition (specs/Pipeline): the drain clause seen end to end through a real service
    # (test receiver -> real batch processor -> exporter helper -> scripted backend)
    if not c.replay:
        import pipelib
        pscripts, pverd, pbyid, pbin = pipelib.run_pipeline(c, c.pick(60, 600))
        c.traces_validated += len(pscripts)
        c.extra["pipeline_scripts"] = len(pscripts)
        rep = 0
        for v in pverd:
            if rep >= 5:
                break
            ps = pbyid[v["script"]]
            c.violation("pipeline composition: %s violated: %s; cfg=%s steps=%s outcomes=%s" % (
                v["clause"], v["detail"], ps["cfg"], [(x["op"], x["item"]) for x in ps["steps"]], ps["outcomes"]),
                replay_obj=dict(kind="pipeline", script=ps))
            rep += 1
        c.log("pipeline composition: %d scripts, %d verdict lines" % (len(pscripts), len(pverd)))
    ex = scripts[len(scripts) // 2]
    c.sample(dict(script=xslib.fmt(ex), events=[json.loads(l) for l in lines if True][:0]))
    c.sample(dict(kind="recorded events of one script", events=[json.loads(l) for l in lines[:16]]))
    c.evaluations = len(scripts)
    c.assumptions += ["`before` = requests whose enqueue call had returned when the driver requested shutdown (recorded order in the driver goroutine)",
                      "goroutine census: stack snapshot filtered to exporterhelper frames, up to 1 s settle, one script per process at a time",
                      "late export watch window 150 ms after Shutdown returned"]
    c.finish_args = dict(rule="scripts = behaviours of ExporterHelper.tla sampled by TLC (-simulate, seeded) and projected to sends / pauses / "
                              "shutdown moment / outcome per export call, plus driver-level variants (signal, wait_for_result, fast retry, "
                              "partial failure, no queue); distinct by (cfg, steps, outcomes)", distinct_nontrivial=len(scripts))
