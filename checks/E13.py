"""E13 -- ComponentTelemetryIdentity (EXTRA specification, no listed property).
Spec: specs/ComponentTelemetry (CompTelObs = statement, LoggerAlgebra = model of internal/telemetry + componentattribute + zap
With/Named as values, CompTelAlgMC = its design check + script generator, CompTelMC = service level over the configuration
universes of specs/PipelineGraph + extensions, CompTelMonitor = the clauses evaluated on real observations).
Binding: harness/comptel (real graph.Build + extensions.New + Extensions.Start with instrumented factories; real
service/telemetry logger factory, real componentattribute cores, otel SDK tracer / meter providers with in-memory readers,
logtest recorder behind the otel tee; real otlp receiver and memory_limiter processor).

The checked statement (properties.jsonl form), the clause names A1-A8 and the open points O1-O6 are in the header of
specs/ComponentTelemetry/CompTelObs.tla.  Short form:
  A1 the TelemetrySettings given to a factory inject exactly the documented set of that instance (receiver {kind,id,signal},
     processor + pipeline.id, exporter {kind,id,signal}, connector {kind,id,signal,signal.output}, extension {kind,id});
  A2 different instances never get the same set;   A3 every log entry (any level, With / Named children, entry fields) carries
  the service core's fields + the set + the component's fields, each key once; the LoggerProvider copy has the set as scope
  attributes;   A4 spans / data points carry the set as scope attributes, own scope attributes win;   A5 what was given never
  changes;   A6 WithAttributeSet replaces, WithoutAttributes removes, the argument is unaffected;   A7 a unifying component may
  omit only otelcol.signal / otelcol.signal.output / otelcol.pipeline.id;   A8 the service's own messages about a component
  carry that component's set.

Steps
  1. TLC exhaustive: LoggerAlgebra (all derivation sequences <= MaxPool, 4 logger stacks; invariants A3Logs A4Providers A6Extra
     O1Only CapIff); the wrong designs "stacked" and "nowrap" must be refuted.  CompTelMC over PipelineGraph universes with
     unnamed pipelines, named component ids and extensions (A2Distinct, A7Unified); NegNoPipelineId and NegMemLimiterKeys (the
     key set memory_limiter really drops) must be refuted.
  2. TLC prints every derivation script with the emissions the statement demands; the driver replays them on real loggers /
     providers; every emission is compared (count per sink, each key once, field set, scope attributes).
  3. TLC prints every complete valid configuration (BFS) and seeded random larger ones (-simulate); the driver builds each with
     the real graph.Build / extensions.New, the factories probe what they were given (12 probes x create / start / late, also
     through WithoutAttributes the way otlp / memory_limiter do); TLC (CompTelMonitor) judges the recorded emissions.
     Every 5th service is built, started and shut down through the public service.New instead (logs only).
  4. The same with the REAL otlp receiver and memory_limiter processor in the graph (A7).
Open finding E13-memorylimiter-drops-component-id: see extras/known_findings.json.
"""
import json, os, collections
import vlib, graphlib

SIG_MEMLIM = ("memory_limiter processor drops otelcol.component.id from its telemetry (only otelcol.signal / "
              "otelcol.signal.output / otelcol.pipeline.id may be omitted): two memory limiters are indistinguishable")
STACKS = ["console", "sampled", "tee", "teesampled"]
KSIG, KOUT, KPIPE, KID = "otelcol.signal", "otelcol.signal.output", "otelcol.pipeline.id", "otelcol.component.id"
O1_MSG = "Logger core does not support injecting component attributes"
SPEC = "ComponentTelemetry"


def q(xs):
    return "{" + ", ".join('"%s"' % x for x in xs) + "}"


def pg_files():
    d = os.path.join(vlib.VERIF, "specs", "PipelineGraph")
    return {f: os.path.join(d, f) for f in ("PipelineGraph.tla", "PipelineGraphMC.tla")}


def alg_cfg(variant, attrs, keys, maxpool, invs, stacks="AllStacks"):
    return """SPECIFICATION ASpec
CONSTANTS
  Variant = "%s"
  Stacks <- %s
  AttrSets <- %s
  KeySets <- %s
  MaxPool = %d
INVARIANTS %s
CHECK_DEADLOCK FALSE
""" % (variant, stacks, attrs, keys, maxpool, invs)


def graph_cfg(pipes, rcvs, procs, exps, conns, exts, maxsize, invs, spec="XSpec"):
    return """SPECIFICATION %s
CONSTANTS
  PipeSeq <- %s
  Rcvs = %s
  Procs = %s
  Exps = %s
  Conns = %s
  ExtIds = %s
  Support <- SupportDef
  MaxSize = %d
INVARIANTS %s
CHECK_DEADLOCK FALSE
""" % (spec, pipes, q(rcvs), q(procs), q(exps), q(conns), q(exts), maxsize, invs)


ALG_INVS = "A3Logs A4Providers A6Extra O1Only CapIff"


# ------------------------------------------------------------------ algebra: replay of TLC-generated scripts
def to_driver_script(s):
    ops = []
    for o in s["ops"]:
        d = dict(op=o["op"], h=o["h"])
        if o["op"] == "wa":
            d["a"] = o["arg"]
        elif o["op"] == "wo":
            d["k"] = o["arg"]
        elif o["op"] == "with":
            d["f"] = o["arg"]
        ops.append(d)
    for e in s["emits"]:
        ops.append(dict(op="emit", h=e["h"], lvl=e["lvl"], f=e["f"], own=e["own"]))
    return dict(stack=s["stack"], ops=ops)


def pairs(l):
    return sorted((p[0], p[1]) for p in (l or []))


def once(l):
    ks = [p[0] for p in (l or [])]
    return len(ks) == len(set(ks))


def compare_script(s, o):
    """-> list of (clause, what).  Only observables the statement determines are compared."""
    bad = []
    if o["panic"]:
        return [("A6", "panic: " + o["panic"].splitlines()[0])]
    nd = len(s["ops"])
    for j, e in enumerate(s["emits"]):
        st = o["steps"][nd + j]
        x = e["exp"]
        where = "emit %d (handle %d, %s)" % (j, e["h"], e["lvl"])
        z = st["zap"]
        if len(z) != 1:
            bad.append(("A3", "%s: %d entries reached the service's core instead of 1" % (where, len(z))))
        elif x["ldet"]:
            if not once(z[0]["f"]):
                bad.append(("A3", "%s: a key occurs twice: %s" % (where, z[0]["f"])))
            elif pairs(z[0]["f"]) != pairs(x["zap"]):
                bad.append(("A3", "%s: fields %s, statement %s" % (where, pairs(z[0]["f"]), pairs(x["zap"]))))
        ot = st["otel"]
        if len(ot) != (1 if x["otelon"] else 0):
            bad.append(("A3", "%s: %d records copied to the LoggerProvider, statement %d" % (where, len(ot), 1 if x["otelon"] else 0)))
        elif ot and x["ldet"]:
            if pairs(ot[0]["scope"]) != pairs(x["otelscope"]):
                bad.append(("A3", "%s: copied record has scope attributes %s, statement %s" % (where, pairs(ot[0]["scope"]), pairs(x["otelscope"]))))
            elif pairs(ot[0]["f"]) != pairs(x["otelf"]) or not once(ot[0]["f"]):
                bad.append(("A3", "%s: copied record has attributes %s, statement %s" % (where, ot[0]["f"], x["otelf"])))
        for sink in ("span", "metric"):
            sp = st[sink]
            if len(sp) != 1:
                bad.append(("A4", "%s: %d %s emissions instead of 1" % (where, len(sp), sink)))
            elif pairs(sp[0]["scope"]) != pairs(x["prov"]) or not once(sp[0]["scope"]):
                bad.append(("A4", "%s: %s scope attributes %s, statement %s" % (where, sink, pairs(sp[0]["scope"]), pairs(x["prov"]))))
    return bad


def replay_scripts(c, binp, scripts, label):
    inp = os.path.join(c.work, "alg_%s.ndjson" % label)
    out = os.path.join(c.work, "algobs_%s.ndjson" % label)
    vlib.write_ndjson(inp, [to_driver_script(s) for s in scripts])
    c.run([binp, "algebra", inp, out, str(c.seed)], timeout=900)
    obs = vlib.read_ndjson(out)
    if len(obs) != len(scripts):
        raise vlib.Inconclusive("driver handled %d of %d scripts" % (len(obs), len(scripts)))
    nbad = emits = o1 = 0
    for s, o in zip(scripts, obs):
        emits += len(s["emits"])
        o1 += sum(1 for e in s["emits"] if not e["exp"]["ldet"])
        bad = compare_script(s, o)
        if bad:
            nbad += 1
            if nbad <= 5:
                c.violation("%s %s; stack %s, derivations %s" % (bad[0][0], bad[0][1], s["stack"], json.dumps(s["ops"])),
                            replay_obj=dict(kind="algebra", script=s, observed=o, problems=bad))
    c.log("replayed %d derivation scripts (%s): %d emissions compared (%d in open point O1), %d mismatching scripts"
          % (len(scripts), label, emits, o1, nbad))
    return len(scripts), emits


# ------------------------------------------------------------------ graph: TLC judges the recorded emissions
def dedup_cfgs(vals):
    seen, out = set(), []
    for v in vals:
        k = json.dumps([v["pipes"], v["exts"]], sort_keys=True)
        if k not in seen:
            seen.add(k)
            out.append(v)
    return out


def decorate(c, cfgs):
    """add what the statement leaves to the caller: the logger stack, and which test components unify (drop keys)"""
    for i, v in enumerate(cfgs):
        v["stack"] = STACKS[(i + c.seed) % 4]
        conns = {x["id"] for x in v["conns"]}
        drop = {}
        for p in v["pipes"]:
            for r in p["r"]:
                if r not in conns and c.rng.random() < 0.3:
                    drop[r] = [KSIG]
            for x in p["p"]:
                if c.rng.random() < 0.3:
                    drop[x] = c.rng.choice([[KSIG], [KPIPE], [KSIG, KPIPE]])
            for e in p["e"]:
                if e in conns:
                    if c.rng.random() < 0.3:
                        drop[e] = c.rng.choice([[KOUT], [KSIG, KOUT]])
                elif c.rng.random() < 0.15:
                    drop[e] = [KSIG]
        for x in v["exts"]:
            if c.rng.random() < 0.1:
                drop[x] = [KID]
        v["drop"] = drop
        # every 5th service through the public service.New / Start / Shutdown (logs only; the real logger factory, console / sampled)
        real = any(typ(x) in ("otlp", "memory_limiter") for p in v["pipes"] for x in p["r"] + p["p"])
        v["svc"] = (i + c.seed) % 5 == 0 and not real
        if v["svc"]:
            v["stack"] = ["console", "sampled"][((i + c.seed) // 5) % 2]
    return cfgs


def typ(i):
    return i.split("/")[0]


def is_builder_msg(m):
    return m.endswith("component.") or m.endswith("component. May change in the future.") or "component. " in m


def monitor_record(i, cfg, o):
    ids = set()
    for p in cfg["pipes"]:
        ids.update(p["r"]); ids.update(p["p"]); ids.update(p["e"])
    ids.update(cfg["exts"])
    views = []
    for v in o["views"]:
        ent, seen = [], set()
        for e in v["entries"]:
            k = json.dumps([e["sink"], e["own"], e["f"]])
            if k not in seen:
                seen.add(k)
                ent.append(dict(sink=e["sink"], own=e["own"], f=e["f"]))
        views.append(dict(tok=v["tok"], k=v["k"], id=v["id"], sig=v["sig"], sig2=v["sig2"], drop=v["drop"], may=v["may"], entries=ent))
    svc = [dict(msg=e["msg"], sink=e["sink"], f=(e["f"] if e["sink"] == "zap" else (e["scope"] or []) + e["f"]))
           for e in o["stray"] if e["sink"] in ("zap", "otel") and (is_builder_msg(e["msg"]) or e["msg"].startswith("Extension "))]
    return dict(i=i, inst=cfg["inst"], exts=cfg["exts"], types={x: typ(x) for x in ids}, views=views, svc=svc)


def judge_configs(c, binp, cfgs, label):
    inp = os.path.join(c.work, "cfg_%s.ndjson" % label)
    out = os.path.join(c.work, "obs_%s.ndjson" % label)
    vlib.write_ndjson(inp, cfgs)
    c.run([binp, "graph", inp, out, str(c.seed)], timeout=1500)
    obs = vlib.read_ndjson(out)
    if len(obs) != len(cfgs):
        raise vlib.Inconclusive("driver handled %d of %d configurations" % (len(obs), len(cfgs)))
    recs, nviews, nent, nbad = [], 0, 0, 0

    def report(what, cfg, o, sig=None):
        nonlocal nbad
        nbad += 1
        if nbad <= 5 or sig:
            pipes = {"%s/%s" % (p["sig"], p["name"]): dict(r=p["r"], p=p["p"], e=p["e"]) for p in cfg["pipes"]}
            c.violation("%s; stack %s, extensions %s, pipelines %s" % (what, cfg["stack"], cfg["exts"], json.dumps(pipes, sort_keys=True)),
                        replay_obj=dict(kind="graph", cfg=cfg), signature=sig)

    for i, (cfg, o) in enumerate(zip(cfgs, obs)):
        if o["panic"]:
            report("A1 building the service panicked: %s" % o["panic"].splitlines()[0], cfg, o)
            continue
        if o["build_err"] is not None:
            raise vlib.Inconclusive("valid configuration rejected by graph.Build (C09's subject): %s" % o["build_err"])
        if o["missing"]:
            report("A3 emissions of a component reached no sink: %s" % o["missing"][:3], cfg, o)
            continue
        recs.append(monitor_record(i, cfg, o))
        nviews += len(o["views"])
        nent += sum(len(v["entries"]) for v in o["views"])
    known = 0
    if recs:
        obsf = os.path.join(c.work, "mon_%s.ndjson" % label)
        vlib.write_ndjson(obsf, recs)
        r = c.tlc(SPEC, "CompTelMonitor", cfg="CompTelMonitor.cfg", workers=1, timeout=1500, count=False, label="monitor_" + label,
                  files={"observed.ndjson": obsf}, heap="6g")
        if not r.ok or len(r.printed) != len(recs):
            raise vlib.Inconclusive("monitor failed (%s), %d of %d verdicts\n%s" % (r.error, len(r.printed), len(recs), r.out[-1500:]))
        for ver in r.printed:
            if not ver["bad"]:
                continue
            cfg, o = cfgs[ver["i"]], obs[ver["i"]]
            vt = {v["tok"]: v for v in o["views"]}
            rest = []
            for clause, tok in ver["bad"]:
                v = vt.get(tok)
                if clause == "A7" and v and v["k"] == "processor" and v["id"] == "memory_limiter" and \
                        all(KID not in [p[0] for p in e["f"]] and "otelcol.component.kind" in [p[0] for p in e["f"]] for e in v["entries"]):
                    known += 1
                    if known == 1:
                        report("A7 a memory_limiter's entry carries only %s" % v["entries"][0]["f"], cfg, o, sig=SIG_MEMLIM)
                    continue
                rest.append((clause, tok))
            if rest:
                clause, tok = rest[0]
                v = vt.get(tok)
                detail = ""
                if v:
                    detail = " view %s %s/%s %s %s dropped %s, e.g. %s" % (tok, v["k"], v["id"], v["sig"], v["sig2"], v["drop"],
                                                                          json.dumps(v["entries"][0] if v["entries"] else None))
                report("%s violated (%s)%s" % (clause, [x for x in rest][:4], detail), cfg, o)
    c.log("judged %d built services (%s): %d views, %d emissions, %d reported%s"
          % (len(cfgs), label, nviews, nent, nbad, ", memory_limiter finding seen %d times" % known if known else ""))
    return len(cfgs), nviews, nent


def run(c):
    qk = c.quick()
    binp = graphlib.go_build(c, "comptel")
    pg = pg_files()
    if c.replay:
        rp = json.load(open(c.replay))["replay"]
        if rp["kind"] == "algebra":
            replay_scripts(c, binp, [rp["script"]], "replay")
        else:
            judge_configs(c, binp, [rp["cfg"]], "replay")
        c.tlc_must_pass(SPEC, "CompTelAlgMC", cfg_text=alg_cfg("real", "AttrSetsQ", "KeySetsQ", 2, ALG_INVS), timeout=300, label="design")
        c.traces_validated += 1
        c.sample(dict(kind="replayed", what=rp["kind"]))
        return

    # ---- 1. design checks
    c.tlc_must_pass(SPEC, "CompTelAlgMC", cfg_text=alg_cfg("real", "AttrSetsQ", "KeySetsQ", 3 if qk else 4, ALG_INVS), workers=4, timeout=1200, label="algebra")
    if not qk:
        c.tlc_must_pass(SPEC, "CompTelAlgMC", cfg_text=alg_cfg("real", "AttrSetsT", "KeySetsT", 3, ALG_INVS), workers=4, timeout=1200, label="algebra_wide")
    r = c.tlc(SPEC, "CompTelAlgMC", cfg_text=alg_cfg("real", "AttrSetsQ", "KeySetsQ", 2, ALG_INVS), workers=2, timeout=300,
              coverage=True, label="algebra_cov", count=False)
    zero = [k for k, v in r.coverage.items() if v == 0]
    if not r.ok or zero:
        raise vlib.Inconclusive("algebra coverage run: %s, never taken: %s" % (r.error, zero))
    for neg in ("stacked", "nowrap"):
        r = c.tlc(SPEC, "CompTelAlgMC", cfg_text=alg_cfg(neg, "AttrSetsQ", "KeySetsQ", 3, ALG_INVS), workers=2, timeout=300,
                  label="neg_" + neg, count=False)
        if r.ok or "A3Logs" not in str(r.error) + r.out:
            raise vlib.Inconclusive("negative variant %s was not refuted: the clauses are vacuous" % neg)
    uni = ("PipesE3", ["r1", "r1/b"], ["p1", "p2/b"], ["e1"], ["ca1"], ["x1", "x1/b"], 5 if qk else 6)
    unis = [uni] if qk else [uni, ("PipesE4", ["r1"], ["p1", "p1/b"], ["e1", "e1/b"], ["cs1", "cl1"], ["x1"], 7)]
    for k, u in enumerate(unis):
        c.tlc_must_pass(SPEC, "CompTelMC", cfg_text=graph_cfg(*u, "TypeOK A2Distinct A7Unified"), workers=4, timeout=1200,
                        label="service%d" % k, files=pg)
    for neg in ("NegNoPipelineId", "NegMemLimiterKeys"):
        r = c.tlc(SPEC, "CompTelMC", cfg_text=graph_cfg(*(uni[:6] + (6,)), neg), workers=2, timeout=300, label=neg, count=False, files=pg)
        if r.ok or neg not in str(r.error) + r.out:
            raise vlib.Inconclusive("negative design %s was not refuted" % neg)
    c.log("design: algebra + service-level invariants hold; 4 wrong designs refuted (stacked, nowrap, no pipeline id, memory_limiter key set)")

    # ---- 2. derivation scripts
    total = 0
    r = c.tlc(SPEC, "CompTelAlgMC", cfg_text=alg_cfg("real", "AttrSetsQ" if qk else "AttrSetsT", "KeySetsQ" if qk else "KeySetsT", 3, "GenEmit"),
              workers=1, timeout=1500, label="alggen", count=False, heap="8g")
    if not r.ok or not r.printed:
        raise vlib.Inconclusive("script generator failed: %s\n%s" % (r.error, r.out[-1500:]))
    scripts = r.printed
    if not qk:
        r2 = c.tlc(SPEC, "CompTelAlgMC", cfg_text=alg_cfg("real", "AttrSets2", "KeySetsQ", 4, "GenEmit", stacks="StackTS"), workers=1,
                   timeout=1500, label="alggen2", count=False, heap="8g")
        if not r2.ok:
            raise vlib.Inconclusive("script generator failed: %s\n%s" % (r2.error, r2.out[-1500:]))
        scripts += r2.printed
    ns, ne = replay_scripts(c, binp, scripts, "bfs")
    total += ns
    c.sample(dict(kind="derivation script with the emissions the statement demands", script=scripts[len(scripts) // 2]))
    c.exhaustive = True

    # ---- 3. services
    r = c.tlc(SPEC, "CompTelMC", cfg_text=graph_cfg(*uni, "GenEmit"), workers=1, timeout=1500, label="svcgen", count=False, files=pg, heap="8g")
    if not r.ok:
        raise vlib.Inconclusive("configuration generator failed: %s\n%s" % (r.error, r.out[-1500:]))
    cfgs = dedup_cfgs(r.printed)
    if qk and len(cfgs) > 700:
        cfgs = [v for k, v in enumerate(cfgs) if (k + c.seed) % (len(cfgs) // 700 + 1) == 0]
    elif len(cfgs) > 6000:
        cfgs = [v for k, v in enumerate(cfgs) if (k + c.seed) % (len(cfgs) // 6000 + 1) == 0]
    n, nv, nen = judge_configs(c, binp, decorate(c, cfgs), "bfs")
    total += n
    views, ents = nv, nen
    c.sample(dict(kind="built service judged by the monitor", cfg={k: cfgs[len(cfgs) // 2][k] for k in ("pipes", "exts", "stack", "drop")}))
    big = ("PipesE8", ["r1", "r1/b", "r2"], ["p1", "p1/b", "p2"], ["e1", "e2/b"], ["ca1", "cs1", "klt", "ktm", "cm1"], ["x1", "x1/b", "x2"])
    sims = [(c.seed, 3, 11)] if qk else [(c.seed * 100 + k, 8, 11 + k) for k in range(3)]
    for seed, num, depth in sims:
        r = c.tlc(SPEC, "CompTelMC", cfg_text=graph_cfg(*big, depth, "GenEmit", spec="XSpecValid"), workers=1, timeout=900,
                  simulate="num=%d" % num, depth=depth + 3, seed=seed, label="sim%d" % seed, count=False, files=pg, heap="8g")
        if r.error or r.timed_out:
            raise vlib.Inconclusive("simulation failed: %s\n%s" % (r.error, r.out[-1500:]))
        sc = dedup_cfgs(r.printed)
        sc.sort(key=lambda v: -sum(len(p["r"]) + len(p["p"]) + len(p["e"]) for p in v["pipes"]))
        sc = sc[:150 if qk else 1200]
        if not sc:
            raise vlib.Inconclusive("simulation printed no configuration")
        n, nv, nen = judge_configs(c, binp, decorate(c, sc), "sim%d" % seed)
        total += n
        views += nv
        ents += nen

    # ---- 4. the real unifying components
    realu = ("PipesE3", ["otlp", "otlp/b", "r1"], ["memory_limiter", "memory_limiter/b", "p1"], ["e1"], ["ca1"], ["x1"], 5 if qk else 6)
    r = c.tlc(SPEC, "CompTelMC", cfg_text=graph_cfg(*realu, "GenEmit"), workers=1, timeout=900, label="realgen", count=False, files=pg, heap="8g")
    if not r.ok:
        raise vlib.Inconclusive("configuration generator failed: %s" % r.error)
    rc = [v for v in dedup_cfgs(r.printed) if any(typ(x) in ("otlp", "memory_limiter") for p in v["pipes"] for x in p["r"] + p["p"])]
    rc = rc[c.seed % 3::3][:120 if qk else 1500]
    n, nv, nen = judge_configs(c, binp, decorate(c, rc), "real")
    total += n
    views += nv
    ents += nen
    c.traces_validated += total
    c.evaluations = ents
    c.extra["views_judged"] = views
    c.extra["emissions_judged"] = ents
    c.assumptions += ["instrumented factories probe the settings at Create, at Start (extensions) and after everything was built",
                      "field order and the logger name of Named children are not compared (O3)",
                      "derivations from settings whose Logger the component already replaced by a With child: logger part not compared (O1)"]
    c.finish_args = dict(rule="every derivation sequence of <= MaxPool operations x logger stacks, and every complete valid configuration with <= MaxSize "
                              "component references over the stated universe (sampled down to the tier's budget), enumerated by TLC; seeded TLC simulations "
                              "over 8 pipelines of 4 signals; configurations holding the real otlp receiver / memory_limiter processor",
                         distinct_nontrivial=total)
