"""C02 -- sending queue: exactly-once hand-off, FIFO, bounded size, no lost wake-ups.

Specs  : specs/SizedQueue
           SizedQueue.tla     implementation-shaped (mutex / channel / select level, both cond designs)
           SizedQueueAbs.tla  API-level specification written from the statement
           SQSeqGen.tla       generator of sequential histories with specified observations
           SQLin.tla          linearisability validation of concurrent real executions
Binding: harness/exporter/mq (real queuebatch.NewQueueBatch: obs queue + async queue + memory/persistent queue)
  1. TLC exhaustive on SizedQueue (CondImpl = "close", the design of the tree): all clauses incl. NoDeadlock /
     NoLostWakeup over every interleaving of producers, consumers, cancellations, shutdown.
  2. TLC enumerates ALL sequential histories up to N operations x sizes x capacity x {memory, persistent}; each is
     replayed into the real queue for every applicable sizer; enqueue result, request at the export function and
     the reported size/capacity gauges are compared after every step.
  3. concurrent stress on the real queue; TLC searches for a linearisation of every recorded round (SQLin);
     a round that does not finish is a hang = violation of "a blocked producer is released / returns".
     "idle" rounds: K parked consumers, bursts of <= K requests while no export call returns: every accepted request
     must reach the export function (WorkConserving; consumer-side wake-ups).
"""
import json, os
import vlib

SPEC = "SizedQueue"


def mc_cfg(prods, nc, cap, sz, cancel, block, wfr, impl="close",
           invs="ExactlyOnce RefusedNeverHanded Fifo SizeBounds SizeExact ZeroAtEnd ResultIsOwn NoDeadlock NoLostWakeup WorkConserving",
           cons_signal="always"):
    return """SPECIFICATION Spec
CONSTANTS
  Producers = {%s}
  NumConsumers = %d
  Cap = %d
  Sz <- %s
  CanCancel = {%s}
  Nobody = "nobody"
  Block = %s
  WFR = %s
  CondImpl = "%s"
  ConsSignal = "%s"
INVARIANTS %s
CHECK_DEADLOCK FALSE
""" % (",".join('"%s"' % p for p in prods), nc, cap, sz, ",".join('"%s"' % p for p in cancel),
       "TRUE" if block else "FALSE", "TRUE" if wfr else "FALSE", impl, cons_signal, invs)


def gen_cfg(cap, persistent, n, sizes):
    return """SPECIFICATION GSpec
CONSTANTS
  Cap = %d
  Persistent = %s
  N = %d
  Sizes = {%s}
INVARIANT Emit
INVARIANT GenInv
CHECK_DEADLOCK FALSE
""" % (cap, "TRUE" if persistent else "FALSE", n, ",".join(str(s) for s in sizes))


def lin_cfg(cap, persistent):
    return """SPECIFICATION LSpec
CONSTANTS
  Cap = %d
  Persistent = %s
CONSTRAINT HighWater
INVARIANT LinInv
POSTCONDITION Accepted
CHECK_DEADLOCK FALSE
""" % (cap, "TRUE" if persistent else "FALSE")


P4 = ["p1", "p2", "p3", "p4"]
P3 = P4[:3]


def run(c):
    q = c.quick()
    # ------------------------------------------------------------------ 1. design
    if q:
        designs = [(P3, 2, 2, "SzOnes", P3, True, False), (P3, 1, 2, "SzMixed", P3[:2], True, True),
                   (P3, 2, 2, "SzEdge", [], False, False), (P3, 1, 1, "SzOnes", P3, True, False)]
    else:
        designs = [(P4, 2, 2, "SzOnes", P4, True, False), (P4, 2, 2, "SzMixed", P4, True, True),
                   (P4, 2, 3, "SzMixed", P4[:2], True, False), (P4, 2, 2, "SzEdge", P4[2:], False, False),
                   (P4, 1, 1, "SzOnes", P4, True, True), (P4, 2, 2, "SzEdge", P4, True, False)]
    for i, d in enumerate(designs):
        c.tlc_must_pass(SPEC, "SQMC", cfg_text=mc_cfg(*d), timeout=1800, coverage=(i == 0),
                        vacuous_ok=("PWakeCtx", "PEarly", "PWaitRes"), heap="16g",
                        label="design_%dp_%dc_cap%d_%s_%s%s" % (len(d[0]), d[1], d[2], d[3], "block" if d[5] else "nonblock",
                                                                 "_wfr" if d[6] else ""))
    # non-vacuity of WorkConserving (consumer side of "no lost wake-ups"): with the wake-up issued only on the
    # empty -> non-empty transition TLC must find a request queued next to a parked consumer
    r = c.tlc(SPEC, "SQMC", cfg_text=mc_cfg(P3, 2, 2, "SzOnes", [], True, False, cons_signal="onempty", invs="WorkConserving"),
              timeout=900, count=False, label="signal_on_empty_only_design")
    c.extra["signal_on_empty_only_refuted_by_tlc"] = bool(r.error and r.error[0] == "invariant")
    if not (r.error and r.error[0] == "invariant"):
        raise vlib.Inconclusive("TLC no longer refutes the signal-on-empty-only design: WorkConserving may be vacuous")
    if not q:
        # non-vacuity of NoDeadlock: on the PINNED cond design (1-slot token channel) TLC must find the deadlock
        r = c.tlc(SPEC, "SQMC", cfg_text=mc_cfg(P4, 2, 2, "SzOnes", P4, True, False, impl="token", invs="NoDeadlock"),
                  timeout=900, count=False, label="pinned_cond_design")
        c.extra["pinned_cond_design_deadlock_found_by_tlc"] = bool(r.error and r.error[0] == "invariant")
        if not (r.error and r.error[0] == "invariant"):
            raise vlib.Inconclusive("TLC no longer finds the deadlock of the pinned cond design: NoDeadlock may be vacuous")

    binp = c.go_build("exporter", pkg="./mq")

    # ------------------------------------------------------------------ 2. sequential replay
    if c.replay:
        rp = json.load(open(c.replay))["replay"]
        if rp.get("kind") == "seq":
            seqs = [rp["input"]]
        else:
            seqs = []
    else:
        seqs = []
        plans = [(2, False, 5, [0, 1, 2, 3]), (1, False, 5, [1, 2]), (2, True, 5, [1]), (1, True, 5, [1])] if q else \
                [(2, False, 6, [0, 1, 2, 3]), (3, False, 6, [1, 2, 4]), (1, False, 7, [0, 1, 2]), (2, True, 8, [1]),
                 (1, True, 8, [1]), (3, True, 8, [1])]
        for cap, pers, n, sizes in plans:
            r = c.tlc(SPEC, "SQSeqGen", cfg_text=gen_cfg(cap, pers, n, sizes), workers=1, timeout=900, count=False,
                      label="gen_cap%d_%s_n%d" % (cap, "pers" if pers else "mem", n), heap="8g")
            if not r.ok or not r.printed:
                raise vlib.Inconclusive("sequential generator failed: %s %s" % (r.error, r.out[-1000:]))
            for steps in r.printed:
                szs = {s["size"] for s in steps if s["op"] == "offer"}
                if pers:
                    sizers = ["requests"]
                elif szs <= {1}:
                    sizers = ["requests", "items", "bytes"]
                else:
                    sizers = ["items", "bytes"]
                for sz in sizers:
                    seqs.append(dict(cfg=dict(sizer=sz, cap=cap, block=False, wfr=False, persistent=pers, consumers=1),
                                     steps=steps))
    nseq = len(seqs)
    if seqs:
        f = os.path.join(c.work, "seq.ndjson")
        vlib.write_ndjson(f, seqs)
        out = os.path.join(c.work, "seq_res.json")
        c.run([binp, "seq", f, out], timeout=2400)
        res = json.load(open(out))
        if res["behaviours"] != nseq:
            raise vlib.Inconclusive("driver replayed %d of %d histories" % (res["behaviours"], nseq))
        for m in (res.get("mismatches") or [])[:8]:
            # re-confirm once, alone
            f1 = os.path.join(c.work, "seq1.ndjson")
            vlib.write_ndjson(f1, [m["input"]])
            c.run([binp, "seq", f1, out + ".1"], timeout=120)
            if not (json.load(open(out + ".1")).get("mismatches") or []):
                c.extra["unconfirmed_seq_mismatches"] = c.extra.get("unconfirmed_seq_mismatches", 0) + 1
                continue
            c.violation("sequential history: %s differs at step %d: specified %r, real queue %r; cfg=%s steps=%s" % (
                m["what"], m["step"], m["want"], m["got"], m["input"]["cfg"],
                [(s["op"], s["req"], s["size"]) for s in m["input"]["steps"][:m["step"] + 1]]),
                replay_obj=dict(kind="seq", input=m["input"]))
        c.traces_validated += nseq
        c.sample(dict(kind="sequential history (specified observations per step)", cfg=seqs[nseq // 2]["cfg"],
                      steps=seqs[nseq // 2]["steps"]))
        c.log("sequential replay: %d histories, %d mismatches" % (nseq, len(res.get("mismatches") or [])))

    # ------------------------------------------------------------------ 3. concurrent stress + linearisation
    rounds_total = 0
    if not c.replay or json.load(open(c.replay))["replay"].get("kind") == "stress":
        nb, rounds = (1, 400) if q else (8, 800)
        seeds = [c.seed * 100 + b for b in range(nb)]
        if c.replay:
            rp = json.load(open(c.replay))["replay"]
            seeds, rounds = [rp["seed"]], rp["rounds"]
        for seed in seeds:
            tr = os.path.join(c.work, "stress_%d.ndjson" % seed)
            c.run([binp, "stress", str(seed), str(rounds), tr], timeout=1800)
            groups = {}
            cur = None
            hangs = []
            for line in open(tr):
                e = json.loads(line)
                if e["ev"] == "reset":
                    cur = dict(hdr=e, lines=[line], heavy=e.get("heavy", False), hang=None)
                    key = (e["cfg"]["cap"], e["cfg"]["persistent"])
                    groups.setdefault(key, []).append(cur)
                elif e["ev"] == "end":
                    pass
                elif cur is not None:
                    cur["lines"].append(line)
                    if e["ev"] == "hang":
                        cur["hang"] = e
                        hangs.append(cur)
            for h in hangs:
                sites = h["hang"].get("blocked") or []
                sig = None
                if any("cond).Signal [chan send]" in s for s in sites):
                    sig = "C02-cond-signal-blocked-in-chan-send-under-queue-mutex"
                c.violation("round %d (seed %d) did not finish: producers/consumers blocked for > 30 s at %s; cfg=%s" % (
                    h["hdr"]["round"], seed, sites, h["hdr"]["cfg"]),
                    replay_obj=dict(kind="stress", seed=seed, rounds=rounds, round=h["hdr"]["round"], blocked=sites),
                    signature=sig)
            # heavy rounds: search-free monitor (exactly-once, size bounds, zero at end)
            heavy_rs = [r for g in groups.values() for r in g if r["heavy"] and not r["hang"]]
            if heavy_rs:
                hp = os.path.join(c.work, "heavy_%d.ndjson" % seed)
                with open(hp, "w") as fh:
                    for r in heavy_rs:
                        fh.writelines(r["lines"])
                hr = c.tlc(SPEC, "SQHeavy", cfg="SQHeavy.cfg", workers=1, files={"observed.ndjson": hp}, timeout=1800, count=False,
                           label="heavy_s%d" % seed, heap="12g")
                if not hr.ok:
                    raise vlib.Inconclusive("heavy-round monitor failed: %s\n%s" % (hr.error, hr.out[-2000:]))
                seen_clause = set()
                for v in hr.printed:
                    key = v["clause"].split(":")[0]
                    if key in seen_clause:
                        continue
                    seen_clause.add(key)
                    hdr = next(r["hdr"] for r in heavy_rs if r["hdr"]["round"] == v["round"])
                    c.violation("heavy round %d (seed %d): %s: %s; cfg=%s" % (v["round"], seed, v["clause"], str(v["detail"])[:200], hdr["cfg"]),
                                replay_obj=dict(kind="stress", seed=seed, rounds=rounds, round=v["round"], clause=v["clause"]))
                rounds_total += len(heavy_rs)
            jobs = []
            for (cap, pers), rs in sorted(groups.items()):
                rs = [r for r in rs if not r["heavy"] and not r["hang"]]
                if not rs:
                    continue
                tp = os.path.join(c.work, "lin_%d_%d_%s.ndjson" % (seed, cap, pers))
                with open(tp, "w") as fh:
                    for r in rs:
                        fh.writelines(r["lines"])
                    fh.write('{"ev":"end"}\n')
                jobs.append((cap, pers, rs, tp))

            def validate(job):
                cap, pers, rs, tp = job
                return c.tlc(SPEC, "SQLin", cfg_text=lin_cfg(cap, pers), workers=1, dfs=True, files={"observed.ndjson": tp},
                             timeout=1800, count=False, label="lin_s%d_cap%d_%s" % (seed, cap, "pers" if pers else "mem"), heap="6g")
            from concurrent.futures import ThreadPoolExecutor
            with ThreadPoolExecutor(max_workers=8) as ex:
                results = list(ex.map(validate, jobs))
            for (cap, pers, rs, tp), r in zip(jobs, results):
                if r.timed_out:
                    raise vlib.Inconclusive("linearisation search timed out")
                if r.ok:
                    rounds_total += len(rs)
                    continue
                hw = [l for l in r.out.splitlines() if "REJECTED_AT" in l]
                if not hw and not (r.error and r.error[0] == "invariant"):
                    raise vlib.Inconclusive("linearisation run failed: %s\n%s" % (r.error, r.out[-2000:]))
                lines = open(tp).read().splitlines()
                at = int(hw[0].replace(">>", "").split(",")[1]) if hw else 1
                start = max(i for i in range(min(at, len(lines))) if '"reset"' in lines[i])
                end = next((i for i in range(start + 1, len(lines)) if '"reset"' in lines[i] or '"ev":"end"' in lines[i]), len(lines))
                c.violation("concurrent execution has no linearisation in SizedQueueAbs (%s); round starts %s; first unexplained "
                            "event: %s" % (r.error, lines[start][:300], lines[min(at - 1, len(lines) - 1)][:200]),
                            replay_obj=dict(kind="stress", seed=seed, rounds=rounds, trace=lines[start:end], at=at - start))
            if seed == seeds[0]:
                ex = [l for g in groups.values() for r in g if not r["heavy"] for l in r["lines"]][:14]
                c.sample(dict(kind="concurrent round (first events)", lines=[json.loads(l) for l in ex]))
        c.traces_validated += rounds_total
        c.log("stress: %d rounds linearised" % rounds_total)

    c.evaluations = nseq + rounds_total
    c.exhaustive = True
    c.assumptions += ["Go sync.Mutex / sync.Cond / channel semantics as modelled in SizedQueue.tla",
                      "linearisation points are inferred by TLC between recorded call start/end events (no hooks)",
                      "hang detection: a round must finish within 30 s (normal duration: milliseconds)",
                      "persistent queue: requests sizer only (the only one config validation admits with storage)"]
    c.finish_args = dict(rule="ALL sequential histories of the stated length over the stated sizes/capacity (TLC-enumerated, "
                              "replayed per applicable sizer) + seeded concurrent rounds; non-trivial = every history "
                              "(each has >= 1 accepted or refused enqueue)", distinct_nontrivial=nseq + rounds_total)
