"""C10 -- components start downstream-first, stop upstream-first, each exactly once.
Spec: specs/Lifecycle (on top of specs/PipelineGraph).  Binding: harness/graph c10 (real public
service.New / Start / Shutdown with instrumented components and extensions, scripted Start/Shutdown failures)
and c10col (the same lifetimes through the real otelcol.Collector.Run / Shutdown, which must itself shut the
service down after a failed start).
  1. TLC exhaustive design check (LifecycleMC): the start/stop algorithm of service + extensions + graph +
     sharedcomponent, with all its freedom (any topological order, any computeOrder result) and every failure
     script, satisfies the ordering guards written from the statement (StartOrder, ExtFirst, StopOrder,
     ExtLast, AtMostOnce, SharedOnce, Final).
  2. TLC (LifecycleGen) prints every frozen configuration x failure script of a bounded space; seeded TLC
     simulations add larger topologies.  The real service runs one lifetime per script and records every
     Start / Shutdown call and return of every component (and of the inner object of shared receivers).
  3. TLC (LifecycleTrace) validates every recorded lifetime: the enabling condition of each logged call is
     the statement's constraint, so any legal order is accepted and an illegal call rejects the trace.
"""
import json, os, random, re
import vlib, graphlib

PG = os.path.join(vlib.VERIF, "specs", "PipelineGraph")
PGFILES = {"PipelineGraph.tla": os.path.join(PG, "PipelineGraph.tla"),
           "PipelineGraphMC.tla": os.path.join(PG, "PipelineGraphMC.tla")}

PROPS = "StartOrder ExtFirst StopOrder ExtLast"
INVS = "SharedOnce AtMostOnce Phases Final NoStuck"


def q(xs):
    return "{" + ", ".join('"%s"' % x for x in xs) + "}"


SIG_SHARED = "shared-receiver-inner-start-before-consumers-of-its-other-signals"


def cfg_text(spec, pipes, rcvs, procs, exps, conns, maxsize, exts, maxfail, invs="", props="", receivers_last=False):
    t = """SPECIFICATION %s
CONSTANTS
  PipeSeq <- %s
  Rcvs = %s
  Procs = %s
  Exps = %s
  Conns = %s
  Support <- SupportDef
  MaxSize = %d
  ExtIds = %s
  MaxFail = %d
  ReceiversLast = %s
CHECK_DEADLOCK FALSE
""" % (spec, pipes, q(rcvs), q(procs), q(exps), q(conns), maxsize, q(exts), maxfail, "TRUE" if receivers_last else "FALSE")
    if invs:
        t += "INVARIANTS %s\n" % invs
    if props:
        t += "PROPERTIES %s\n" % props
    return t


# the universe trace validation is run with: must contain every id any script uses
TRACE_U = ("Pipes8", ["r1", "r2", "r3"], ["p1", "p2", "p3"], ["e1", "e2", "e3"], ["ca1", "ca2", "cs1", "cl1", "cm1"], 99,
           ["x1", "x2", "x3"], 2)


def fkey_to_go(op, k):
    """failure key printed by TLC -> key understood by the Go components"""
    if k[0] in ("receiver", "exporter"):
        return "%s|%s|%s|%s|" % (op, k[0], k[2], k[1])
    if k[0] == "processor":
        return "%s|processor|%s|%s|" % (op, k[2], k[1])
    if k[0] == "connector":
        return "%s|connector|%s|%s|%s" % (op, k[3], k[1], k[2])
    if k[0] in ("extension", "shared"):
        return "%s|%s|%s||" % (op, k[0], k[1])
    raise ValueError(k)


def to_go(s):
    deps = {}
    for x, y in s["deps"]:
        deps.setdefault(x, []).append(y)
    return dict(pipes=s["pipes"], conns=s["conns"], exts=s["exts"], deps=deps, shared=s["shared"],
                fail=[fkey_to_go("start", k) for k in s["failStart"]] + [fkey_to_go("shutdown", k) for k in s["failShut"]])


def header(s):
    return dict(ev="reset", pipes=s["pipes"], exts=s["exts"], deps=[list(d) for d in s["deps"]], shared=s["shared"])


def trace_lines(s, o):
    """observed.ndjson lines of one lifetime (without create events)"""
    out = [header(s)]
    for e in o["events"]:
        if e["ev"] == "create":
            continue
        e = dict(e)
        if e["ev"] == "svc_start_end":
            e["is"] = bool(o["start_is"]) if not e["ok"] else True
        elif e["ev"] == "svc_shutdown_end":
            e["isall"] = bool(o["stop_isall"])
        else:
            e.setdefault("sig", "")
            e.setdefault("sig2", "")
            e.setdefault("inst", 0)
        out.append(e)
    return out


def add_random_failures(c, scripts, maxfail=2):
    """simulated (larger) configurations come without failure script: add seeded random ones"""
    out = []
    for s in scripts:
        keys = []
        for n in s["inst"]:
            if n[0] == "processor":
                k = ["processor", n[1], n[3]]
            elif n[0] == "receiver" and n[2] in s["shared"]:
                k = ["shared", n[2]]
            else:
                k = list(n)
            if k not in keys:
                keys.append(k)
        keys += [["extension", x] for x in s["exts"]]
        nf = c.rng.choice([0, 1, 1, 2][:maxfail + 2])
        fs, fd = [], []
        for _ in range(nf):
            (fs if c.rng.random() < 0.5 else fd).append(c.rng.choice(keys))
        s = dict(s, failStart=fs, failShut=fd)
        out.append(s)
    return out


def decorate(c, cfgs):
    """PipelineGraphGen configurations -> lifecycle scripts: seeded choice of extensions, dependencies, shared receivers"""
    out = []
    for v in cfgs:
        exts = c.rng.choice([[], ["x1"], ["x1", "x2"], ["x1", "x2", "x3"], ["x1", "x2", "x3"]])
        order = exts[:]
        c.rng.shuffle(order)
        deps = []
        for i, x in enumerate(order):           # x may depend on extensions later in `order`: acyclic
            for y in order[i + 1:]:
                if c.rng.random() < 0.4:
                    deps.append([x, y])
        rcvs = sorted({n[2] for n in v["inst"] if n[0] == "receiver"})
        shared = [r for r in rcvs if c.rng.random() < 0.35]
        out.append(dict(pipes=v["pipes"], conns=v["conns"], inst=v["inst"], exts=exts, deps=deps, shared=shared))
    return add_random_failures(c, out)


def validate_batch(c, scripts, obs, batch, label, b0):
    """One batch of lifetimes through LifecycleTrace.  Returns (accepted count, [(index, line, event)] rejected).
    TLC stops explaining at the first rejected lifetime, so the rest of the batch is re-run without it."""
    accepted, rejected, early = 0, [], []
    rnd = 0
    while batch:
        rnd += 1
        lines, starts = [], []
        for i in batch:
            starts.append(len(lines) + 1)          # 1-based line of the reset record
            lines += trace_lines(scripts[i], obs[i])
        lines.append(dict(ev="end"))
        f = os.path.join(c.work, "observed_%s_%d_%d.ndjson" % (label, b0, rnd))
        vlib.write_ndjson(f, lines)
        r = c.tlc("Lifecycle", "LifecycleTrace", cfg_text=cfg_text("TSpec", *TRACE_U, invs="TraceInv") +
                  "CONSTRAINT HighWater\nPOSTCONDITION Accepted\n", workers=1, files=dict(PGFILES, **{"observed.ndjson": f}),
                  timeout=1200, label="trace_%s_%d_%d" % (label, b0, rnd), count=False, heap="3g")
        if r.timed_out:
            raise vlib.Inconclusive("trace validation timed out")
        # lines at which TLC found the inner object of a shared receiver started too early (reported, not rejected)
        for ln in sorted({int(pr.replace(">>", "").split(",")[1]) for pr in r.out.splitlines() if pr.startswith('<<"SHARED_EARLY_AT"')}):
            k = max(j for j in range(len(batch)) if starts[j] <= ln)
            if (batch[k], ln - starts[k]) not in early:
                early.append((batch[k], ln - starts[k]))
        if r.ok:
            accepted += len(batch)
            break
        hw = None
        for pr in r.out.splitlines():
            if "REJECTED_AT" in pr:
                hw = int(pr.replace(">>", "").split(",")[1])
        if r.error and r.error[0] == "invariant" and hw is None:
            # TraceInv violated: the last state of the counterexample names the line through `l`
            m = re.findall(r"/\\ l = (\d+)", r.trace_text)
            hw = int(m[-1]) - 1 if m else None
        if hw is None:
            raise vlib.Inconclusive("trace validation failed without a verdict: %s" % r.out[-2000:])
        k = max(j for j in range(len(batch)) if starts[j] <= hw)
        i = batch[k]
        tl = trace_lines(scripts[i], obs[i])
        at = hw - starts[k]
        rejected.append((i, at, tl[at] if at < len(tl) else dict(ev="end")))
        accepted += k                                    # the lifetimes before it were accepted
        batch = batch[k + 1:]
        if len(rejected) >= 3:
            break
    return accepted, rejected, early


def validate(c, scripts, obs, label, mode="c10"):
    """TLC validates the lifetimes in batches (a few TLC processes side by side); rejected lifetimes are reported."""
    from concurrent.futures import ThreadPoolExecutor
    B = 300
    batches = [(list(range(b0, min(b0 + B, len(scripts)))), b0) for b0 in range(0, len(scripts), B)]
    with ThreadPoolExecutor(max_workers=4) as ex:
        results = list(ex.map(lambda bb: validate_batch(c, scripts, obs, bb[0], label, bb[1]), batches))
    nrej = 0
    nearly = 0
    cfgstr = lambda sc: json.dumps({"%s/%s" % (p["sig"], p["name"]): dict(r=p["r"], p=p["p"], e=p["e"]) for p in sc["pipes"]}, sort_keys=True)
    for acc, rej, early in results:
        c.traces_validated += acc
        # (1) lifetimes TLC could not explain: a call the ordering rules of the statement do not allow
        for i, at, ev in rej:
            nrej += 1
            if nrej > 5:
                continue
            tl = trace_lines(scripts[i], obs[i])
            c.violation("lifetime not allowed by the start/stop ordering rules at event %d %s; configuration %s, script %s"
                        % (at, json.dumps(ev, sort_keys=True), cfgstr(scripts[i]),
                           json.dumps(dict(failStart=scripts[i]["failStart"], failShut=scripts[i]["failShut"], exts=scripts[i]["exts"],
                                           deps=scripts[i]["deps"], shared=scripts[i]["shared"]))),
                        replay_obj=dict(script=scripts[i], trace=tl, at=at, mode=mode))
        # (2) the narrow, separately reported clause: inner object of a shared receiver started too early
        for i, at in early:
            nearly += 1
            if c.extra.get("shared_receiver_started_early_lifetimes", 0) + nearly > 3:
                continue
            tl = trace_lines(scripts[i], obs[i])
            c.violation("a receiver shared between signals (sharedcomponent) started its inner object at event %d %s while a consumer of "
                        "another of its signals had not been started; configuration %s shared %s"
                        % (at, json.dumps(tl[at], sort_keys=True), cfgstr(scripts[i]), scripts[i]["shared"]),
                        replay_obj=dict(script=scripts[i], trace=tl, at=at, mode=mode), signature=SIG_SHARED)
    if nearly:
        c.extra["shared_receiver_started_early_lifetimes"] = c.extra.get("shared_receiver_started_early_lifetimes", 0) + nearly
    return nrej


def run_scripts(c, binp, scripts, label, mode="c10"):
    """mode c10: public service.New/Start/Shutdown (the driver shuts down after a failed Start, as otelcol does);
       mode c10col: the same lifetimes through the real otelcol.Collector.Run / Shutdown (configuration document,
       resolver, validation, and the collector's own shutdown-after-failed-start);
       mode c10colreload: as c10col, but the scripted configuration is the second one of the collector: it is brought
       up by a configuration reload after a warm-up configuration of no-op components."""
    inp = os.path.join(c.work, "scripts_%s.ndjson" % label)
    out = os.path.join(c.work, "calls_%s.ndjson" % label)
    vlib.write_ndjson(inp, [to_go(s) for s in scripts])
    c.run([binp, mode, inp, out, str(c.seed)], timeout=1200)
    obs = vlib.read_ndjson(out)
    if len(obs) != len(scripts):
        raise vlib.Inconclusive("driver ran %d of %d scripts" % (len(obs), len(scripts)))
    ok_s, ok_o = [], []
    for s, o in zip(scripts, obs):
        if o["timeout"]:
            raise vlib.Inconclusive("service lifetime did not finish within 60 s: %s" % json.dumps(to_go(s)))
        if o["new_err"] is not None or o["panic"]:
            # the generator only emits configurations the reference calls valid: service.New must accept them
            c.violation("service could not be built/run for a valid configuration: %s" % (o["new_err"] or o["panic"].splitlines()[0]),
                        replay_obj=dict(script=s, observed=o))
            continue
        ok_s.append(s)
        ok_o.append(o)
    rej = validate(c, ok_s, ok_o, label, mode)
    c.log("%s: %d lifetimes recorded, %d rejected" % (label, len(ok_s), rej))
    return ok_s, ok_o


def dedup(vals, keys):
    seen, out = set(), []
    for v in vals:
        k = json.dumps({x: v[x] for x in keys}, sort_keys=True)
        if k not in seen:
            seen.add(k)
            out.append(v)
    return out


def run(c):
    qk = c.quick()
    binp = graphlib.go_build(c, "graph")
    if c.replay:
        rp = json.load(open(c.replay))["replay"]
        c.tlc_must_pass("Lifecycle", "LifecycleMC", timeout=600, label="design", files=PGFILES,
                        cfg_text=cfg_text("LSpec", "Pipes2", ["r1"], ["p1"], ["e1"], ["ca1"], 3, ["x1"], 1, INVS, PROPS))
        run_scripts(c, binp, [rp["script"]], "replay", mode=rp.get("mode", "c10"))
        c.sample(dict(kind="replayed script", script=to_go(rp["script"])))
        return

    # 1. design check
    mcs = [("Pipes2", ["r1"], ["p1"], ["e1"], ["ca1"], 4, ["x1", "x2"], 1)] if qk else \
          [("Pipes2", ["r1"], ["p1"], ["e1"], ["ca1"], 6, ["x1", "x2"], 1),
           ("Pipes2", ["r1"], ["p1"], ["e1"], ["ca1"], 4, ["x1", "x2"], 2),
           ("Pipes3", ["r1"], ["p1"], ["e1"], ["ca1"], 5, ["x1"], 1)]
    for k, u in enumerate(mcs):
        # (a) StartAll as in the pinned tree: every clause except SharedStartOrder (known not to hold, see SIG_SHARED)
        c.tlc_must_pass("Lifecycle", "LifecycleMC", cfg_text=cfg_text("LSpec", *u, invs=INVS, props=PROPS), coverage=True,
                        vacuous_ok=("AddDep",) if len(u[6]) < 2 else (), files=PGFILES, timeout=3000, label="design%d" % k)
        # (b) the repaired StartAll (receivers last): every clause including SharedStartOrder
        if k == 0 or not qk:
            c.tlc_must_pass("Lifecycle", "LifecycleMC", cfg_text=cfg_text("LSpec", *u, invs=INVS, props=PROPS + " SharedStartOrder",
                                                                          receivers_last=True), coverage=True,
                            vacuous_ok=("AddDep",) if len(u[6]) < 2 else (), files=PGFILES, timeout=3000, label="design%d_fixed" % k)

    # 2. scripts: bounded-exhaustive from LifecycleGen
    gens = [("Pipes2", ["r1"], ["p1"], ["e1"], ["ca1"], 5, ["x1", "x2"], 1)] if qk else \
           [("Pipes2", ["r1"], ["p1"], ["e1"], ["ca1"], 6, ["x1", "x2"], 1),
            ("Pipes3", ["r1"], ["p1", "p2"], ["e1"], ["ca1"], 6, ["x1", "x2"], 1)]
    total = 0
    nontrivial = 0
    for k, u in enumerate(gens):
        r = c.tlc("Lifecycle", "LifecycleGen", cfg_text=cfg_text("GenSpec", *u, invs="EmitScript"), workers=1, files=PGFILES,
                  timeout=1500, label="gen%d" % k, count=False, heap="8g")
        if not r.ok:
            raise vlib.Inconclusive("script generator failed: %s\n%s" % (r.error, r.out[-1500:]))
        scripts = dedup(r.printed, ["pipes", "exts", "deps", "shared", "failStart", "failShut"])
        if not scripts:
            raise vlib.Inconclusive("script generator printed nothing")
        cap = 1200 if qk else 12000
        nall = len(scripts)
        if len(scripts) > cap:
            scripts = c.rng.sample(scripts, cap)
            c.exhaustive = False
        ss, oo = run_scripts(c, binp, scripts, "g%d" % k)
        c.log("generator %d: %d scripts in the bounded space, %d run" % (k, nall, len(ss)))
        total += len(ss)
        # the same scripts through the real otelcol.Collector (all with a failing Start + a seeded sample of the rest)
        fs = [s for s in scripts if s["failStart"]]
        rest = [s for s in scripts if not s["failStart"]]
        ccap = 250 if qk else 2500
        colscripts = (fs if len(fs) <= ccap else c.rng.sample(fs, ccap)) + c.rng.sample(rest, min(len(rest), ccap))
        cs, co = run_scripts(c, binp, colscripts, "col%d" % k, mode="c10col")
        total += len(cs)
        # ... and once more as the SECOND service of a collector, brought up by a configuration reload
        rs, ro = run_scripts(c, binp, colscripts, "colre%d" % k, mode="c10colreload")
        total += len(rs)
        nontrivial += sum(1 for s in rs if s["failStart"] or s["failShut"])
        nontrivial += sum(1 for s in cs if s["failStart"] or s["failShut"])
        nontrivial += sum(1 for s in ss if s["failStart"] or s["failShut"])
        pick = [i for i, s in enumerate(ss) if s["failStart"] and s["conns"]]
        if pick:
            i = pick[len(pick) // 2]
            c.sample(dict(kind="validated lifetime", script=to_go(ss[i]),
                          calls=["%s %s %s%s%s" % (e["ev"], e.get("k", ""), e.get("id", ""), "/" + e["sig"] if e.get("sig") else "",
                                                   "" if e.get("ok") is None else (" ok" if e["ok"] else " FAILED"))
                                 for e in oo[i]["events"] if e["ev"] != "create"]))
    if c.exhaustive is None:
        c.exhaustive = True

    # 3. larger random topologies from seeded simulations of PipelineGraphGen (valid configurations only)
    import importlib.util
    sims = [(c.seed, 3, 12)] if qk else [(c.seed * 100 + i, 8, 12 + 2 * (i % 3)) for i in range(4)]
    for seed, num, size in sims:
        t = """SPECIFICATION GSpecValid
CONSTANTS
  PipeSeq <- Pipes8
  Rcvs = {"r1", "r2", "r3"}
  Procs = {"p1", "p2", "p3"}
  Exps = {"e1", "e2", "e3"}
  Conns = {"ca1", "ca2", "cs1", "cl1", "cm1"}
  Support <- SupportDef
  MaxSize = %d
INVARIANTS EmitValid
CHECK_DEADLOCK FALSE
""" % size
        r = c.tlc("PipelineGraph", "PipelineGraphGen", cfg_text=t, workers=1, timeout=900, simulate="num=%d" % num,
                  depth=size + 1, seed=seed, label="sim%d" % seed, count=False, heap="8g")
        if r.error or r.timed_out:
            raise vlib.Inconclusive("simulation failed: %s\n%s" % (r.error, r.out[-1500:]))
        cfgs = dedup(r.printed, ["pipes"])
        cap = 300 if qk else 2500
        if len(cfgs) > cap:
            cfgs = c.rng.sample(cfgs, cap)
        scripts = decorate(c, cfgs)
        half = len(scripts) // 2
        ss, oo = run_scripts(c, binp, scripts[:half], "sim%d" % seed)
        cs, co = run_scripts(c, binp, scripts[half:], "simcol%d" % seed, mode="c10col")
        rs, ro = run_scripts(c, binp, scripts[half:], "simcolre%d" % seed, mode="c10colreload")
        ss = ss + cs + rs
        total += len(ss)
        nontrivial += sum(1 for s in ss if s["failStart"] or s["failShut"])
    c.evaluations = total
    c.assumptions += ["a processor instance cannot observe its pipeline: TLC searches for a one-to-one binding of instances to pipelines",
                      "ordering clauses are checked on the Start/Shutdown calls the graph makes on component nodes; for a receiver shared "
                      "between signals (internal/sharedcomponent) the once-only clause is checked on the inner object",
                      "calls are sequential (service.Start/Shutdown run on one goroutine)"]
    c.finish_args = dict(rule="every frozen configuration x failure script (<= MaxFail failing calls) of the stated universes printed by "
                              "LifecycleGen (sampled with the seed when above the cap), plus seeded simulations over 8 pipelines of 4 "
                              "signals with random extensions/dependencies/shared receivers/failures; non-trivial = at least one failing call",
                         distinct_nontrivial=nontrivial)
