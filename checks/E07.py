"""E07 (extra specification, beyond the listed properties) -- composition, third stage: two pipelines linked by a connector.

title      Data buffered in either of two connected pipelines at shutdown is drained through the connector, not lost
statement  For receiver -> batch processor -> forward connector -> batch processor -> exporter (two pipelines of one service):
           when Service.Shutdown has returned, every item for which the receiver's call returned nil has been delivered to the
           backend or dropped with a recorded failure of the exporter (enqueue refused, permanent failure) -- whether it was
           buffered in the first batch processor, in the second one or in the exporter's queue when shutdown was requested --
           and exactly once when nothing failed; nothing is delivered that was not accepted; no export call starts after
           Shutdown has returned.
quantifier for every order of injections and timer-driven flushes of the two batch processors, every moment of the shutdown
           request, every batch size of either processor / queue capacity in the bounds and every outcome (ok, permanent,
           slow) of every export call
anchors    service/internal/graph/graph.go ShutdownAll (topological order across the connector node), connector/forwardconnector,
           processor/batchprocessor (shutdown drain), exporter/exporterhelper
composes   C10 (a component is shut down only after every component that sends data to it), C17 (drain), C03 (exporter drain),
           C09 (connector wiring)

Spec: specs/PipelineChain (model, Gen) + specs/Pipeline/PipelineMonitor.tla (the same end-to-end monitor as the one-pipeline stage).
Binding: harness/pipeline/cmd with cfg.chain (REAL service, real batch processors, real forward connector).
"""
import json, os
import vlib

PMON = os.path.join(vlib.VERIF, "specs", "Pipeline", "PipelineMonitor.tla")
PMONCFG = os.path.join(vlib.VERIF, "specs", "Pipeline", "PipelineMonitor.cfg")


def consts(items, b1, b2, cap):
    return "CONSTANTS\n  Items = {%s}\n  Batch1 = %d\n  Batch2 = %d\n  QueueCap = %d\n" % (",".join('"%s"' % i for i in items), b1, b2, cap)


def execute(c, binp, scripts, label):
    sp, tp = os.path.join(c.work, "%s_scripts.ndjson" % label), os.path.join(c.work, "%s_traces.ndjson" % label)
    vlib.write_ndjson(sp, scripts)
    c.run([binp, "run", sp, tp], timeout=1800)
    lines = open(tp).read().splitlines()
    if sum(1 for l in lines if '"ev":"reset"' in l) != len(scripts):
        raise vlib.Inconclusive("driver returned a different number of traces")
    r = c.tlc("PipelineChain", "PipelineMonitor", cfg_text=open(PMONCFG).read(), workers=1,
              files={"observed.ndjson": tp, "PipelineMonitor.tla": PMON}, timeout=900,
              count=False, label="monitor_" + label)
    if not r.ok:
        raise vlib.Inconclusive("monitor failed: %s %s" % (r.error, r.out[-1500:]))
    c.evaluations += len(lines)
    return r.printed, lines


def run(c):
    q = c.quick()
    items = ["a", "b", "c", "d"]
    for k, (b1, b2, cap) in enumerate([(2, 3, 1), (1, 2, 2)] + ([] if q else [(3, 1, 1), (2, 2, 2)])):
        cfg = "SPECIFICATION Spec\n" + consts(items, b1, b2, cap) + "INVARIANTS NoSilentLoss ExactlyOnceIfClean NothingInvented NoDuplicates\nCHECK_DEADLOCK FALSE\n"
        c.tlc_must_pass("PipelineChain", "PipelineChain", cfg_text=cfg, timeout=900, label="design%d" % k, coverage=(k == 0))
    binp = c.go_build("pipeline", pkg="./cmd")
    if c.replay:
        scripts = [dict(json.load(open(c.replay))["replay"]["script"], id="replay")]
    else:
        scripts, seen = [], set()
        for k, (b1, b2, cap) in enumerate([(2, 3, 1), (1, 2, 2), (3, 1, 1), (2, 2, 2), (4, 4, 1)]):
            cfg = "SPECIFICATION GSpec\n" + consts(items, b1, b2, cap) + "INVARIANT EmitScript\nCHECK_DEADLOCK FALSE\n"
            r = c.tlc("PipelineChain", "PipelineChainGen", cfg_text=cfg, workers=1, simulate="num=%d" % c.pick(60, 500), depth=100,
                      seed=c.seed * 23 + k, timeout=600, count=False, label="gen%d" % k)
            if not r.ok:
                raise vlib.Inconclusive("script generator failed: %s %s" % (r.error, r.out[-1000:]))
            for beh in r.printed:
                steps = []
                for s in beh["steps"]:
                    steps.append(s)
                    if s["op"] == "shutdown":
                        break
                key = json.dumps([b1, b2, cap, steps, beh["outcomes"]])
                if key in seen:
                    continue
                seen.add(key)
                scripts.append(dict(id="c%d" % len(scripts), cfg=dict(batch=b1, batch2=b2, cap=cap, retry=False, chain=True),
                                    steps=steps, outcomes=list(beh["outcomes"])))
    c.log("%d scripts" % len(scripts))
    verdicts, lines = execute(c, binp, scripts, "main")
    byid = {s["id"]: s for s in scripts}
    reported = 0
    for v in verdicts[:12]:
        s = byid[v["script"]]
        again, _ = execute(c, binp, [dict(s, id="confirm")], "confirm")
        if not [w for w in again if w["clause"] == v["clause"]]:
            c.extra["unconfirmed"] = c.extra.get("unconfirmed", 0) + 1
            continue
        c.violation("%s violated by the real two-pipeline service: %s; cfg=%s steps=%s outcomes=%s" % (
            v["clause"], v["detail"], s["cfg"], [(x["op"], x["item"]) for x in s["steps"]], s["outcomes"]),
            replay_obj=dict(script={k: s[k] for k in ("cfg", "steps", "outcomes")}))
        reported += 1
        if reported >= 5:
            break
    c.traces_validated += len(scripts)
    c.extra["scripts"] = len(scripts)
    buffered = sum(1 for s in scripts if s["steps"] and s["steps"][-1]["op"] == "shutdown" and len(s["steps"]) >= 2 and s["steps"][-2]["op"] == "inject")
    c.extra["scripts_with_an_injection_right_before_shutdown"] = buffered
    c.sample(dict(kind="script", script=scripts[len(scripts) // 2]))
    c.sample(dict(kind="recorded events of the first script", events=[json.loads(l) for l in lines[:20]]))
    c.assumptions += ["items are log records identified by their body; one consumer on the exporter queue; batch timers 15 ms"]
    c.finish_args = dict(rule="scripts = behaviours of PipelineChain.tla sampled by TLC (-simulate, seeded); non-trivial = an injection "
                              "immediately before the shutdown request (data buffered upstream of the connector at shutdown)",
                         distinct_nontrivial=buffered)
