"""E02 -- feature gate registry (EXTRA specification, no listed property).
Spec: specs/FeatureGate.  Binding: harness/featuregate (public API of /repo/featuregate on fresh NewRegistry() values).

Checked statement, in the form of a properties.jsonl record (written from featuregate/README.md and the doc comments of
registry.go / stage.go / gate.go / flag.go -- NOT from what the code happens to do):

  {"id": "E02",
   "title": "Feature gate registry: registration, stage defaults, settability, flag value, visiting order, concurrency",
   "statement": "A Registry holds gates identified by a unique id that is a nonempty string of ASCII letters, digits and dots
      (Register doc).  Register fails -- MustRegister panics -- and leaves the registry unchanged if the id is malformed, if the
      id is already registered (ErrAlreadyRegistered), if a From/ToVersion option is not a version string, if the reference URL
      does not parse, or if a Stable gate has no removal version (README); otherwise the gate is added, enabled according to
      its stage: Alpha disabled, Beta enabled, Stable enabled, Deprecated disabled (stage.go).  Set(id, v): unknown id -> error;
      Stable: v=false -> error, v=true accepted (README: a warning, not an error); Deprecated: v=true -> error, v=false accepted
      (stage.go: error if MODIFIED); Alpha/Beta: the gate takes v.  A refused Set changes nothing; gates are never removed, never
      change stage; Stable is always enabled, Deprecated always disabled.  The --feature-gates value is a comma-delimited list of
      entries `id` / `+id` (enable) and `-id` (disable) (README), applied left to right by Set, so a later entry overrides an
      earlier one; it reports an error iff an entry is refused.  String() of the flag value, given back to Set, is accepted and
      reproduces the state.  VisitAll calls fn once per registered gate in lexicographical order of the ids (VisitAll doc).
      The registry may be used from several goroutines: every concurrent history of Register / Set / IsEnabled / flag Set /
      VisitAll is linearisable w.r.t. the above (flag Set: one point per entry; VisitAll: one point for the gate set, one per
      gate for its enabled value).",
   "quantifier": "every sequence of <= N operations from the plans below (Register and MustRegister with all stages, 6 well-formed
      and 9 malformed ids, duplicates, 25 version strings, URL options; Set; flag values = every list of <= 2 (thorough 3) entries
      over 14 entry forms; String() round trips) on a fresh registry, enumerated by TLC; random longer sequences (TLC -simulate);
      thousands of concurrent rounds of 3-4 goroutines whose recorded histories TLC must linearise.",
   "anchors": {"files": ["featuregate/registry.go", "featuregate/flag.go", "featuregate/gate.go", "featuregate/stage.go",
                         "featuregate/README.md"],
               "mechanisms": ["validateID/idRegexp", "Register: option application, stage switch, LoadOrStore",
                              "Registry.Set stage switch", "flagValue.Set/String", "VisitAll: Range + sort", "atomic.Bool"]}}

Where the documentation is SILENT the specification admits every behaviour (FeatureGate.tla O1-O7): Deprecated gate without
ToVersion; ToVersion before FromVersion; version strings that are neither of the documented form nor plainly no version
("1.2", "1.2.3.4", "1.2.3+meta", "1.2.3-rc.1", ...); which error a doubly-defective duplicate registration returns; which
acceptable entries of a flag value still take effect when another entry is refused; whether an EMPTY list entry ("a,,b", "a,")
is ignored or reported (but it must be answered, not crash); unknown Stage values, descriptions, version getters: not modelled.
VisitAll's gate set under concurrent registration: the documentation promises nothing and sync.Map.Range promises only "each key
once"; the check validates the strong reading first (the set is a snapshot, which is what the pinned toolchain's sync.Map gives),
and a history that only the weak reading explains (every gate registered before the call is visited) is MODEL-DRIFT, not a finding.

Steps
  1. TLC, exhaustive: FGMC (statement-level spec, all clauses as invariants over every reachable registry and every admissible
     outcome), FGImplMC (implementation-shaped model, goroutines x atomic steps, refinement of the spec; the Load-then-Store
     variant must be refuted, which shows the refinement check binds).
  2. TLC generates every operation sequence of every plan with the admissible observations per step (FGGen); the driver replays
     the inputs into the real registry (twice: Register / MustRegister); the real observation sequence (answer, and what
     VisitAll + IsEnabled show after every step) must be one of the admissible ones.
  3. The same with long random sequences (TLC -simulate, seeded by VERIF_SEED).
  4. Real goroutines on one registry; TLC searches a linearisation of every recorded round (FGLin).
"""
import json, os, threading
from concurrent.futures import ThreadPoolExecutor
import vlib

SIG_EMPTY = "flag value with an empty list entry panics in flagValue.Set (index out of range) instead of being answered"

ID_OK = ["a", "b.1", "A", "a.b", "0", "."]
ID_BAD = ["", "a-", "a_b", "a b", "a,b", "-a", "+a", "a/b", "a:b"]
V_OK = ["v1.0.0", "1.0.0", "v0.65.0", "v2.0.0", "1.2.3-rc1", "v1.0.0-alpha-1~x", "01.2.3", "v1.0.0-0"]
V_BAD = ["", "v", "abc", "x1.2.3", "1.2.3 ", "1_2.0", "V1.0.0", ".1.2", "-1.0.0"]
V_GRAY = ["1.2", "1", "1.2.3.4", "1.2.3+meta", "1.2.3-rc.1", "1.2.3-", "1.2.3rc1", "1.x.3"]
ENTRIES = ["a", "-a", "+a", "b", "-b", "+b", "s", "-s", "d", "-d", "x", "-x", "", "-"]
ENTRIES3 = ["a", "-a", "+b", "-b", "s", "-s", "d", "-d", "x", ""]
FOUR = [("a", "Alpha", None, None), ("b", "Beta", None, None), ("s", "Stable", None, "v1.0.0"), ("d", "Deprecated", "v0.9.0", "v1.0.0")]


def lists(entries, n):
    out = [[]]
    res = []
    for _ in range(n):
        out = [l + [e] for l in out for e in entries]
        res += [",".join(l) for l in out]
    return res


def plans(q):
    """(name, pools, N, design): design = the plan is also checked exhaustively by FGMC"""
    P = []
    P.append(dict(name="stages", ids=["a", "b.1", "a-"], stages=4, tos=[None, "v1.0.0"], setids=["a", "b.1", "z"], n=2 if q else 3, design=True))
    P.append(dict(name="life", ids=["a"], stages=4, tos=[None, "v1.0.0"], setids=["a"], flags=["a", "-a"], rt=True, n=3 if q else 4, design=True))
    P.append(dict(name="order", ids=ID_OK + ["", "a-"], stages=["Beta"], setids=["a"], n=3 if q else 4, design=not q))
    P.append(dict(name="ids", ids=ID_OK + ID_BAD, stages=4, tos=[None, "1.0.0"], setids=ID_BAD[:3], n=1 if q else 2))
    P.append(dict(name="versions", ids=["a"], stages=["Alpha", "Stable", "Deprecated"], froms=[None] + V_OK + V_BAD + V_GRAY,
                  tos=[None] + V_OK + V_BAD + V_GRAY, urls=["none", "good", "bad"] if not q else ["none"], n=1))
    if q:
        P.append(dict(name="versions2", ids=["a"], stages=["Beta", "Stable"], froms=[None, "v1.0.0", "v2.0.0", "1.0"],
                      tos=[None, "v1.0.0", "1.0.0-rc1", "x"], urls=["none", "bad"], setids=["a"], n=2, design=True))
    else:
        P.append(dict(name="versions2", ids=["a", "b"], stages=["Beta", "Stable"], froms=[None, "v1.0.0", "v2.0.0", "1.0"],
                      tos=[None, "v1.0.0", "1.0.0-rc1", "x"], urls=["none", "bad", "good"], setids=["a"], n=2, design=True))
    P.append(dict(name="flag", prefix=FOUR, flags=[""] + lists(ENTRIES, 2), n=1, design=True))
    P.append(dict(name="flag2", prefix=FOUR, flags=lists(["a", "-a", "-b", "-s", ""] if q else ["a", "-a", "-b", "+b", "-s", "x", ""], 2), n=2))
    if not q:
        P.append(dict(name="flag3", prefix=FOUR, flags=lists(ENTRIES3, 3), n=1))
    P.append(dict(name="roundtrip", prefix=FOUR, setids=["a", "b", "s"], flags=["-b,a", "a,-a", "-d,s"], rt=True, n=3 if q else 4, design=True))
    P.append(dict(name="regrt", ids=["a", "B", "0.x"], stages=4, tos=["v1.0.0"], setids=["a", "B"], rt=True, n=2 if q else 3, design=True))
    return P


SIM = dict(name="sim", ids=ID_OK[:4] + ["", "a-"], stages=4, froms=[None, "v0.1.0", "v3.0.0", "1"], tos=[None, "v1.0.0", "bad"],
           urls=["none", "good", "bad"], setids=ID_OK[:4] + ["z"], rt=True,
           flags=lists(["a", "-a", "+b.1", "-b.1", "A", "-A", "a.b", "-a.b", "z", ""], 2))

STAGES = ["Alpha", "Beta", "Stable", "Deprecated"]


def tstr(s):
    for ch in s:
        if ch in '"\\' or ord(ch) > 126 or ord(ch) < 32:
            raise vlib.Inconclusive("character %r cannot be written into a TLA+ string" % ch)
    return "<<" + ", ".join('"%s"' % ch for ch in s) + ">>"


def tver(v):
    return "NoVer" if v is None else "V(%s)" % tstr(v)


def tset(xs):
    return "{" + ", ".join(xs) + "}"


def regop(id, stage, frm, to, url="none"):
    return '[op |-> "reg", id |-> %s, stage |-> "%s", from |-> %s, to |-> %s, url |-> "%s"]' % (tstr(id), stage, tver(frm), tver(to), url)


def plan_module(p):
    st = STAGES if p.get("stages") == 4 else (p.get("stages") or [])
    ids = p.get("ids") or []
    return """------------------------------ MODULE FGPlan ------------------------------
(* generated by checks/E02.py: plan %s *)
NoVer == [set |-> FALSE, s |-> <<>>]
V(s)  == [set |-> TRUE, s |-> s]
PIds    == %s
PStages == %s
PFroms  == %s
PTos    == %s
PUrls   == %s
PSetIds == %s
PFlags  == %s
PRt     == %s
PPrefix == <<%s>>
=============================================================================
""" % (p["name"], tset(tstr(i) for i in ids), tset('"%s"' % s for s in st), tset(tver(v) for v in p.get("froms", [None])),
       tset(tver(v) for v in p.get("tos", [None])), tset('"%s"' % u for u in p.get("urls", ["none"])),
       tset(tstr(i) for i in p.get("setids", [])), tset(tstr(f) for f in sorted(set(p.get("flags", [])))),
       "TRUE" if p.get("rt") else "FALSE", ", ".join(regop(*g) for g in p.get("prefix", [])))


def nops(p):
    st = 4 if p.get("stages") == 4 else len(p.get("stages") or [])
    return (len(p.get("ids") or []) * st * len(p.get("froms", [None])) * len(p.get("tos", [None])) * len(p.get("urls", ["none"]))
            + 2 * len(p.get("setids", [])) + len(set(p.get("flags", []))) + (1 if p.get("rt") else 0))


MC_CFG = open(os.path.join(vlib.VERIF, "specs", "FeatureGate", "FGMC.cfg")).read()


def gen_cfg(n):
    return "SPECIFICATION GenSpec\nCONSTANTS\n  N = %d\nINVARIANT Emit\nINVARIANT Clauses\nCHECK_DEADLOCK FALSE\n" % n


def proj(steps):
    return json.dumps([{"res": s["res"], "st": s["st"]} for s in steps], sort_keys=True, separators=(",", ":"))


def has_empty_entry(o):
    return o["op"] == "flag" and len(o["s"]) > 0 and "" in "".join(o["s"]).split(",")


def s_of(cs):
    return "".join(cs)


def show_op(o):
    if o["op"] == "reg":
        return "Register(%r, %s%s%s%s)" % (s_of(o["id"]), o["stage"], ", from=%r" % s_of(o["from"]["s"]) if o["from"]["set"] else "",
                                           ", to=%r" % s_of(o["to"]["s"]) if o["to"]["set"] else "",
                                           ", url=%s" % o["url"] if o["url"] != "none" else "")
    if o["op"] == "set":
        return "Set(%r, %s)" % (s_of(o["id"]), str(o["v"]).lower())
    if o["op"] == "flag":
        return "flag.Set(%r)" % s_of(o["s"])
    return "flag.Set(flag.String()) on a fresh copy"


def show_st(st):
    return "[" + " ".join("%s%s:%s%s" % ("" if g["en"] else "-", s_of(g["id"]), g["stage"][0], "!" + g["x"] if g.get("x") else "") for g in st) + "]"


def show_hist(lines):
    """one recorded round, compact: g<goroutine> call -> answer ... / g<goroutine> returned"""
    out = []
    for l in lines:
        e = json.loads(l)
        if e["ev"] == "inv":
            o = e["op"]
            if o["op"] == "get":
                out.append("g%d IsEnabled(%r) -> %s" % (e["p"], s_of(o["id"]), str(e.get("en")).lower()))
            elif o["op"] == "visit":
                v = e["vis"]
                out.append("g%d VisitAll -> %s" % (e["p"], show_st([dict(id=i, en=en, stage=st) for i, en, st in zip(v["ids"], v["ens"], v["stages"])])))
            else:
                out.append("g%d %s -> %s" % (e["p"], show_op(o), e.get("res")))
        elif e["ev"] == "ret":
            out.append("g%d returned" % e["p"])
    return out


class Replayer:
    def __init__(self, c, binp):
        self.c, self.binp = c, binp
        self.scripts = self.nontrivial = self.open_scripts = self.panics = self.drift = 0
        self.reported = 0

    def run(self, name, behs):
        """behs: behaviours printed by FGGen (lists of steps {op, res, st[, str]}).  Groups them by input, replays, compares."""
        c = self.c
        groups, strs = {}, {}
        for b in behs:
            key = json.dumps([s["op"] for s in b], sort_keys=True, separators=(",", ":"))
            groups.setdefault(key, set()).add(proj(b))
            strs[(key, proj(b))] = [s.get("str") for s in b]
        keys = sorted(groups)
        inp = os.path.join(c.work, "scripts_%s.ndjson" % name)
        with open(inp, "w") as fh:
            for i, k in enumerate(keys):
                fh.write('{"id":%d,"ops":%s}\n' % (i, k))
        out = os.path.join(c.work, "obs_%s.ndjson" % name)
        c.run([self.binp, "replay", inp, out], timeout=900)
        done = None
        seen = 0
        for line in open(out):
            r = json.loads(line)
            if "done" in r:
                done = r["done"]
                continue
            seen += 1
            key = keys[r["id"]]
            ops = json.loads(key)
            adm = groups[key]
            for mode in ("reg", "must"):
                self.compare(name, mode, ops, adm, r[mode], strs, key)
        if done != len(keys) or seen != len(keys):
            raise vlib.Inconclusive("driver replayed %s of %d scripts of plan %s" % (done, len(keys), name))
        self.scripts += len(keys)
        self.open_scripts += sum(1 for k in keys if len(groups[k]) > 1)
        self.nontrivial += sum(1 for k in keys if any(len(s["st"]) > 0 for s in json.loads(next(iter(groups[k])))))
        mid = keys[len(keys) // 2]
        c.sample(dict(kind="replayed script (plan %s)" % name, ops=[show_op(o) for o in json.loads(mid)],
                      admissible=[[(s["res"], show_st(s["st"])) for s in json.loads(a)] for a in sorted(groups[mid])][:3]))
        return len(keys)

    def compare(self, name, mode, ops, adm, real, strs, key):
        c = self.c
        # known finding: a panic on an empty list entry is an abnormal answer; it is reported (signature) and, for the rest of
        # the script, counted as the error answer so that the remaining steps are still compared
        obs = []
        for o, s in zip(ops, real):
            res = s["res"]
            if res == "panic" and has_empty_entry(o) and "index out of range" in s.get("msg", ""):
                self.panics += 1
                if self.panics == 1:
                    c.violation(    "%s panics (%s): an empty entry of the comma-delimited list is neither ignored nor reported as an error"
                                % (show_op(o), s.get("msg")), replay_obj=dict(kind="script", ops=ops[:len(obs) + 1]), signature=SIG_EMPTY)
                res = "err"
            obs.append({"res": res, "st": s["st"]})
        got = proj(obs)
        if len(real) == len(ops) and got in adm:
            for o, s, want in zip(ops, real, strs[(key, got)]):
                if o["op"] == "rt" and want is not None and (s.get("str") or []) != want:
                    self.drift += 1
                    if self.drift <= 3:
                        c.model_drift("String() is %r, the implementation-shaped format predicts %r (round trip holds)"
                                      % (s_of(s.get("str") or []), s_of(want)))
            return
        self.reported += 1
        if self.reported > 5:
            return
        # first step at which no admissible observation sequence agrees
        cands = [json.loads(a) for a in adm]
        k = 0
        while k < len(obs) and k < len(ops):
            nxt = [a for a in cands if a[k] == json.loads(proj([obs[k]]))[0]]
            if not nxt:
                break
            cands = nxt
            k += 1
        if k >= len(obs):
            what = "the driver recorded %d of %d steps" % (len(obs), len(ops))
        else:
            want = sorted(set((a[k]["res"], show_st(a[k]["st"])) for a in cands))
            what = "step %d %s (%s): real answer %s%s, registry afterwards %s; specified: %s" % (
                k + 1, show_op(ops[k]), "MustRegister" if mode == "must" else "Register",
                real[k]["res"], " (%s)" % real[k]["msg"][:120] if real[k].get("msg") else "", show_st(real[k]["st"]),
                " or ".join("%s %s" % w for w in want))
        c.violation("plan %s: %s; after %s" % (name, what, [show_op(o) for o in ops[:k]]),
                    replay_obj=dict(kind="script", ops=ops, mode=mode, step=k))


def jver(v):
    return {"set": v is not None, "s": list(v or "")}


def random_script(rng, depth):
    """operations drawn from the SIM pools; registrations are biased towards acceptable ones so that the registry fills up"""
    ops = []
    for _ in range(depth):
        k = rng.random()
        if k < 0.4:
            stage = rng.choice(STAGES)
            to = rng.choice(SIM["tos"]) if rng.random() < 0.3 else ("v1.0.0" if stage in ("Stable", "Deprecated") else None)
            ops.append({"op": "reg", "id": list(rng.choice(SIM["ids"][:4]) if rng.random() < 0.85 else rng.choice(SIM["ids"])),
                        "stage": stage, "from": jver(rng.choice(SIM["froms"]) if rng.random() < 0.3 else None), "to": jver(to),
                        "url": rng.choice(SIM["urls"]) if rng.random() < 0.2 else "none"})
        elif k < 0.6:
            ops.append({"op": "set", "id": list(rng.choice(SIM["setids"])), "v": rng.random() < 0.5})
        elif k < 0.9:
            ops.append({"op": "flag", "s": list(rng.choice(SIM["flags"]))})
        else:
            ops.append({"op": "rt"})
    return ops


def follow(c, scripts, label):
    """admissible behaviours of the given inputs, computed by TLC (FGFollow)"""
    uniq = sorted(set(json.dumps(o, sort_keys=True, separators=(",", ":")) for o in scripts))
    txt = "".join('{"id":%d,"ops":%s}\n' % (i, o) for i, o in enumerate(uniq))
    r = c.tlc("FeatureGate", "FGFollow", cfg="FGFollow.cfg", files={"scripts.ndjson": txt}, workers=1, timeout=1500,
              label="follow_" + label, count=False, heap="8g")
    if not r.ok:
        raise vlib.Inconclusive("FGFollow failed (%s): %s %s" % (label, r.error, (r.trace_text or r.out)[-1500:]))
    if r.out.count('<<"BEH", "') != len(r.printed) or not r.printed:
        raise vlib.Inconclusive("FGFollow output garbled (%s): %d lines, %d parsed" % (label, r.out.count('<<"BEH", "'), len(r.printed)))
    got = set(json.dumps([s["op"] for s in b], sort_keys=True, separators=(",", ":")) for b in r.printed)
    if got != set(uniq):
        raise vlib.Inconclusive("FGFollow followed %d of %d inputs (%s)" % (len(got), len(uniq), label))
    return r.printed


def validate_history(c, tr, rounds, label):
    """TLC searches a linearisation of every round of the recorded history; returns after reporting the first unexplained round."""
    cfg = open(os.path.join(vlib.VERIF, "specs", "FeatureGate", "FGLin.cfg")).read()
    r = c.tlc("FeatureGate", "FGLin", cfg_text=cfg, workers=1, dfs=True, files={"observed.ndjson": tr}, timeout=1500,
              label=label, count=False, heap="8g")
    if r.timed_out:
        raise vlib.Inconclusive("linearisation search timed out")
    if r.ok:
        return True

    def rejected_at(res):
        for pr in res.out.splitlines():
            if "REJECTED_AT" in pr:
                return int(pr.replace(">>", "").split(",")[1])
        return None
    at = rejected_at(r)
    if at is None and not (r.error and r.error[0] == "invariant"):
        raise vlib.Inconclusive("linearisation search failed without a verdict: %s %s" % (r.error, r.out[-1500:]))
    lines = open(tr).read().splitlines()
    at = at if at is not None else 1
    start = max(i for i in range(min(at, len(lines))) if '"reset"' in lines[i])
    end = next((i for i in range(start + 1, len(lines)) if '"reset"' in lines[i] or '"end"' in lines[i]), len(lines))
    rnd = lines[start:end]
    # is the round explained by the weak reading of VisitAll (documentation silent)?  Validate the round alone.
    one = os.path.join(c.work, "round_%s.ndjson" % label)
    with open(one, "w") as fh:
        fh.write("\n".join(rnd + ['{"ev":"end"}']) + "\n")
    r2 = c.tlc("FeatureGate", "FGLin", cfg_text=cfg.replace("Snapshot = TRUE", "Snapshot = FALSE"), workers=1, dfs=True,
               files={"observed.ndjson": one}, timeout=600, label=label + "_weak", count=False)
    if r2.timed_out:
        raise vlib.Inconclusive("linearisation search (weak VisitAll) timed out")
    if r2.ok:
        c.model_drift("a concurrent round is explained only if VisitAll's gate set is NOT a snapshot (documentation silent; every gate "
                      "registered before the call was visited): %s" % show_hist(rnd[:40]))
        # the rest of the history is validated without the round
        rest = os.path.join(c.work, "rest_%s.ndjson" % label)
        with open(rest, "w") as fh:
            fh.write("\n".join(lines[:start] + lines[end:]) + "\n")
        return validate_history(c, rest, rounds - 1, label + "r")
    if rejected_at(r2) is None and not (r2.error and r2.error[0] == "invariant"):
        raise vlib.Inconclusive("linearisation search (weak VisitAll) failed without a verdict: %s %s" % (r2.error, r2.out[-1500:]))
    c.violation("concurrent history of the registry has no linearisation (first %d records of the round are explainable; "
                "'g1 call -> answer' = invocation with its eventual answer, in real-time order): %s"
                % (at - start - 1, show_hist(rnd[:at - start + 3])), replay_obj=dict(kind="history", trace=rnd, at=at - start))
    return False


def overlap(tr):
    rounds = ov = 0
    cur, anyov = set(), False
    for line in open(tr):
        if '"reset"' in line:
            ov += anyov
            rounds += 1
            cur, anyov = set(), False
        elif '"inv"' in line:
            cur.add(json.loads(line)["p"])
            anyov = anyov or len(cur) > 1
        elif '"ret"' in line:
            cur.discard(json.loads(line)["p"])
    return rounds, ov + anyov


def run(c):
    q = c.quick()
    binp = c.go_build("featuregate", pkg="./cmd")
    rp = Replayer(c, binp)

    if c.replay:
        r = json.load(open(c.replay))["replay"]
        c.tlc_must_pass("FeatureGate", "FGMC", cfg_text=MC_CFG, timeout=300, label="design", workers=4)
        if r.get("kind") == "history":
            tr = os.path.join(c.work, "replay.ndjson")
            with open(tr, "w") as fh:
                fh.write("\n".join(r["trace"] + ['{"ev":"end"}']) + "\n")
            if validate_history(c, tr, 1, "replay"):
                c.traces_validated += 1
        else:
            # the recorded input is replayed into the current tree and compared with the admissible observations TLC computes for it
            rp.run("replay", follow(c, [r["ops"]], "replay"))
            c.traces_validated += 2
        c.finish_args = dict(rule="replay of one recorded case")
        return

    # every TLC run and the concurrent driver runs are independent: they are started together (thread pool), the results are
    # consumed in a fixed order below
    P = plans(q)
    cfgdir = os.path.join(vlib.VERIF, "specs", "FeatureGate")
    impl_cfg = open(os.path.join(cfgdir, "FGImplMC.cfg")).read()
    lock = threading.Lock()

    def counted(r):
        with lock:
            c.states += r.distinct
            c.transitions += r.generated
        return r

    def design(p):
        return counted(c.tlc("FeatureGate", "FGMC", cfg_text=MC_CFG, files={"FGPlan.tla": plan_module(p)}, timeout=900,
                             label="design_" + p["name"], workers=2, count=False, heap="3g"))

    def gen(p):
        return c.tlc("FeatureGate", "FGGen", cfg_text=gen_cfg(p["n"]), files={"FGPlan.tla": plan_module(p)}, workers=1,
                     timeout=1500, label="gen_" + p["name"], count=False, heap="4g")

    def conc(bno, rounds, G, K):
        tr = os.path.join(c.work, "conc%d.ndjson" % bno)
        c.run([binp, "conc", str(c.seed * 100 + bno), str(rounds), str(G), str(K), tr], timeout=600)
        nr, ov = overlap(tr)
        if nr != rounds:
            raise vlib.Inconclusive("driver recorded %d of %d rounds" % (nr, rounds))
        return tr, ov, validate_history(c, tr, rounds, "lin%d" % bno)

    num, depth = (400, 10) if q else (10000, 16)
    scripts = [random_script(c.rng, depth) for _ in range(num)]
    batches = [(3000, 3, 4), (1500, 4, 3)] if q else [(25000, 3, 4), (20000, 4, 3), (12000, 3, 6), (10000, 2, 8), (8000, 5, 3)]
    with ThreadPoolExecutor(max_workers=6 if q else 5) as ex:
        f_impl = ex.submit(lambda: counted(c.tlc("FeatureGate", "FGImplMC", cfg_text=impl_cfg, timeout=900, label="impl", workers=4,
                                                 coverage=True, count=False, heap="4g")))
        f_neg = ex.submit(lambda: c.tlc("FeatureGate", "FGImplMC", cfg_text=impl_cfg.replace("AtomicLoadOrStore = TRUE", "AtomicLoadOrStore = FALSE"),
                                        timeout=600, label="impl_load_then_store", workers=2, count=False, heap="3g"))
        f_conc = [ex.submit(conc, bno, *b) for bno, b in enumerate(batches)]
        f_gen = [(p, ex.submit(gen, p)) for p in P]
        f_sim = ex.submit(follow, c, scripts, "sim")
        f_design = [(p, ex.submit(design, p)) for p in P if p.get("design")]
        f_impl3 = f_impl23 = None
        if not q:
            f_impl23 = ex.submit(lambda: counted(c.tlc("FeatureGate", "FGImplMC", timeout=1500, label="impl2x3", workers=4, count=False, heap="6g",
                                                       cfg_text=impl_cfg.replace("MaxOps = 2", "MaxOps = 3"))))
            f_impl3 = ex.submit(lambda: counted(c.tlc("FeatureGate", "FGImplMC", timeout=1500, label="impl3", workers=4, count=False, heap="6g",
                                                      cfg_text=impl_cfg.replace("Procs = {1, 2}", "Procs = {1, 2, 3}").replace("MaxOps = 2", "MaxOps = 1"))))

        # -------------------------------------------------------------- 2. generated behaviours, replayed (as they arrive)
        for p, f in f_gen:
            r = f.result()
            if not r.ok:
                raise vlib.Inconclusive("generator failed on plan %s: %s %s" % (p["name"], r.error, (r.trace_text or r.out)[-1500:]))
            if r.out.count('<<"BEH", "') != len(r.printed) or not r.printed:
                raise vlib.Inconclusive("generator output of plan %s garbled: %d lines, %d parsed" % (p["name"], r.out.count('<<"BEH", "'), len(r.printed)))
            n = rp.run(p["name"], r.printed)
            if n != nops(p) ** p["n"]:
                raise vlib.Inconclusive("plan %s: %d distinct inputs generated, %d expected" % (p["name"], n, nops(p) ** p["n"]))
            c.log("plan %-10s %6d inputs (%d behaviours, %.1fs TLC) replayed twice: %d mismatches so far" % (
                p["name"], n, len(r.printed), r.wall, rp.reported))
            f_gen[f_gen.index((p, f))] = (p, None)
            del r, f
        c.exhaustive = True

        # -------------------------------------------------------------- 3. long random sequences
        behs = f_sim.result()
        nsim = rp.run("sim", behs)
        c.log("random: %d sequences of %d operations (%d admissible behaviours) replayed twice: %d mismatches so far" % (
            nsim, depth, len(behs), rp.reported))

        # -------------------------------------------------------------- 1. design
        for p, f in f_design:
            r = f.result()
            if not r.ok:
                raise vlib.Inconclusive("TLC design check failed on plan %s: %s\n%s" % (p["name"], r.error, r.trace_text[:3000] or r.out[-3000:]))
            c.log("design %-10s %d registries, %d steps, %.1fs" % (p["name"], r.distinct, r.generated, r.wall))
        for name, f in (("impl", f_impl), ("impl3", f_impl3), ("impl2x3", f_impl23)):
            if f is None:
                continue
            r = f.result()
            if not r.ok:
                raise vlib.Inconclusive("TLC refinement check failed (%s): %s\n%s" % (name, r.error, r.trace_text[:3000] or r.out[-3000:]))
            zero = [k for k, v in r.coverage.items() if v == 0 and k != "R3b"] if name == "impl" else []
            if zero:
                raise vlib.Inconclusive("vacuous: actions never taken in FGImplMC: %s" % zero)
            c.log("implementation-shaped model (%s) refines the specification: %d states, %.1fs" % (name, r.distinct, r.wall))
        r = f_neg.result()
        if r.timed_out or r.ok or not r.error or r.error[0] not in ("invariant", "property"):
            raise vlib.Inconclusive("the refinement check does not refute the Load-then-Store registration (insensitive model): %s" % (r.error,))
        c.extra["load_then_store_variant_refuted_by"] = r.error[1]

        # -------------------------------------------------------------- 4. concurrent histories
        total_rounds = ovl = 0
        for bno, ((rounds, G, K), f) in enumerate(zip(batches, f_conc)):
            tr, ov, ok = f.result()
            c.traces_validated += rounds
            total_rounds += rounds
            ovl += ov
            c.log("concurrent: %d rounds x %d goroutines x %d calls (%d rounds with overlapping calls): %s" % (
                rounds, G, K, ov, "linearisable" if ok else "NOT explained"))
            if bno == 0:
                c.sample(dict(kind="concurrent history (first round)", lines=open(tr).read().splitlines()[:10]))
    if ovl < total_rounds // 50:
        # the machine is so loaded that the goroutines hardly met: once more, now that nothing else of this check is running
        rounds, G, K = batches[0]
        tr, ov, ok = conc(len(batches), rounds, G, K)
        c.traces_validated += rounds
        total_rounds += rounds
        ovl += ov
        c.log("concurrent (repeated, calls had overlapped in < 2%% of the rounds): %d rounds, %d with overlapping calls: %s" % (
            rounds, ov, "linearisable" if ok else "NOT explained"))
    c.extra["concurrent_rounds_with_overlapping_calls"] = ovl

    c.traces_validated += 2 * rp.scripts
    c.evaluations = 2 * rp.scripts + total_rounds
    c.extra.update(scripts=rp.scripts, scripts_with_several_admissible_observations=rp.open_scripts,
                   empty_entry_panics=rp.panics, string_format_drift=rp.drift, concurrent_rounds=total_rounds)
    c.assumptions += [
        "ids, version strings and flag values are drawn from the pools in checks/E02.py (ASCII, no quote / backslash)",
        "documentation silent, every behaviour admitted: O1-O7 of specs/FeatureGate/FeatureGate.tla",
        "error texts and the warning lines Set prints are not compared; errors only as error / ErrAlreadyRegistered / none",
        "VisitAll's gate set under concurrent registration: snapshot reading validated first, weak reading = model drift",
        "the recorded order of a concurrent history is the order of one atomic counter read before and after each call"]
    c.finish_args = dict(
        rule="every sequence of N operations of each plan of checks/E02.py:plans() (operations = Register x ids x stages x version / URL "
             "options, Set x ids x {true,false}, flag values, String round trip) after the plan's prefix, enumerated by TLC with all admissible "
             "outcomes, each replayed through Register and through MustRegister; plus random sequences and concurrent rounds; non-trivial = "
             "the registry is non-empty at some step",
        distinct_nontrivial=rp.nontrivial)
