"""C18 -- memory limiter refuses data exactly while usage is at or above the soft limit.
Spec: specs/MemoryLimiter.  Binding: harness/memlimiter (real memorylimiter.MemoryLimiter, real
memorylimiterprocessor factory + processorhelper wrappers, real memorylimiterextension).

  1. TLC exhaustive design check (MemoryLimiterMC): all clauses of the statement as invariants over every
     history of checks / time advances / start-shutdown interleavings / consume calls, several configurations.
     MemoryLimiterConc: Start/Shutdown at the granularity of the refCounterLock regions + the checker goroutine.
  2. A  TLC enumerates ALL check sequences (first reading x reading after GC) for GC intervals 0 / "very
        large" with the specified refuse/GC decision per step; replayed through CheckMemLimits() and compared.
     B  TLC samples check scripts with finite GC intervals; the driver runs them in real time and records
        readings, decisions and measured instants; TLC validates the traces (MemoryLimiterTrace): the clauses
        are evaluated on the observations, elapsed time known up to the measured interval.
     C  TLC enumerates / samples scripts over start/shutdown/ticker-check/consume (processors created by
        one factory for one config: logs, metrics, traces) and over the extension's check, with the specified
        running flag and consume outcome per step; replayed on the real components and compared.
     D  real concurrency: Shutdown of the last user and Start of another user issued from two goroutines while a
        memory check is held inside ReadMemStatsFn (deterministic choreographies and spin-barrier races, both orders,
        also double shutdown and three users); the recorded call/return/hold/release/observation events are explained
        by TLC with MemoryLimiterConc (unlogged lock acquisitions searched), only executions on which
        RunsWhileLiveUser / StopsAfterLast / NoPanic hold being followed.
"""
import json, os, re, concurrent.futures
import vlib

MIB = 1048576
INF_UNITS = 1000000           # "very large" interval in the untimed specs (MaxT = 5 there)
INF_NS = 3600 * 10**9         # one hour
UNIT_NS = 15 * 10**6          # timed scripts: one spec time unit = 15 ms
T_SOFT, T_HARD = 9, 5         # timed scripts: intervals in units (delays are even, thresholds odd)

FIXED = dict(kind="fixed", limit=4, spike=1, total=0)
PERCENT = dict(kind="percent", limit=3, spike=1, total=200 * MIB)
DEFSPIKE = dict(kind="fixed", limit=5, spike=0, total=0)      # spike unspecified: documented default 20%
# percentage limit with the spike percentage unspecified: the documented default is 20 % OF THE LIMIT, which for limit
# percentages that are not multiples of 5 is not a whole percentage of total memory (48 % -> 9.6 %); totals chosen so that
# every division is exact in the model's unit (1 KiB)
PCTDEF = [dict(kind="percent", limit=48, spike=0, total=1000 * 1024, unit=1024), dict(kind="percent", limit=73, spike=0, total=1000 * 1024, unit=1024),
          dict(kind="percent", limit=99, spike=0, total=1000 * 1024, unit=1024)]
# limits of 4 GiB and more ("every limit/spike configuration accepted by validation"): the model's memory unit is 1 KiB
# (TLC integers have 32 bits), `total` is in units, the driver multiplies readings and total by `unit`
BIG = [dict(kind="fixed", limit=8192, spike=2048, total=0, unit=1024), dict(kind="fixed", limit=6000, spike=500, total=0, unit=1024),
       dict(kind="fixed", limit=4096, spike=1, total=0, unit=1024), dict(kind="fixed", limit=5722, spike=1907, total=0, unit=1024),
       dict(kind="percent", limit=75, spike=25, total=64 * 1024, unit=1048576),               # 64 GiB, unit 1 MiB
       dict(kind="fixed", limit=1048576, spike=4096, total=0, unit=1048576)]               # 1 TiB, unit 1 MiB


def tla_set(xs):
    return "{" + ", ".join(('"%s"' % x) if isinstance(x, str) else str(x) for x in xs) + "}"


def base_consts(cfg, soft, hard, maxt, users):
    return """  CfgKind = "%s"
  CfgLimit = %d
  CfgSpike = %d
  TotalMem = %d
  UnitsPerMiB = %d
  SoftInt = %d
  HardInt = %d
  MaxT = %d
  Users = %s
""" % (cfg["kind"], cfg["limit"], cfg["spike"], cfg["total"], MIB // cfg.get("unit", 1), soft, hard, maxt, tla_set(users))


def mc_cfg(cfg, soft, hard, maxt, users, delays, results, rset):
    return ("SPECIFICATION Spec\nCONSTANTS\n" + base_consts(cfg, soft, hard, maxt, users) +
            "  Delays = %s\n  Results = %s\n  ReadingSet = \"%s\"\n" % (tla_set(delays), tla_set(results), rset) +
            "VIEW View\nINVARIANT Property\nPROPERTY ModeChangesOnlyInCheck\nCHECK_DEADLOCK FALSE\n")


def gen_cfg(cfg, soft, hard, maxt, users, delays, results, rset, mode, n, ext=False, timed=False):
    return ("SPECIFICATION GenSpec\nCONSTANTS\n" + base_consts(cfg, soft, hard, maxt, users) +
            "  Delays = %s\n  Results = %s\n  ReadingSet = \"%s\"\n  Mode = \"%s\"\n  N = %d\n  ExtMode = %s\n  Timed = %s\n"
            % (tla_set(delays), tla_set(results), rset, mode, n, "TRUE" if ext else "FALSE", "TRUE" if timed else "FALSE") +
            "INVARIANT Emit\nINVARIANT Property\nCHECK_DEADLOCK FALSE\n")


def trace_cfg(cfg, soft_us, hard_us):
    return ("SPECIFICATION TSpec\nCONSTANTS\n" + base_consts(cfg, soft_us, hard_us, 1, ["logs"]) +
            "CONSTRAINT HighWater\nINVARIANT RefuseIff\nINVARIANT MeasuredAfterGC\nINVARIANT GCOnlyWhenDue\n"
            "INVARIANT GCWhenDue\nINVARIANT Conforms\nPOSTCONDITION Accepted\nCHECK_DEADLOCK FALSE\n")


def drv_cfg(cfg, soft_ns, hard_ns, **kw):
    d = dict(cfg)
    d.update(soft_ns=soft_ns, hard_ns=hard_ns)
    d.update(kw)
    return d


def write_lines(path, objs):
    with open(path, "w") as fh:
        for o in objs:
            fh.write(json.dumps(o, separators=(",", ":")) + "\n")


def generate(c, label, cfg_text, expect=None, simulate=None, depth=None, seed=None, timeout=900):
    r = c.tlc("MemoryLimiter", "MemoryLimiterGen", cfg_text=cfg_text, workers=1, timeout=timeout, label=label,
              count=False, heap="8g", simulate=simulate, depth=depth, seed=seed)
    if r.timed_out or r.error:
        raise vlib.Inconclusive("generator %s failed: %s %s" % (label, r.error, r.out[-800:]))
    if expect is not None and len(r.printed) != expect:
        raise vlib.Inconclusive("generator %s printed %d behaviours, expected %d" % (label, len(r.printed), expect))
    if not r.printed:
        raise vlib.Inconclusive("generator %s printed nothing" % label)
    return r.printed


def dedupe(behs):
    seen, out = set(), []
    for b in behs:
        k = json.dumps(b, sort_keys=True)
        if k not in seen:
            seen.add(k)
            out.append(b)
    return out


def run_driver(c, binp, mode, dcfg, behs, name, users=(), procs=1, timeout=900):
    """Run the driver on behs (split over procs processes).  Returns merged result dict (checks/wrap) or the
    list of trace file paths (timed)."""
    cfgp = os.path.join(c.work, "cfg_%s.json" % name)
    json.dump(dcfg, open(cfgp, "w"))
    procs = max(1, min(procs, len(behs)))
    chunks = [behs[i::procs] for i in range(procs)]
    jobs = []
    for i, ch in enumerate(chunks):
        inp = os.path.join(c.work, "beh_%s_%d.ndjson" % (name, i))
        out = os.path.join(c.work, "out_%s_%d" % (name, i))
        write_lines(inp, ch)
        jobs.append((inp, out, ch))
    # a forced collection is much cheaper with few Ps (measured: 0.4 ms with GOMAXPROCS=1, several ms with 16 on a
    # loaded machine); the check sequences are single-threaded anyway
    ret_files = mode in ("timed", "timed_like_conc")
    if mode == "timed_like_conc":
        mode = "conc"
    env = dict(os.environ, GOMAXPROCS={"checks": "1", "timed": "4", "conc": "4"}.get(mode, "8"))
    with concurrent.futures.ThreadPoolExecutor(max_workers=procs) as ex:
        futs = [ex.submit(c.run, [binp, mode, cfgp, inp, out] + list(users), timeout, None, None, env)
                for inp, out, _ in jobs]
        for f in futs:
            f.result()
    if ret_files:
        return [(out, ch) for _, out, ch in jobs]
    merged = dict(behaviours=0, steps=0, gcs=0, forced_gcs=0, mismatches=[])
    for _, out, ch in jobs:
        res = json.load(open(out))
        if res["behaviours"] != len(ch):
            raise vlib.Inconclusive("driver replayed %d of %d behaviours (%s)" % (res["behaviours"], len(ch), name))
        for k in ("behaviours", "steps", "gcs", "forced_gcs"):
            merged[k] += res.get(k) or 0
        merged["mismatches"] += res.get("mismatches") or []
    return merged


def describe(m):
    st = m["steps"][m["step"]]
    return "step %d (%s) %s: specified %s, real code %s; script=%s" % (
        m["step"], st["k"], m["field"], m["want"], m["got"],
        [{k: v for k, v in s.items() if k in ("k", "d", "r", "a", "u", "res")} for s in m["steps"][:m["step"] + 1]])


def report(c, res, mode, dcfg, users, what, drift_only=False):
    for m in res["mismatches"][:5]:
        msg = "%s: %s" % (what, describe(m))
        if drift_only:
            c.model_drift(msg)
        else:
            c.violation(msg, replay_obj=dict(mode=mode, cfg=dcfg, users=list(users), steps=m["steps"]))


# ------------------------------------------------------------------------------------------------ timed
def validate_timed(c, binp, cfg, behs, name):
    """Run the scripts in real time, validate the recorded traces with TLC.  Returns #traces accepted."""
    dcfg = drv_cfg(cfg, T_SOFT * UNIT_NS, T_HARD * UNIT_NS, unit_ns=UNIT_NS, par=32)
    (tr, _), = run_driver(c, binp, "timed", dcfg, behs, name, procs=1, timeout=900)
    lines = open(tr).read().splitlines()
    by_sid = {}
    for ln in lines:
        e = json.loads(ln)
        if e["ev"] != "end":
            by_sid.setdefault(e["sid"], []).append(ln)
    if len(by_sid) != len(behs):
        raise vlib.Inconclusive("timed driver recorded %d of %d scripts" % (len(by_sid), len(behs)))
    c.sample(dict(kind="real-time trace validated by TLC (first script)", lines=[json.loads(x) for x in by_sid[0][:4]]))
    tcfg = trace_cfg(cfg, T_SOFT * UNIT_NS // 1000, T_HARD * UNIT_NS // 1000)
    excluded = []
    for attempt in range(6):
        cur = [ln for sid in sorted(by_sid) if sid not in excluded for ln in by_sid[sid]] + ['{"ev":"end"}']
        r = c.tlc("MemoryLimiter", "MemoryLimiterTrace", cfg_text=tcfg, workers=1,
                  files={"observed.ndjson": "\n".join(cur) + "\n"}, timeout=600, label="trace_%s_%d" % (name, attempt),
                  count=False, heap="4g")
        if r.timed_out:
            raise vlib.Inconclusive("trace validation timed out")
        if r.ok:
            return len(by_sid) - len(excluded)
        if r.error and r.error[0] == "invariant":
            sids = re.findall(r"^/\\ sid = (-?\d+)", r.out, re.M)
            if not sids:
                raise vlib.Inconclusive("trace validation: cannot locate the rejected script\n" + r.out[-1500:])
            sid = int(sids[-1])
            clause = r.error[1]
            evs = [json.loads(x) for x in by_sid[sid]]
            c.violation("real-time check script: clause %s is false on the observations of the real limiter "
                        "(soft interval %d us, hard interval %d us): %s" % (
                            clause, T_SOFT * UNIT_NS // 1000, T_HARD * UNIT_NS // 1000,
                            [{k: e[k] for k in ("r", "a", "reads", "gcs", "t1", "te", "refuse")} for e in evs[1:]]),
                        replay_obj=dict(mode="timed", cfg=cfg, steps=behs[sid], clause=clause, observed=evs))
            excluded.append(sid)
            continue
        raise vlib.Inconclusive("trace validation failed without a verdict: %s" % r.out[-1500:])
    return len(by_sid) - len(excluded)



# ------------------------------------------------------------------------------------------------ concurrent
CONC_USERS = ["logs", "metrics", "traces"]
CLAUSES = {"runs": "RunsWhileLiveUser", "stops": "StopsAfterLast", "nopanic": "NoPanic"}


def conc_mc_cfg(styles):
    return ("SPECIFICATION CSpec\nCONSTANTS\n  Users = {\"A\", \"B\", \"C\"}\n  WaitStyles = %s\n"
            "INVARIANT RunsWhileLiveUser\nINVARIANT StopsAfterLast\nINVARIANT NoPanic\nINVARIANT RefCountIsUsers\n"
            "CHECK_DEADLOCK FALSE\n" % tla_set(styles))


def conc_trace_cfg(styles, clauses):
    return ("SPECIFICATION TSpec\nCONSTANTS\n  Users = %s\n  WaitStyles = %s\n  Clauses = %s\n"
            "CONSTRAINT Follow\nPOSTCONDITION Accepted\nCHECK_DEADLOCK FALSE\n" % (
                tla_set(CONC_USERS), tla_set(styles), tla_set(clauses)))


def conc_scripts(q):
    """The concurrent start/shutdown choreographies (users L, M, T share one limiter)."""
    L, M, T = CONC_USERS
    st = lambda u: dict(k="start", u=u)
    sd = lambda u: dict(k="shutdown", u=u)
    H, R, J, O = dict(k="hold"), dict(k="release"), dict(k="join"), dict(k="obs")

    def par(mode, ops, w):
        return dict(k="par", mode=mode, wait_ms=w, ops=[dict(op=o, u=u) for o, u in ops])
    out = []
    for w in ([100] if q else [100, 300]):
        # Start of another user while the last user's Shutdown waits for a held check (and the other order)
        out.append([st(L), H, par("choreo", [("shutdown", L), ("start", M)], w), R, J, O, sd(M), O])
        out.append([st(L), H, par("choreo", [("start", M), ("shutdown", L)], w), R, J, O, sd(M), O])
        out.append([st(L), H, par("choreo", [("shutdown", L), ("start", M), ("start", T)], w), R, J, O, sd(M), O, sd(T), O])
        out.append([st(L), st(M), H, par("choreo", [("shutdown", L), ("shutdown", M), ("start", T)], w), R, J, O, sd(T), O])
        out.append([st(L), H, par("choreo", [("shutdown", L), ("start", M)], w), R, J, O, st(T), O, sd(M), O, sd(T), O])
    for rep in range(2 if q else 10):
        for ops in ([("shutdown", L), ("start", M)], [("start", M), ("shutdown", L)]):
            out.append([st(L), H, par("barrier", ops, 30), R, J, O, sd(M), O])                 # race, check held
            out.append([st(L), par("barrier", ops, 5), J, O, sd(M), O])                        # race, checker idle
        for ops in ([("shutdown", L), ("shutdown", M)], [("shutdown", M), ("shutdown", L)]):
            out.append([st(L), st(M), H, par("barrier", ops, 30), R, J, O])
        out.append([st(L), st(M), H, par("barrier", [("shutdown", L), ("start", T), ("shutdown", M)], 30), R, J, O, sd(T), O])
    return [dict(steps=x) for x in out]


def conc_record(c, binp, scripts, name, procs=16):
    """Run the scripts (split over processes: the goroutine dump is process wide).  Returns {sid: [lines]}."""
    dcfg = drv_cfg(FIXED, INF_NS, INF_NS, check_ns=10**6)
    res = run_driver(c, binp, "timed_like_conc", dcfg, scripts, name, users=CONC_USERS, procs=procs, timeout=900)
    by_sid = {}
    nxt = 0
    for out, chunk in res:
        local = {}
        for ln in open(out).read().splitlines():
            e = json.loads(ln)
            if e["ev"] == "end":
                continue
            if e["ev"] == "reset":
                cur = e["sid"]
            local.setdefault(cur, []).append(e)
        if len(local) != len(chunk):
            raise vlib.Inconclusive("conc driver recorded %d of %d scripts" % (len(local), len(chunk)))
        for k in sorted(local):
            evs = local[k]
            evs[0]["sid"] = nxt
            by_sid[nxt] = (chunk[k], evs)
            nxt += 1
    return by_sid


def conc_judge(c, by_sid, styles, clauses, label):
    """TLC looks for an execution explaining every trace.  Returns the sids it could not explain."""
    rejected = []
    for attempt in range(len(by_sid) + 1):
        keep = [sid for sid in sorted(by_sid) if sid not in rejected]
        if not keep:
            return rejected
        lines, owner = [], []
        for sid in keep:
            for e in by_sid[sid][1]:
                lines.append(json.dumps(e, separators=(",", ":")))
                owner.append(sid)
        lines.append('{"ev":"end"}')
        r = c.tlc("MemoryLimiter", "MemoryLimiterConcTrace", cfg_text=conc_trace_cfg(styles, clauses), workers=1, dfs=True,
                  files={"observed.ndjson": "\n".join(lines) + "\n"}, timeout=600, label="%s_%d" % (label, attempt),
                  count=False, heap="4g")
        if r.timed_out:
            raise vlib.Inconclusive("concurrent trace validation timed out")
        if r.ok:
            return rejected
        m = re.search(r'"REJECTED_AT", (\d+), (\d+)', r.out)
        if not m:
            raise vlib.Inconclusive("concurrent trace validation failed without a verdict: %s" % r.out[-1500:])
        at = int(m.group(1))
        rejected.append(owner[min(at, len(owner)) - 1])
    return rejected


def validate_conc(c, binp, scripts, name, confirm=True):
    by_sid = conc_record(c, binp, scripts, name)
    c.sample(dict(kind="concurrent start/shutdown trace explained by TLC", script=by_sid[0][0], trace=by_sid[0][1]))
    both = ["locked", "unlocked"]
    bad = conc_judge(c, by_sid, both, list(CLAUSES), "conc_mon_" + name)
    for sid in bad:
        script, evs = by_sid[sid]
        one = {0: (script, [dict(e, sid=0) if e["ev"] == "reset" else e for e in evs])}
        if conc_judge(c, one, both, [], "conc_any_%s_%d" % (name, sid)):
            c.model_drift("concurrent trace not explainable by the lock-region model even without the statement's clauses: %s" % evs)
            continue
        failing = []
        if len(c.violations) < 2:       # name the clauses for the first reports only (one small TLC run per clause)
            failing = [CLAUSES[k] for k in CLAUSES if conc_judge(c, one, both, [k], "conc_%s_%s_%d" % (k, name, sid))]
        what = ("no execution of the lock-region model on which the statement holds explains the real run "
                "(clauses that cannot hold: %s): %s" % (", ".join(failing) or "not analysed / only jointly", evs))
        if confirm and not c.violations:    # once one rejection is confirmed the rest is reported as observed
            again = conc_record(c, binp, [script, script], "%s_confirm%d" % (name, sid), procs=2)
            if not conc_judge(c, again, both, list(CLAUSES), "conc_confirm_%s_%d" % (name, sid)):
                c.log("unconfirmed rejection of concurrent script %d (not repeated in 2 re-runs)" % sid)
                c.extra.setdefault("unconfirmed_rejections", []).append(dict(script=script, observed=evs))
                continue
        c.violation(what, replay_obj=dict(mode="conc", steps=script, observed=evs))
    good = {sid: v for sid, v in by_sid.items() if sid not in bad}
    for sid in conc_judge(c, good, ["locked"], [], "conc_strict_" + name):
        c.model_drift("concurrent trace needs a Start/Shutdown inside another Shutdown's wait (lock not held across the wait): %s"
                      % good[sid][1])
    return len(good)


# ------------------------------------------------------------------------------------------------ main
def run(c):
    q = c.quick()
    total = 0
    nontrivial = 0

    if c.replay:
        rp = json.load(open(c.replay))["replay"]
        binp = c.go_build("memlimiter", pkg="./cmd")
        # a minimal design run keeps the evidence well-formed
        c.tlc_must_pass("MemoryLimiter", "MemoryLimiterMC",
                        cfg_text=mc_cfg(FIXED, 3, 1, 5, ["logs"], [1, 2], ["ok"], "small"), timeout=300, label="design")
        if rp["mode"] == "conc":
            total += validate_conc(c, binp, [rp["steps"]] * 2, "replay", confirm=False)
        elif rp["mode"] == "timed":
            total += validate_timed(c, binp, rp["cfg"], [rp["steps"]], "replay")
        else:
            res = run_driver(c, binp, rp["mode"], rp["cfg"], [rp["steps"]], "replay", users=rp.get("users", ()))
            report(c, res, rp["mode"], rp["cfg"], rp.get("users", ()), "replayed script")
            total += 1
        c.traces_validated = total
        return

    # ---------------------------------------------------------------- 1. design
    U2, U3 = ["logs", "profiles"], ["logs", "metrics", "traces"]     # every signal of the processor is some user
    R3 = ["ok", "err", "perm"]
    if q:
        designs = [("fixed", mc_cfg(FIXED, 3, 1, 5, U2, [1, 2], R3, "small")),
                   ("percent", mc_cfg(PERCENT, INF_UNITS, 0, 5, ["logs"], [1, 2], ["ok", "err"], "small")),
                   ("defspike", mc_cfg(DEFSPIKE, 0, 0, 3, ["ext"], [1], ["ok"], "full"))]
    else:
        designs = [("fixed", mc_cfg(FIXED, 3, 1, 5, U3, [1, 2], R3, "full")),
                   ("fixed_inf", mc_cfg(FIXED, INF_UNITS, 2, 5, U2, [1, 2, 3], R3, "small")),
                   ("percent", mc_cfg(PERCENT, 4, 0, 6, U2, [1, 2, 3], R3, "small")),
                   ("defspike", mc_cfg(DEFSPIKE, 2, 2, 4, U2, [1, 2], R3, "full"))]
    for name, txt in designs:
        r = c.tlc_must_pass("MemoryLimiter", "MemoryLimiterMC", cfg_text=txt, coverage=True, timeout=1200,
                            label="design_" + name)
        c.log("design %s: %d distinct / %d generated states, %.1fs" % (name, r.distinct, r.generated, r.wall))

    # lock-region model of Start/Shutdown: holds with the code's locking; with the lock released around the wait TLC
    # must find the Start-inside-the-last-Shutdown's-wait interleaving (control that the model reaches it)
    r = c.tlc_must_pass("MemoryLimiter", "MemoryLimiterConcMC", cfg_text=conc_mc_cfg(["locked"]), coverage=True, timeout=300,
                        label="design_conc", vacuous_ok=("HoldCheck", "Release") if False else ())
    c.log("design conc: %d distinct / %d generated states" % (r.distinct, r.generated))
    r = c.tlc("MemoryLimiter", "MemoryLimiterConcMC", cfg_text=conc_mc_cfg(["locked", "unlocked"]), timeout=300,
              label="design_conc_control", count=False)
    if r.timed_out or not r.error or r.error[0] != "invariant":
        raise vlib.Inconclusive("control: the lock-region model does not reach the Start-during-wait interleaving: %s" % (r.error,))
    c.extra["conc_control"] = "unlocked wait: TLC finds %s violated" % r.error[1]

    binp = c.go_build("memlimiter", pkg="./cmd")

    # ---------------------------------------------------------------- 2A. exhaustive check sequences
    # (cfg, soft, hard, reading set, N, expected count, drift_only)
    if q:
        plan = [(FIXED, 0, 0, "small", 3, 13 ** 3, False),
                (FIXED, INF_UNITS, 0, "small", 4, 7 ** 4, False),
                (FIXED, INF_UNITS, INF_UNITS, "small", 5, 4 ** 5, False),
                (PERCENT, 0, 0, "classes", 4, 7 ** 4, False),
                (PERCENT, INF_UNITS, 0, "full", 3, None, False),
                (DEFSPIKE, 0, 0, "classes", 3, 7 ** 3, False)]
        plan += [(b, 0, 0, "small", 3, 13 ** 3, False) for b in PCTDEF[:2]]
        plan += [(b, 0, 0, "small", 3, 13 ** 3, False) for b in BIG[:4]] + [(BIG[4], INF_UNITS, 0, "small", 3, 7 ** 3, False),
                                                                             (BIG[5], 0, 0, "classes", 3, 7 ** 3, False)]
        procs = 4
    else:
        plan = [(FIXED, 0, 0, "small", 5, 13 ** 5, False),
                (FIXED, 0, 0, "full", 3, 37 ** 3, False),
                (FIXED, INF_UNITS, 0, "small", 6, 7 ** 6, False),
                (FIXED, INF_UNITS, 0, "full", 4, None, False),
                (FIXED, INF_UNITS, INF_UNITS, "full", 5, 7 ** 5, False),
                (PERCENT, 0, 0, "small", 4, 13 ** 4, False),
                (PERCENT, INF_UNITS, 0, "full", 4, None, False),
                (DEFSPIKE, 0, 0, "small", 4, 13 ** 4, False),
                (DEFSPIKE, INF_UNITS, 0, "full", 3, None, False)]
        plan += [(b, 0, 0, "small", 4, 13 ** 4, False) for b in PCTDEF] + [(b, INF_UNITS, 0, "full", 3, None, False) for b in PCTDEF]
        plan += [(b, 0, 0, "small", 4, 13 ** 4, False) for b in BIG] + [(b, INF_UNITS, 0, "full", 3, None, False) for b in BIG]
        procs = 8
    for cfg, soft, hard, rset, n, expect, drift_only in plan:
        name = "A_%s_%s_%s_%s%d" % (cfg["kind"] + str(cfg["limit"]) + "_" + str(cfg["spike"]), "inf" if soft else "0", "inf" if hard else "0", rset, n)
        behs = generate(c, "gen" + name, gen_cfg(cfg, soft, hard, 5, ["logs"], [1], ["ok"], rset, "checks", n), expect)
        dcfg = drv_cfg(cfg, INF_NS if soft else 0, INF_NS if hard else 0)
        res = run_driver(c, binp, "checks", dcfg, behs, name, procs=procs, timeout=1500)
        report(c, res, "checks", dcfg, (), "check sequence, %s limit=%d spike=%d, GC intervals soft=%s hard=%s" % (
            cfg["kind"], cfg["limit"], cfg["spike"], "huge" if soft else "0", "huge" if hard else "0"), drift_only)
        total += len(behs)
        nontrivial += sum(1 for b in behs if len({s["refuse"] for s in b}) == 2 or any(s["gc"] for s in b))
        c.sample(dict(kind="replayed check sequence (%s)" % name, steps=behs[len(behs) // 2]))
        c.log("A %s: replayed %d sequences, %d steps, %d forced GCs, %d mismatches" % (
            name, len(behs), res["steps"], res["gcs"], len(res["mismatches"])))
    c.exhaustive = True

    # ---------------------------------------------------------------- 2B. real-time scripts, TLC trace validation
    nB = 150 if q else 1200
    nval = 0
    for bi, cfg in enumerate([FIXED] if q else [FIXED, PERCENT]):
        pool = []
        for s in range(1 if q else 3):
            pool += generate(c, "genB%d_%d" % (bi, s),
                             gen_cfg(cfg, T_SOFT, T_HARD, 40, ["logs"], [2, 4, 6], ["ok"], "classes", "checks", 6, timed=True),
                             simulate="num=%d" % (200 if q else 600), depth=8, seed=c.seed * 100 + bi * 10 + s)
        pool = dedupe(pool)
        behs = c.rng.sample(pool, min(nB, len(pool)))
        n = validate_timed(c, binp, cfg, behs, "B%d" % bi)
        nval += n
        c.log("B %s: %d real-time scripts recorded, %d traces accepted by TLC" % (cfg["kind"], len(behs), n))
    total += nval

    # ---------------------------------------------------------------- 2C. wrappers and reference counting
    wcfg = drv_cfg(FIXED, INF_NS, INF_NS, check_ns=10**6, par=32)
    sets = []
    behs = generate(c, "genC_exh", gen_cfg(FIXED, INF_UNITS, INF_UNITS, 5, U3, [1], R3, "classes", "wrap", 3 if q else 4))
    sets.append(("C_exh", behs, U3, wcfg))
    pool = []
    for s in range(1 if q else 4):
        pool += generate(c, "genC_sim%d" % s,
                         gen_cfg(FIXED, INF_UNITS, INF_UNITS, 5, U3, [1], ["ok", "err"], "classes", "wrap", 12),
                         simulate="num=%d" % (60 if q else 300), depth=14, seed=c.seed * 100 + 50 + s)
    pool = dedupe(pool)
    sets.append(("C_sim", c.rng.sample(pool, min(300 if q else 3000, len(pool))), U3, wcfg))
    # two users, deeper, complete lifecycles
    behs = generate(c, "genC_two", gen_cfg(PERCENT, INF_UNITS, INF_UNITS, 5, U2, [1], ["ok"], "classes", "wrap", 4 if q else 6))
    sets.append(("C_two", behs, U2, drv_cfg(PERCENT, INF_NS, INF_NS, check_ns=10**6, par=32)))
    # the extension
    behs = generate(c, "genC_ext", gen_cfg(FIXED, INF_UNITS, INF_UNITS, 5, ["ext"], [1], ["ok"], "small", "wrap", 5 if q else 7, ext=True))
    sets.append(("C_ext", behs, ["ext"], drv_cfg(FIXED, INF_NS, INF_NS, check_ns=10**6, par=32, ext=True)))
    for name, behs, users, dcfg in sets:
        res = run_driver(c, binp, "wrap", dcfg, behs, name, users=users, procs=1, timeout=1500)
        report(c, res, "wrap", dcfg, users, "wrapper/lifecycle script (%s)" % name)
        if res["forced_gcs"]:
            c.violation("%d forced collections although both minimum GC intervals are one hour (%s)" % (res["forced_gcs"], name),
                        replay_obj=dict(mode="wrap", cfg=dcfg, users=users, steps=behs[0]))
        total += len(behs)
        nontrivial += sum(1 for b in behs if any(s["k"] in ("consume", "ext") for s in b) and any(s["k"] == "tcheck" for s in b))
        c.sample(dict(kind="replayed wrapper script (%s)" % name, steps=behs[len(behs) // 2]))
        c.log("%s: replayed %d scripts, %d steps, %d mismatches" % (name, len(behs), res["steps"], len(res["mismatches"])))

    # ---------------------------------------------------------------- 2D. concurrent start/shutdown, TLC explains
    scripts = conc_scripts(q)
    nconc = validate_conc(c, binp, scripts, "D")
    total += nconc
    nontrivial += nconc
    c.log("D: %d concurrent start/shutdown runs recorded, %d explained by TLC (statement clauses enforced)" % (len(scripts), nconc))

    c.traces_validated = total
    c.evaluations = total
    c.extra["timed_traces_validated_by_tlc"] = nval
    c.extra["concurrent_traces_validated_by_tlc"] = nconc
    c.assumptions += [
        "readings are injected through the exported memorylimiter.ReadMemStatsFn; a forced collection is observed through "
        "the Go runtime's forced-GC cycle counter and through the re-measurement",
        "elapsed time: intervals 0 / one hour in the exhaustive part; finite intervals are validated against measured "
        "instants (a decision is accepted iff consistent with some clock reading in the measured interval)",
        "spike limit unspecified = 20% of the limit, the documented default (processor README, config doc comments), also for percentage limits that are not multiples of 5",
        "users of a shared limiter are started and shut down at most once each; no restart after the last shutdown",
        "profiles signal of the processor not driven"]
    c.finish_args = dict(rule="A: every sequence of N checks over the stated reading set (first reading x reading after GC when "
                              "a collection is specified) for GC intervals in {0, 1h}; B: sampled real-time scripts; C: every "
                              "script of the stated length over start/shutdown/ticker-check/consume/ext plus sampled longer ones. "
                              "non-trivial = mode changes or a GC happens (A), a consume/ext after a ticker check (C)",
                         distinct_nontrivial=nontrivial)
