"""E08 -- client metadata end to end: request headers -> client.Metadata behind the receiver -> batches keyed by metadata.   (EXTRA specification)

Record in the form of properties.jsonl (no listed property is concerned; derived from the doc comments of client/client.go,
config/confighttp + config/configgrpc (ServerConfig.IncludeMetadata, README), processor/batchprocessor (config.go doc comments,
README "Batching and client metadata") and the consumer contract):

  title       Client metadata survives the network hop unchanged and keys the batches of the batch processor
  statement   For export requests sent over real loopback HTTP (protobuf and JSON bodies) and gRPC to an otlpreceiver, each
              carrying header lines / metadata pairs chosen by the client:
              (a) with include_metadata = true the receiver's next consumer finds in client.FromContext(ctx).Metadata, for every
                  key the client sent, exactly the values sent under that key -- names compared case-insensitively (Get("x-tenant"),
                  Get("X-Tenant"), Get("X-TENANT") agree and collect the lines written in any spelling), repeated values in the order
                  written, an empty value is a value ([""] is not "nothing"), a value containing a comma is ONE value, values keep
                  their case -- and nothing for a key nobody sent; Keys() covers every key sent; the slice returned by Get is a copy
                  (overwriting it changes nothing: "Metadata is an immutable map", "returning a copy"); with include_metadata = false
                  it finds no metadata at all; in both cases client.Info.Addr is set;
              (b) behind a batch processor configured with metadata_keys (entries case-insensitive): no exported batch holds items of
                  two requests whose value LISTS for the configured keys differ ("one batcher per distinct combination of values",
                  "empty value and unset metadata are treated as distinct cases"); the context of every exported batch carries, for
                  every configured key, exactly the values of the batch's group, and no other metadata (Get of any other name is
                  empty, Keys() yields configured keys only; the returned slices are copies); every item of every accepted request
                  is exported exactly once by the time the processor's Shutdown returns and nothing afterwards; with
                  metadata_cardinality_limit = L > 0 a request whose combination would be the (L+1)-th distinct one is answered with
                  a failure and none of its items is ever exported, while requests of combinations that already own a batcher (and
                  new ones while fewer than L exist) keep being accepted; without metadata_keys every request is accepted, batches
                  may mix anything and their context carries no metadata.
  quantifier  scripts = configuration x sequence of 1-4 requests (sequential), each request: transport grpc | http/proto | http/json,
              1-3 log records, header list assembled from a tenant part (none; a; a + b in two spellings; "a,b"; ""; b + a; A;
              a + a; a + b + ""), an env part (none; ""; a; a + b) and a part the processor is never configured for, in three line
              orders (also with the lines of one key not adjacent); names in 3 spellings (x-tenant / X-Tenant / X-TENANT);
              include_metadata on / off; metadata_keys none / {X-Tenant} / {x-env, X-TENANT}; metadata_cardinality_limit 0 / 2;
              (send_batch_size, send_batch_max_size) in (4,0) (2,2) (0,0) (3,4) (0,2) (1,1) (6,0): merging and splitting inside a group
  anchors     client/client.go (Info, Metadata, NewMetadata, Get, Keys, FromContext, NewContext), config/confighttp/clientinfohandler.go
              (clientInfoHandler, contextWithClient) + confighttp.go (ServerConfig.IncludeMetadata, ToServer), config/configgrpc/
              configgrpc.go (ServerConfig.IncludeMetadata, enhanceWithClientInformation, contextWithClient), receiver/otlpreceiver
              (otlp.go, otlphttp.go, internal/logs, internal/errors), processor/batchprocessor/batch_processor.go
              (multiShardBatcher.consume, newShard, shard.exportCtx, errTooManyBatchers, singleShardBatcher) + config.go + README.md

Left OPEN because the documentation is silent (the monitor accepts every behaviour there; the implementation-shaped model does what
the code does, a divergence there is MODEL-DRIFT, not a finding):
  O1  which other keys the receiver-side metadata holds (content-type, user-agent, :authority, grpc-accept-encoding, the undocumented
      "Host" entry both interceptors add) and the spelling Keys() reports;
  O2  metadata_cardinality_limit = 0 together with metadata_keys (literally "maximum number of batcher instances" = 0; the code
      treats 0 as "no limit"; README only gives the default 1000): accepting and refusing both pass;
  O3  the status by which a refusal is reported (the code: permanent error -> gRPC INTERNAL / HTTP 500): only "not a success";
  O4  how the items of ONE group are cut into batches, order of the batches of different groups, empty batches (C17's business);
  O5  whether the context of an exported batch has Addr / Auth, whether Keys() lists a configured key that is unset in the group;
  O6  keys that collide after case folding inside one map given to client.NewMetadata (Go map order decides; not reachable through
      the transports: the model's ASSUME HopNormalises shows both normalise the spelling first);
  O7  whether NewMetadata copies the value slices of its input (it copies the map only; every producer on this path hands it a
      private copy), names with leading / trailing blanks, non-ASCII values, the reserved names of the transports ("host" is
      discarded by grpc-go when :authority is present).

Technique (BUILDER-GUIDE): specs/ClientMetadata
  0. tables: the case mappings of ClientMetaTables.tla, printed by TLC, against strings.ToLower / textproto.CanonicalMIMEHeaderKey.
  1. TLC exhaustive design checks of the implementation-shaped model ClientMetadata.tla (ClientMetaMC: shape "hop" = every header
     list up to a length over names x values x transports; shape "batch" = request sequences x every interleaving of the request
     handler with the shard goroutines and the shutdown): every clause of ClientMetaObs.tla on the model's observation record,
     deadlock freedom, implementation facts.  Two NEGATIVE runs (Variant "joined" = seeded change C17-4, "nofold") must be refuted.
  2. TLC generates scripts (ClientMetaGen: exhaustive families + random simulation), harness/clientmeta realises them against the REAL
     otlpreceiver (gRPC + HTTP servers on loopback) -> capturing consumer -> REAL batch processor -> recording sink.
  3. TLC (ClientMetaMonitor) evaluates the statement's clauses on every real observation: the only source of a finding.  The model's
     own prediction (answers; per shard the sequence of batches) is compared for MODEL-DRIFT.
"""
import json, os
from concurrent.futures import ThreadPoolExecutor
import vlib

SPEC = "ClientMetadata"

# ---- parts of header lists (sequences of (name, value)) -------------------------------------------------------------------
T_ALL = [[], [("x-tenant", "a")], [("X-Tenant", "a"), ("x-tenant", "b")], [("X-TENANT", "a,b")], [("x-tenant", "")],
         [("x-tenant", "b"), ("X-TENANT", "a")], [("X-Tenant", "A")], [("x-tenant", "a"), ("x-tenant", "a")],
         [("X-Tenant", "a"), ("x-tenant", "b"), ("X-TENANT", "")]]
E_ALL = [[], [("X-Env", "")], [("x-env", "a")], [("x-env", "a"), ("X-Env", "b")]]
O_ALL = [[], [("x-other", "b")]]
TRS = ["grpc", "http/proto", "http/json"]
KEYSETS = [[], ["X-Tenant"], ["x-env", "X-TENANT"]]
SIZES = [(4, 0), (2, 2), (0, 0), (3, 4), (0, 2), (1, 1), (6, 0)]


def tla_str(s):
    return '"%s"' % s


def tla_part(p):
    return "<< " + ", ".join("<<%s, %s>>" % (tla_str(n), tla_str(v)) for n, v in p) + " >>" if p else "<<>>"


def tla_set(xs):
    return "{ " + ", ".join(xs) + " }"


def gen_params(T, E, O, ords, trs, items, confs, lo, hi, same_tr):
    confs_t = ["<<%s, %s, %d, %d, %d>>" % ("TRUE" if inc else "FALSE", tla_set(tla_str(k) for k in keys), lim, size, mx)
               for inc, keys, lim, size, mx in confs]
    return """------------------------- MODULE ClientMetaGenParams -------------------------
ParamT       == %s
ParamE       == %s
ParamO       == %s
ParamOrd     == %s
ParamTr      == %s
ParamItems   == %s
ParamConfigs == %s
ParamMinReqs == %d
ParamMaxReqs == %d
ParamSameTr  == %s
=============================================================================
""" % (tla_set(map(tla_part, T)), tla_set(map(tla_part, E)), tla_set(map(tla_part, O)), tla_set(map(tla_str, ords)),
       tla_set(map(tla_str, trs)), tla_set(map(str, items)), tla_set(confs_t), lo, hi, "TRUE" if same_tr else "FALSE")


def assemble(order, t, e, o):
    if order == "teo":
        return tuple(t + e + o)
    if order == "oet":
        return tuple(o + e + t)
    return tuple(e + o) if not t else tuple(t[:1] + e + o + t[1:])


def expected_count(T, E, O, ords, trs, items, confs, lo, hi, same_tr):
    """number of scripts of an exhaustive family (same construction as ClientMetaGen!Assemble; a sanity check only)"""
    lists = {assemble(o_, t, e, o) for o_ in ords for t in T for e in E for o in O}
    per_req = len(lists) * len(items)
    total = 0
    for n in range(lo, hi + 1):
        total += (len(trs) if same_tr else len(trs) ** n) * per_req ** n
    return total * len(confs)


GEN_CFG = """SPECIFICATION GenSpec
CONSTANTS
  Configs <- GConfigs
  ReqPool = {}
  MinReqs <- ParamMinReqs
  MaxReqs <- ParamMaxReqs
  Variant = "real"
INVARIANT Emit
INVARIANT GenStatement
CHECK_DEADLOCK FALSE
"""


def mc_cfg(shape, depth, hoplen, lo, hi, variant="real", confsel="all"):
    return """SPECIFICATION Spec
CONSTANTS
  Shape = "%s"
  Depth = "%s"
  HopLen = %d
  ConfSel = "%s"
  MinReqs = %d
  MaxReqs = %d
  Variant = "%s"
  Configs <- MCConfigs
  ReqPool <- MCPool
INVARIANTS Statement ShardsWithinLimit QuiescentBelowSize NothingLeftBehind OrderListsShards
CHECK_DEADLOCK TRUE
""" % (shape, depth, hoplen, confsel, lo, hi, variant)


def valid_conf(cf):
    inc, keys, lim, size, mx = cf
    return (mx == 0 or mx >= size) and (keys or lim == 0)


def families(c):
    """(label, params, simulate) -- what is generated per tier"""
    q = c.quick()
    fams = []
    keyed2 = ["x-env", "X-TENANT"]
    # F1 one request: every header list (tenant x env x other x line order) x transport, include on / off, split inside the request
    fams.append(("hop", dict(T=T_ALL, E=E_ALL if not q else [E_ALL[0], E_ALL[1], E_ALL[3]], O=O_ALL,
                             ords=["teo", "split"] if q else ["teo", "oet", "split"], trs=TRS, items=[3],
                             confs=[(True, keyed2, 0, 2, 2), (False, keyed2, 0, 2, 2)], lo=1, hi=1, same_tr=True), None))
    # F2 two requests: every ordered pair of tenant parts, merged into one batch unless the groups differ
    fams.append(("pairs", dict(T=T_ALL, E=[[]], O=[[]], ords=["teo"], trs=TRS, items=[2],
                               confs=[(True, ["X-Tenant"], 0, 6, 0), (True, keyed2, 0, 3, 4)], lo=2, hi=2, same_tr=q), None))
    # F4 cardinality limit: every sequence of tenant parts, limit 2
    fams.append(("limit", dict(T=T_ALL[:4] if q else T_ALL[:5], E=[[]], O=[[]], ords=["teo"], trs=TRS, items=[1],
                               confs=[(True, ["X-Tenant"], 2, 4, 0), (True, ["X-Tenant"], 2, 0, 0)], lo=3 if q else 4, hi=3 if q else 4,
                               same_tr=True), None))
    # F3 random scripts over everything
    confs = [cf for cf in ((inc, keys, lim, s, m) for inc in (True, False) for keys in KEYSETS for lim in (0, 2) for s, m in SIZES)
             if valid_conf(cf)]
    nsim = c.pick(1500, 20000)
    per = c.pick(500, 2500)
    k = 0
    while k * per < nsim:
        fams.append(("sim%d" % k, dict(T=T_ALL, E=E_ALL, O=O_ALL, ords=["teo", "oet", "split"], trs=TRS, items=[1, 2, 3], confs=confs,
                                       lo=2, hi=4, same_tr=False), (min(per, nsim - k * per), c.seed * 100 + k)))
        k += 1
    return fams


def generate(c, label, params, simulate):
    r = c.tlc(SPEC, "ClientMetaGen", cfg_text=GEN_CFG, workers=1, timeout=900, count=False, label="gen_" + label,
              files={"ClientMetaGenParams.tla": gen_params(**params)},
              simulate=("num=%d" % simulate[0]) if simulate else None, depth=80 if simulate else None,
              seed=simulate[1] if simulate else None, heap="6g")
    if r.error or r.timed_out:
        raise vlib.Inconclusive("generator %s failed: %s %s" % (label, r.error, (r.trace_text or r.out)[-1500:]))
    seen, out = set(), []
    for b in r.printed:
        key = json.dumps([b["conf"], b["reqs"]], sort_keys=True)
        if key not in seen:
            seen.add(key)
            out.append(b)
    if not simulate:
        want = expected_count(**params)
        if len(out) != want:
            raise vlib.Inconclusive("generator %s printed %d scripts, expected %d" % (label, len(out), want))
    elif len(out) < simulate[0] // 2:
        raise vlib.Inconclusive("generator %s printed only %d scripts" % (label, len(out)))
    return label, out


def group_batches_exp(exp):
    g = {}
    for b in exp["batches"]:
        g.setdefault(b["g"], []).append(tuple(map(tuple, b["items"])))
    return sorted(tuple(v) for v in g.values())


def group_batches_obs(obs):
    g = {}
    for b in obs["batches"]:
        g.setdefault(json.dumps(b["get"]), []).append(tuple(map(tuple, b["items"])))
    return sorted(tuple(v) for v in g.values())


def run(c):
    q = c.quick()
    pool = ThreadPoolExecutor(max_workers=6)        # generators, monitors
    mcpool = ThreadPoolExecutor(max_workers=8)      # design checks: started first, collected last

    # ---- 0. tables ---------------------------------------------------------------------------------------------------------
    lib = c.tlc(SPEC, "ClientMetaTablesLib", cfg_text="INIT LibInit\nNEXT LibNext\nINVARIANT LibEmit\nCHECK_DEADLOCK FALSE\n", workers=1,
                timeout=300, count=False, label="tables", tag="LIB")
    if not lib.printed:
        raise vlib.Inconclusive("could not obtain the tables from TLC: %s" % lib.out[-800:])
    tables = lib.printed[0]
    if not tables["wellformed"]:
        raise vlib.Inconclusive("ClientMetaTables: TablesWellFormed is false")

    # ---- 1. design checks (in the background) --------------------------------------------------------------------------------
    mc_jobs = []
    if c.replay:
        mc_jobs.append(("mc_cov", None, mcpool.submit(c.tlc, SPEC, "ClientMetaMC", cfg_text=mc_cfg("batch", "deep", 2, 1, 2), workers=2,
                                                     timeout=900, label="mc_cov", coverage=True, heap="4g")))
    else:
        wk = max(2, min(6, vlib.NCPU // 3))
        runs = [("mc_hop", mc_cfg("hop", "quick" if q else "full", 2 if q else 3, 1, 1), wk, None),
                ("mc_batch2", mc_cfg("batch", "quick" if q else "full", 2, 1, 2), wk if q else 8, None),
                ("mc_deep3", mc_cfg("batch", "deep", 2, 1, 3, confsel="limit" if q else "all"), wk, None),
                ("mc_cov", mc_cfg("batch", "deep", 2, 1, 2), 2, None),        # small, with action coverage (vacuity)
                ("neg_joined", mc_cfg("batch", "deep", 2, 1, 2, variant="joined", confsel="limit"), 1, "joined"),
                ("neg_nofold", mc_cfg("hop", "quick", 1, 1, 1, variant="nofold"), 1, "nofold")]
        if not q:
            runs.append(("mc_deep4_limit", mc_cfg("batch", "deep", 2, 1, 4, confsel="limit"), wk, None))
        for label, cfg, workers, neg in runs:
            mc_jobs.append((label, neg, mcpool.submit(c.tlc, SPEC, "ClientMetaMC", cfg_text=cfg, workers=workers, timeout=1500, label=label,
                                                      count=neg is None, coverage=label == "mc_cov", heap="6g")))

    binp = c.go_build("clientmeta", pkg="./cmd")

    # tables against the real functions
    names = sorted(tables["fold"])
    nf, tf = os.path.join(c.work, "names.json"), os.path.join(c.work, "tables_real.json")
    json.dump(names, open(nf, "w"))
    c.run([binp, "tables", nf, tf], timeout=120)
    real = json.load(open(tf))
    for n in names:
        if real[n]["lower"] != tables["fold"][n]:
            raise vlib.Inconclusive("ClientMetaTables!FoldT[%r] = %r but strings.ToLower gives %r" % (n, tables["fold"][n], real[n]["lower"]))
        if n in tables["canon"] and (real[n]["canon"] != tables["canon"][n] or real[n]["http"] != tables["canon"][n]):
            raise vlib.Inconclusive("ClientMetaTables!CanonT[%r] = %r but CanonicalMIMEHeaderKey gives %r" % (n, tables["canon"][n], real[n]["canon"]))
    c.log("tables: %d names agree with strings.ToLower / textproto.CanonicalMIMEHeaderKey" % len(names))
    pf = os.path.join(c.work, "probes.json")
    json.dump(tables["probes"], open(pf, "w"))

    # ---- 2. scripts ----------------------------------------------------------------------------------------------------------
    if c.replay:
        rp = json.load(open(c.replay))["replay"]
        fam_scripts = [("replay", [dict(conf=rp["conf"], reqs=rp["reqs"], exp=None)])]
    else:
        fam_scripts = list(pool.map(lambda f: generate(c, *f), families(c)))
    scripts = []
    fam_of = {}
    for label, behs in fam_scripts:
        for b in behs:
            sid = len(scripts) + 1
            scripts.append(dict(id=sid, conf=b["conf"], reqs=b["reqs"], exp=b.get("exp")))
            fam_of[sid] = label
    c.log("scripts: %s" % ", ".join("%s=%d" % (l, len(b)) for l, b in fam_scripts))
    sf, of = os.path.join(c.work, "scripts.ndjson"), os.path.join(c.work, "observed.ndjson")
    vlib.write_ndjson(sf, [dict(id=s["id"], conf=s["conf"], reqs=s["reqs"]) for s in scripts])
    pr = c.run([binp, "run", sf, of, pf, str(max(2, min(8, vlib.NCPU // 2)))], timeout=1500)
    obs = vlib.read_ndjson(of)
    if len(obs) != len(scripts):
        raise vlib.Inconclusive("driver produced %d observations for %d scripts" % (len(obs), len(scripts)))
    c.log("driver: %s" % pr.stdout.strip().splitlines()[-1])

    # ---- 3. verdicts: the statement's clauses, evaluated by TLC on the real observations ------------------------------------
    nchunks = max(1, min(8, len(obs) // 400))
    chunks = [obs[i::nchunks] for i in range(nchunks)]

    def monitor(k):
        lines = [dict(id=o["id"], conf=o["conf"], reqs=o["reqs"], obs=o["obs"]) for o in chunks[k]]
        path = os.path.join(c.work, "observed_%d.ndjson" % k)
        vlib.write_ndjson(path, lines)
        m = c.tlc(SPEC, "ClientMetaMonitor", workers=1, files={"observed.ndjson": path}, timeout=1500, label="monitor%d" % k,
                  count=False, tag="VERDICT", heap="4g")
        if not m.ok or len(m.printed) != len(lines):
            raise vlib.Inconclusive("monitor failed (%d verdicts for %d observations): %s" % (len(m.printed), len(lines), m.out[-1500:]))
        return m.printed
    verdict = {}
    for vs in pool.map(monitor, range(nchunks)):
        for v in vs:
            verdict[v["id"]] = v["failed"]
    byid = {s["id"]: s for s in scripts}
    ok = 0
    nviol, ndrift = {}, 0
    nontrivial = 0
    stats = dict(refused=0, requests=0, batches=0, multi_group=0, merged=0, split=0)
    for o in obs:
        s = byid[o["id"]]
        failed = verdict[o["id"]]
        ob = o["obs"]
        if "MalformedLine" in failed:
            raise vlib.Inconclusive("the monitor could not read the observation of script %d: %s" % (o["id"], json.dumps(o)[:600]))
        stats["requests"] += len(s["reqs"])
        stats["refused"] += ob["resp"].count("fail")
        stats["batches"] += len(ob["batches"])
        groups = {json.dumps(b["get"]) for b in ob["batches"]}
        stats["multi_group"] += len(groups) > 1
        merged = any(len({it[0] for it in b["items"]}) > 1 for b in ob["batches"])
        split = any(sum(1 for b in ob["batches"] if any(it[0] == i + 1 for it in b["items"])) > 1 for i in range(len(s["reqs"])))
        stats["merged"] += merged
        stats["split"] += split
        if len(groups) > 1 or "fail" in ob["resp"] or merged or split:
            nontrivial += 1
        if failed:
            key = ",".join(sorted(failed))
            nviol[key] = nviol.get(key, 0) + 1
            if nviol[key] <= 3:
                what = ("clause %s violated by the real code: conf=%s requests=%s -> answers %s (%s), behind the receiver %s, exported batches %s"
                        % (key, json.dumps(s["conf"]), json.dumps([[r["tr"], [[h["n"], h["v"]] for h in r["hdrs"]], r["items"]] for r in s["reqs"]]),
                           ob["resp"], o["extra"].get("answers"),
                           json.dumps([dict(addr=x["addr"], keys=x["keys"], get=dict(zip(tables["probes"], x["get"])),
                                            again=("same" if x["again"] == x["get"] else x["again"])) for x in ob["seen"]]),
                           json.dumps([dict(items=b["items"], keys=b["keys"], get={p: v for p, v in zip(tables["probes"], b["get"]) if v},
                                            again=("same" if b["again"] == b["get"] else b["again"])) for b in ob["batches"]])))
                c.violation(what[:6000], replay_obj=dict(conf=s["conf"], reqs=s["reqs"], failed=failed, observed=ob),
                            signature="E08:" + key)
            continue
        ok += 1
        e = s.get("exp")
        if e is not None:
            if e["resp"] != ob["resp"] or group_batches_exp(e) != group_batches_obs(ob):
                ndrift += 1
                if ndrift <= 10:
                    c.model_drift("script %d (%s) conf=%s reqs=%s: the model answers %s with batches per shard %s, the real code answers %s with %s"
                                  % (o["id"], fam_of[o["id"]], json.dumps(s["conf"]), json.dumps(s["reqs"]), e["resp"], group_batches_exp(e),
                                     ob["resp"], group_batches_obs(ob)))
    if nviol:
        c.log("scripts violating a clause: %s" % nviol)
        c.extra["violating_scripts"] = nviol
    c.log("monitor: %d scripts satisfy every clause, %d violate one, %d drift from the model; %s" % (ok, sum(nviol.values()), ndrift, stats))

    if not c.replay and not all(stats[k] > 0 for k in ("refused", "multi_group", "merged", "split")):
        raise vlib.Inconclusive("vacuous: the real runs never showed a refusal / two groups / a merged batch / a split request: %s" % stats)

    # ---- 1 (continued). design checks ---------------------------------------------------------------------------------------
    for label, neg, fut in mc_jobs:
        r = fut.result()
        if r.timed_out:
            raise vlib.Inconclusive("TLC timed out on %s" % label)
        if neg is None:
            if not r.ok:
                raise vlib.Inconclusive("TLC design check %s failed: %s\n%s" % (label, r.error, (r.trace_text or r.out)[-3000:]))
            zero = [k for k, v in r.coverage.items() if v == 0 and k not in ("Done",)]
            if zero:
                raise vlib.Inconclusive("vacuous: actions never taken in %s: %s" % (label, zero))
            c.log("design %s: %d distinct states, depth %d, %.0fs" % (label, r.distinct, r.depth, r.wall))
        else:
            if r.error != ("invariant", "Statement"):
                raise vlib.Inconclusive("negative design run %s (model variant %s) was not refuted by the clauses: %s %s"
                                        % (label, neg, r.error, r.out[-800:]))
            c.log("design %s: variant refuted by invariant Statement, as it must be" % label)
    pool.shutdown()
    mcpool.shutdown()

    c.traces_validated += ok
    c.evaluations = len(obs)
    c.exhaustive = False
    for o in obs[:: max(1, len(obs) // 4)][:4]:
        c.sample(dict(kind="observed script", family=fam_of[o["id"]], conf=o["conf"], reqs=o["reqs"], resp=o["obs"]["resp"],
                      batches=[dict(items=b["items"], keys=b["keys"]) for b in o["obs"]["batches"]], clauses_failed=verdict[o["id"]]))
    c.extra["scripts_by_family"] = {l: len(b) for l, b in fam_scripts}
    c.extra["observed"] = stats
    c.extra["drifting_scripts"] = ndrift
    c.assumptions += [
        "requests of a script are sent one after the other (each answered before the next one is written); the receivers are shared by the scripts of a worker, so 'receiver shut down before the processor' is realised as 'no request in flight'",
        "HTTP requests are written by hand on a TCP connection (HTTP/1.1, Connection: close), the answer is parsed by net/http; gRPC uses a plain grpc.ClientConn and metadata.AppendToOutgoingContext (which lower-cases the keys: HTTP/2 field names are lower case)",
        "the batch timeout is 10 minutes: no timer expires during a script (C17 covers the timer)",
        "header names / values are drawn from the finite universe of ClientMetaTables.tla (ASCII, no surrounding blanks); the case mappings are tables checked against strings.ToLower / textproto.CanonicalMIMEHeaderKey",
        "open points O1-O7 of the module docstring: every behaviour passes there"]
    c.finish_args = dict(rule="scripts generated by TLC (ClientMetaGen): exhaustive families hop (1 request: every assembled header list x transport x include on/off), "
                              "pairs (every ordered pair of tenant parts), limit (every sequence of tenant parts under limit 2) and random simulation over "
                              "configurations x 2-4 requests; each realised once over loopback; non-trivial = scripts with more than one group, a refusal, "
                              "a batch merging two requests or a request split over two batches",
                         distinct_nontrivial=nontrivial)
