"""E09 -- ConfigSources: the effective configuration assembled from the command line (--config, --set) and the providers.
EXTRA specification (no listed property).  Spec: specs/ConfigSources (ConfigSources = statement-level specification,
ConfigSourcesImpl = implementation-shaped model, ConfigSourcesMC = design check + case generator, CSPlan = pools of one
plan; the tree encoding and the merge operator are specs/ConfResolve/ConfMerge.tla, copied next to the modules per run).
Binding: harness/cfgsources (the real cobra command of otelcol.NewCommand with the real file / env / yaml providers, real
files and real environment variables).

Record (form of properties.jsonl), written from otelcol/flags.go (flag help), service/README.md ("How to provide
configuration?", "How to override config properties?"), confmap/README.md ("Configuration Resolving"), the doc comments
of confmap.ResolverSettings / NewResolver / Provider, otelcol.NewCommand and the providers' NewFactory + READMEs:

  title       The effective configuration is the merge of the --config sources in order, then the --set entries in order
  statement   (C1) --config and --set are repeatable; every --set entry is applied after ALL --config sources whatever
              its position on the command line, later entries win: the effective raw configuration (Conf.ToStringMap
              before unmarshalling; also what print-initial-config prints) is the right-biased key-by-key merge of the
              --config documents, in order, followed by the --set entries, in order (lists replaced, maps joined).
              (C2) --set key=value is the YAML document `key: value`: "." in the key nests maps, the value is YAML
              (scalar of any type, empty = null, [..], {..}), "::" in a map key INSIDE the value nests maps
              (name={a::b: c} == name.a.b=c), the first "=" ends the key, an entry without "=" fails the command.
              (C3) a location is <scheme>:<opaque> and goes to the provider of its scheme; no scheme (or one drive
              letter) = file path; a well-formed scheme without provider = error; no location at all = error; URIs of
              the settings are defaults, overwritten by --config flags.
              (C4) file:<path> relative / absolute = the file as YAML, unreadable = error; env:<NAME> = the variable as
              YAML, NAME must match ^[a-zA-Z_][a-zA-Z0-9_]*$ else error, env:<NAME>:-<default> = default when unset;
              yaml:<bytes> = the bytes as YAML with "::" in keys nesting maps; http://<host>/<path> = the body as YAML.
              (C5) a source that is not a YAML mapping (invalid YAML, scalar, list) is an error; an error of any source
              fails the whole resolution.
              (C6) ${NAME} / ${env:NAME} in documents are expanded with the env provider after the merge (cross-check
              only; expansion is C12).
  quantifier  every command line of the plans below (<= 3 --config of mixed schemes and <= 3 --set entries, defaults on /
              off) over small documents with overlapping nested keys, provider faults, odd locations; enumerated by TLC
  anchors     otelcol/flags.go: flags, configFlagValue, getConfigFlag; otelcol/command.go: NewCommand,
              updateSettingsUsingFlags; otelcol/command_validate.go, command_print.go; otelcol/collector.go: NewCollector,
              DryRun; otelcol/configprovider.go: NewConfigProvider, Get; confmap/resolver.go: NewResolver, Resolve;
              confmap/provider.go: NewRetrievedFromYAML, AsConf; confmap/confmap.go: NewFromStringMap, KeyDelimiter, Merge,
              ToStringMap; confmap/provider/{fileprovider,envprovider,yamlprovider}/provider.go;
              confmap/internal/envvar/pattern.go

Documentation silent -> every behaviour admitted (the specification yields a SET of outcomes; see ConfigSources.tla):
  S1 only --set flags + default URIs in the settings (defaults kept or dropped); S2 env:<NAME>:-<default> with NAME set to
  "" (empty or default); S3 text before ":" neither scheme nor drive letter ("_:x", "1a:x", ":x": error or file path);
  S4 "::" in the KEY of --set (nested or error); S5 error texts / which source an error names (only error vs. value is
  compared; how many error texts contain the failing location is reported in the evidence); S7 an empty document as a
  top-level source (nothing or error); S8 not generated: "::" keys overlapping a sibling key of the same map, empty key
  segments, blanks around key / "=", values other than one scalar / flow list / flow map, upper-case schemes.
  S9 http location answered with a status other than 200 (error, or the body is used).  The http provider is exercised
  against a local server of the driver (200 + mapping, 200 + invalid YAML, 404, unknown path); https is registered only.

What is compared: per case the real outcome of BOTH routes (validate: Conf seen by a converter inside Resolve;
print-initial-config: the printed YAML) must be one of the admissible outcomes computed by TLC (error, or the
configuration tree).  The implementation-shaped model's own prediction is used for MODEL-DRIFT only.
"""
import json, os, threading
from concurrent.futures import ThreadPoolExecutor
import vlib

SIG_DELIM = ("E09|set-value-key-delimiter|a '::' key inside a map value (--set name={a::b: c}) stays a literal key while "
             "the sources are merged: it does not override / join what earlier sources define under that path and the "
             "survivor depends on map iteration order")

# leaf name -> (YAML text, value); references: value None and never expected in a result
LEAF = {"i1": ("1", 1), "i2": ("2", 2), "i3": ("3", 3), "sx": ("x", "x"), "sy": ("y", "y"), "bt": ("true", True),
        "bf": ("false", False), "f1": ("1.5", 1.5), "nil": ("", None), "nul": ("null", None), "qs": ('"7"', "7"),
        "l1": ("[x]", ["x"]), "l2": ("[2, 3]", [2, 3]), "le": ("[]", []), "sbc": ("b=c", "b=c"),
        "sjs": ("just a string", "just a string"),
        "rS": ("${ES}", None), "rM": ("${env:EM}", None), "rI": ("${EI}", None)}
REFS = {"rS": "ES", "rM": "EM", "rI": "EI"}


# ----------------------------------------------------------------------------- plan description helpers
def L(n):
    return ("leaf", n)


def M(*entries):
    return ("map", list(entries))


def E(key, v):
    return (tuple(key.split("::")), v if isinstance(v, tuple) else L(v))


def DOC(*entries):
    return ("doc", list(entries))


EMPTY, LIST, INVALID = ("empty",), ("list",), ("invalid",)
HOST = "//%HTTPHOST%/"      # the driver puts the address of its local HTTP server here


def LEAFDOC(n):
    return ("leafdoc", n)


def uri(scheme, *rest):
    return list(scheme) + [":"] + list(rest)


def env(name, *rest):
    return list("env") + [":"] + list(name) + list(rest)


def S(key, val=None):
    """--set text: key with "." / "::" separators; val None = no "=", "" = empty value, "@name" = value atom."""
    atoms = []
    for i, part in enumerate(key.split(".")):
        if i:
            atoms.append(".")
        for j, p2 in enumerate(part.split("::")):
            if j:
                atoms.append("::")
            atoms.append(p2)
    if val is None:
        return atoms
    return atoms + ["="] + ([val] if val else [])


def shapes(maxlen, maxc=3, maxs=3, only=None):
    out = [""]
    for n in range(1, maxlen + 1):
        out += [s + x for s in out if len(s) == n - 1 for x in "cs"]
    out = [s for s in out if s.count("c") <= maxc and s.count("s") <= maxs]
    return sorted(set(out if only is None else [s for s in out if only(s)]), key=lambda s: (len(s), s))


D1 = DOC(E("a", M(E("b", "i1"), E("d", "i2"))), E("c", "sx"))
VALS = {"@i1": L("i1"), "@i2": L("i2"), "@i3": L("i3"), "@sx": L("sx"), "@sy": L("sy"), "@bt": L("bt"), "@bf": L("bf"), "@f1": L("f1"),
        "@nul": L("nul"), "@qs": L("qs"), "@l1": L("l1"), "@l2": L("l2"), "@le": L("le"), "@sbc": L("sbc"), "@rI": L("rI"),
        "@me": M(), "@m1": M(E("e", "f1")), "@m2": M(E("b", "i3")),
        "@k1": M(E("b::q", "i3")),                      # name={a::b: c}: meets the scalar a.b of D1 (prefix conflict)
        "@k2": M(E("d::r", M(E("s::t", "sx")))),        # meets the scalar a.d of D1, nested twice
        "@k3": M(E("a::b", "i3")),                      # under key n: n.a.b, collides with a --config that defines n.a.b
        "@k4": M(E("g::h", "sy"))}                      # new path: no collision


def plan_merge(thorough):
    p = dict(
        docs={"@D1": D1,
              "@D2": DOC(E("a", M(E("b", "i3"), E("e", "l2")))),
              "@D3": DOC(E("a", "nul"), E("c", "l1")),
              "@D4": DOC(E("a::d", "sy")),
              "@D5": DOC(E("c", M(E("g", "bt")))),
              "@D6": DOC(E("a", M(E("d", M(E("h", "i1"))))), E("e", "le"))},
        files={("f1.yaml",): "@D1", ("sub/", "f2.yaml"): "@D5", ("%ABS/", "f1.yaml"): "@D1"},
        env={"E1": "@D3", "E_2": "@D6"},
        cfg=[uri("file", "f1.yaml"), ["sub/", "f2.yaml"], uri("yaml", "@D2"), uri("yaml", "@D4"), env("E1")],
        set=[S("a.b", "@i2"), S("a", ""), S("a.d.h", "@sx"), S("c", "@l2"), S("a", "@m1")],
        defs=[[]],
        shapes=shapes(3) + ["cscs", "sscc"])
    if thorough:
        p["cfg"] += [env("E_2")]
        p["set"] += [S("c.g", "@bf")]
        p["shapes"] = shapes(4) + ["cccss", "scscs", "ccsss"]
    return p


def plan_long(thorough):
    """the longest command lines of the quantifier (3 --config + 3 --set in every interleaving) over narrow pools"""
    p = dict(
        docs={"@D1": D1, "@D2": DOC(E("a", M(E("b", "i3"), E("e", "l2")))), "@D3": DOC(E("a", "nul"), E("c", "l1"))},
        files={("f1.yaml",): "@D1", ("%ABS/", "f1.yaml"): "@D1"},
        env={"E1": "@D3"},
        cfg=[uri("file", "%ABS/", "f1.yaml"), uri("yaml", "@D2"), env("E1")],
        set=[S("a.b", "@i2"), S("a", "@m1"), S("c.g", "@bf")],
        defs=[[]],
        shapes=shapes(6, only=lambda s: len(s) == 6) if thorough else ["cscscs", "sssccc"])
    if thorough:
        p["shapes"] += shapes(5, only=lambda s: len(s) == 5)
    return p


def plan_faults(thorough):
    p = dict(
        docs={"@D1": D1, "@D6": DOC(E("a", M(E("b", "i2")))), "@BAD": INVALID, "@STR": LEAFDOC("sjs"), "@LST": LIST,
              "@EMP": EMPTY},
        files={("f1.yaml",): "@D1", ("%ABS/", "f1.yaml"): "@D1", ("bad.yaml",): "@BAD", ("str.yaml",): "@STR",
               ("lst.yaml",): "@LST", ("emp.yaml",): "@EMP", ("c", ":", "/f1.yaml"): "@D1", ("_", ":", "x.yaml"): "@D6",
               ("z", "z", ":", "foo"): "@D6"},       # a FILE named zz:foo: the location zz:foo is still an unsupported scheme
        env={"E1": "@D6", "EE": "@EMP", "EB": "@BAD"},
        unset=["EU"],
        http={(HOST, "d6.yaml"): (200, "@D6"), (HOST, "bad.yaml"): (200, "@BAD"), (HOST, "gone.yaml"): (404, "@STR")},
        cfg=[uri("file", "f1.yaml"), uri("file", "%ABS/", "f1.yaml"), uri("file", "missing.yaml"), ["bad.yaml"],
             uri("file", "str.yaml"), uri("file", "lst.yaml"), ["emp.yaml"], ["missing2.yaml"], ["c", ":", "/f1.yaml"],
             ["_", ":", "x.yaml"], ["1", "a", ":", "x"], [":", "x"], uri("zz", "foo"), uri("http2", "//x/y"),
             env("EU"), env("EU", ":-", "@D6"), env("E1", ":-", "@D1"), env("EE", ":-", "@D6"), env("EE"), env("1X"),
             env("A-B"), env(""), env("EB"), env("EU", ":-", "@BAD"), uri("yaml", "@BAD"), uri("yaml"), uri("yaml", "@LST"),
             uri("yaml", "@STR"), [], uri("file"),
             ["f1.yaml", ",", "sub/", "f2.yaml"],
             uri("http", HOST, "d6.yaml"), uri("http", HOST, "bad.yaml"), uri("http", HOST, "gone.yaml"),
             uri("http", HOST, "unknown.yaml")],     # "only a single location can be set per flag entry": not a list
        set=[S("a.b", "@i3"), S("a.b")],
        defs=[[]],
        shapes=["c", "cc", "cs", "sc", "s", "ss"])
    p["shapes"] += ["ccs", "scc", "ccc"] if thorough else ["scc"]
    return p


def plan_setsyntax(thorough):
    p = dict(
        docs={"@D1": D1, "@DN": DOC(E("n", M(E("a", M(E("b", "i1"), E("z", "i2"))))))},
        files={("f1.yaml",): "@D1"},
        env={},
        cfg=[uri("file", "f1.yaml"), uri("yaml", "@DN")],
        set=[S("c", "@i2"), S("c", "@sy"), S("c", "@bt"), S("c", "@f1"), S("c", ""), S("c", "@nul"), S("c", "@qs"),
             S("c", "@l2"), S("c", "@le"), S("c", "@me"), S("c", "@sbc"), S("a", "@m2"), S("a", "@me"), S("a", "@k1"),
             S("a.b.q", "@i3"), S("a::b", "@i2"), S("n.o.p", "@sx"), S("a", "@k2"), S("n", "@k3"), S("c", "@k4"),
             S("a.b")],
        defs=[[]],
        shapes=["s", "cs", "sc", "ss", "css", "scs"])
    if thorough:
        p["shapes"] += ["ccs", "ccss", "sss"]
    return p


def plan_expand(thorough):
    p = dict(
        docs={"@D7": DOC(E("a", "rS"), E("c", M(E("g", "rM")))), "@D8": DOC(E("a", M(E("q", "i2")))),
              "@D9": DOC(E("c", M(E("g", M(E("p", "i3"), E("z", "sy")))))), "@D10": DOC(E("a", "rI"), E("l", "l2")),
              "@LS": LEAFDOC("sx"), "@LI": LEAFDOC("i1"), "@DM": DOC(E("p", "i1"), E("w", M(E("v", "bt"))))},
        files={("f7.yaml",): "@D7"},
        env={"ES": "@LS", "EM": "@DM", "EI": "@LI"},
        refs=dict(REFS),
        cfg=[uri("file", "f7.yaml"), uri("yaml", "@D8"), uri("yaml", "@D9"), uri("yaml", "@D10")],
        set=[S("a.q", "@i3"), S("c.g", "@rI"), S("c.g.z", "@sx")],
        defs=[[]],
        shapes=shapes(3))
    if thorough:
        p["shapes"] = shapes(4) + ["cccss"]
    return p


def plan_defaults(thorough):
    p = dict(
        docs={"@D1": D1, "@D2": DOC(E("a", M(E("b", "i3"), E("e", "l2")))), "@D4": DOC(E("a::d", "sy"))},
        files={("f1.yaml",): "@D1"},
        env={},
        cfg=[uri("yaml", "@D2"), uri("file", "f1.yaml")],
        set=[S("a.b", "@i2"), S("c", "@l2"), S("a.b")],
        defs=[[], [uri("yaml", "@D1")], [uri("file", "f1.yaml"), uri("yaml", "@D4")], [uri("file", "nope.yaml")]],
        shapes=shapes(3))
    if thorough:
        p["shapes"] = shapes(4)
    return p


PLANS = [("faults", plan_faults), ("merge", plan_merge), ("setsyntax", plan_setsyntax), ("long", plan_long),
         ("expand", plan_expand), ("defaults", plan_defaults)]


# ----------------------------------------------------------------------------- plan -> TLA+
def q(s):
    return '"%s"' % s.replace("\\", "\\\\").replace('"', '\\"')


def tseq(items):
    return "<<" + ", ".join(items) + ">>"


def tatoms(atoms):
    return tseq([q(a) for a in atoms])


def tval(v):
    if v[0] == "leaf":
        return "L(%s)" % q(v[1])
    return "M(%s)" % tseq(["E(%s, %s)" % (tatoms(k), tval(x)) for k, x in v[1]])


def tcontent(ct):
    if ct[0] == "doc":
        return "Doc(%s)" % tseq(["E(%s, %s)" % (tatoms(k), tval(x)) for k, x in ct[1]])
    if ct[0] == "leafdoc":
        return "LeafDoc(%s)" % q(ct[1])
    return "Ct(%s)" % q(ct[0])


def tfun(pairs):
    if not pairs:
        return "<<>>"
    return "\n    @@ ".join("(%s :> %s)" % (k, v) for k, v in pairs)


def used_vals(plan):
    return sorted({a[-1] for a in plan["set"] if len(a) >= 2 and a[-2] == "=" and a[-1].startswith("@")})


def plan_module(name, plan):
    vals = used_vals(plan)
    refs = plan.get("refs") or {}
    return """------------------------------- MODULE CSPlan -------------------------------
(* E09 -- ConfigSources: the pools of ONE exploration plan (plan "%s"): documents, values, files, environment, the
   locations and --set texts command lines are built from, the shapes of the command lines ("c" = --config, "s" = --set),
   the default URI lists of the settings and the variants of the implementation-shaped model.  checks/E09.py REPLACES
   this file per plan (same operator names; values from its PLANS table); the copy in specs/ConfigSources is the quick
   plan "merge", so that the modules can be run by hand (together with a copy of specs/ConfResolve/ConfMerge.tla). *)
EXTENDS TLC
L(n)       == [t |-> "leaf", n |-> n, e |-> <<>>]
M(es)      == [t |-> "map", n |-> "", e |-> es]
E(k, v)    == [k |-> k, v |-> v]
Doc(es)    == [c |-> "doc", n |-> "", e |-> es]
LeafDoc(n) == [c |-> "leaf", n |-> n, e |-> <<>>]
Ct(c)      == [c |-> c, n |-> "", e |-> <<>>]

DocTable ==
       %s
ValTable ==
       %s
Files ==
       %s
Env ==
       %s
RefTable ==
       %s
Http ==
       %s
CfgPool == {%s}
SetPool == {%s}
DefPool == {%s}
Shapes  == {%s}
Variants == {"fixed", "pinned"}
=============================================================================
""" % (name,
       tfun([(q(k), tcontent(v)) for k, v in sorted(plan["docs"].items())]),
       tfun([(q(k), tval(VALS[k])) for k in vals]),
       tfun([(tatoms(k), q(v)) for k, v in sorted(plan["files"].items())]),
       tfun([(q(k), q(v)) for k, v in sorted(plan["env"].items())]),
       tfun([(q(k), q(v)) for k, v in sorted(refs.items())]),
       tfun([(tatoms(k), "[status |-> %d, body |-> %s]" % (st, q(b))) for k, (st, b) in sorted((plan.get("http") or {}).items())]),
       ",\n            ".join(tatoms(u) for u in plan["cfg"]),
       ",\n            ".join(tatoms(s) for s in plan["set"]),
       ", ".join(tseq([tatoms(u) for u in d]) for d in plan["defs"]),
       ", ".join(tatoms(list(s)) for s in plan["shapes"]))


MC_CFG = """SPECIFICATION ImplSpec
INVARIANT TypeOK
INVARIANT Clauses
INVARIANT ImplOK
INVARIANT FixedOK
INVARIANT Emit
CHECK_DEADLOCK FALSE
"""


# ----------------------------------------------------------------------------- rendering (abstract text -> string)
def flow(v):
    if v[0] == "leaf":
        t = LEAF[v[1]][0]
        return t if t != "" else "null"
    return "{" + ", ".join("%s: %s" % ("::".join(k), flow(x)) for k, x in v[1]) + "}"


def block(entries, ind=0):
    lines = []
    for k, v in entries:
        key = " " * ind + "::".join(k) + ":"
        if v[0] == "leaf":
            t = LEAF[v[1]][0]
            lines.append(key + (" " + t if t != "" else ""))
        elif not v[1]:
            lines.append(key + " {}")
        else:
            lines.append(key)
            lines += block(v[1], ind + 2)
    return lines


def content_text(ct):
    if ct[0] == "doc":
        ls = block(ct[1])
        return ls[0] if len(ls) == 1 else "\n".join(ls) + "\n"
    if ct[0] == "leafdoc":
        return LEAF[ct[1]][0]
    return {"empty": "", "list": "- 1\n- 2\n", "invalid": "a: [1, 2\nb: }"}[ct[0]]


def value_text(v):
    return LEAF[v[1]][0] if v[0] == "leaf" else flow(v)


def render(atoms, plan, absdir):
    out = []
    for a in atoms:
        if a == "%ABS/":
            out.append(absdir.rstrip("/") + "/")
        elif a.startswith("@"):
            out.append(content_text(plan["docs"][a]) if a in plan["docs"] else value_text(VALS[a]))
        else:
            out.append(a)
    return "".join(out)


def tree(v):
    """ConfMerge tree printed by TLC -> value."""
    if isinstance(v, dict) and set(v.keys()) == {"t", "v", "m"} and v["t"] in ("leaf", "map"):
        if v["t"] == "leaf":
            if LEAF[v["v"]][1] is None and v["v"] not in ("nil", "nul"):
                raise vlib.Inconclusive("an unexpanded reference leaf %s in an expected configuration" % v["v"])
            return LEAF[v["v"]][1]
        return {k: tree(x) for k, x in (v["m"].items() if isinstance(v["m"], dict) else [])}
    if isinstance(v, dict):
        return {k: tree(x) for k, x in v.items()}
    if v == []:
        return {}
    raise vlib.Inconclusive("unexpected tree value from TLC: %r" % (v,))


def outcome(o):
    return {"t": "err"} if o["t"] == "err" else {"t": "ok", "c": tree(o["c"])}


def same(a, b):
    """strict equality of JSON values (true is not 1, 1 is not 1.0 unless both numbers are written the same)"""
    if isinstance(a, bool) or isinstance(b, bool):
        return isinstance(a, bool) and isinstance(b, bool) and a == b
    if isinstance(a, dict) or isinstance(b, dict):
        return isinstance(a, dict) and isinstance(b, dict) and a.keys() == b.keys() and all(same(a[k], b[k]) for k in a)
    if isinstance(a, list) or isinstance(b, list):
        return isinstance(a, list) and isinstance(b, list) and len(a) == len(b) and all(same(x, y) for x, y in zip(a, b))
    if a is None or b is None:
        return a is None and b is None
    if isinstance(a, str) or isinstance(b, str):
        return isinstance(a, str) and isinstance(b, str) and a == b
    return type(a) == type(b) and a == b


def member(o, outs):
    return any(o["t"] == x["t"] and (o["t"] == "err" or same(o["c"], x["c"])) for x in outs)


# ----------------------------------------------------------------------------- the check
def run(c):
    qk = c.quick()
    binp = c.go_build("cfgsources", pkg="./cmd")
    confmerge = os.path.join(vlib.VERIF, "specs", "ConfResolve", "ConfMerge.tla")

    if c.replay:
        rp = json.load(open(c.replay))["replay"]
        wd = os.path.join(c.work, "replay")
        pj = dict(dir=wd, files=rp["files"], env=rp["env"], unset=rp.get("unset", []), http=rp.get("http") or {},
                  cases=[dict(id=1, args=[a.replace(rp["absdir"], wd) for a in rp["args"]],
                              defs=[a.replace(rp["absdir"], wd) for a in rp["defs"]], rep=8)])
        pf = os.path.join(c.work, "replay.json")
        json.dump(pj, open(pf, "w"))
        of = os.path.join(c.work, "replay.ndjson")
        c.run([binp, "run", pf, of], timeout=300)
        o = vlib.read_ndjson(of)[0]
        judge(c, dict(adm=rp["adm"], pinned=rp.get("pinned", []), fixed=rp.get("fixed"), kn=rp.get("kn", False),
                      plan="replay", pj=pj, cj=pj["cases"][0], acase=rp.get("case")), o, {})
        c.traces_validated += 1
        c.tlc_must_pass("ConfigSources", "ConfigSourcesMC", cfg_text=MC_CFG.replace("INVARIANT Emit\n", ""), workers=4,
                        timeout=600, label="design-replay", files={"ConfMerge.tla": confmerge})
        c.finish_args = dict(rule="replay of one recorded case")
        return

    plans = [(name, fn(not qk)) for name, fn in PLANS]
    lock = threading.Lock()

    # ------------------------------------------------------------ 1. TLC: design check + cases, one run per plan
    def tlc_job(item):
        name, plan = item
        r = c.tlc("ConfigSources", "ConfigSourcesMC", cfg_text=MC_CFG, workers=(3 if qk else 5),
                  timeout=(300 if qk else 1800), label="plan_" + name, count=False, heap="4g",
                  coverage=(name == "defaults"),      # vacuity: every action of the model is taken (checked below)
                  files={"CSPlan.tla": plan_module(name, plan), "ConfMerge.tla": confmerge})
        with lock:
            c.states += r.distinct
            c.transitions += r.generated
        return name, plan, r

    results = []
    with ThreadPoolExecutor(max_workers=(6 if qk else 3)) as ex:
        for name, plan, r in ex.map(tlc_job, plans):
            if r.timed_out:
                raise vlib.Inconclusive("TLC timed out on plan %s" % name)
            if not r.ok:
                # a failure of the model alone is never a finding
                raise vlib.Inconclusive("TLC design check failed on plan %s: %s\n%s" % (name, r.error, r.trace_text[:3000]
                                                                                      or r.out[-2000:]))
            if r.out.count('<<"BEH", "') != len(r.printed):
                raise vlib.Inconclusive("TLC output of plan %s garbled: %d BEH lines, %d parsed" % (
                    name, r.out.count('<<"BEH", "'), len(r.printed)))
            if name == "defaults":
                acts = ("ParseFlag", "Settings", "NewResolver", "Retrieve", "Finish")
                zero = [a for a in acts if not r.coverage.get(a)]
                if zero:
                    raise vlib.Inconclusive("vacuous: actions of ConfigSourcesImpl never taken: %s" % zero)
            c.log("TLC plan %s: %d states, %d terminal states printed, %.1fs" % (name, r.distinct, len(r.printed), r.wall))
            results.append((name, plan, r.printed))
            del r

    # ------------------------------------------------------------ 2. cases: admissible outcomes + model predictions
    jobs = []          # (plan name, plan json for the driver, {id: case info})
    ncases = 0
    stats = dict(open_cases=0, known_cases=0, error_only=0, value_only=0)
    for name, plan, printed in results:
        cases = {}
        for b in printed:
            key = json.dumps(b["case"], sort_keys=True)
            ci = cases.setdefault(key, dict(case=b["case"], adm=None, fixed=None, pinned=[], kn=False))
            o = outcome(b["o"])
            if b["v"] == "fixed":
                if ci["adm"] is not None:
                    raise vlib.Inconclusive("plan %s: two terminal states of the fixed model for %s" % (name, key))
                ci["adm"] = [outcome(x) for x in b["adm"]]
                ci["fixed"] = o
            else:
                if not member(o, ci["pinned"]):
                    ci["pinned"].append(o)
                ci["kn"] = ci["kn"] or bool(b["kn"])
        bad = [k for k, ci in cases.items() if ci["adm"] is None or not ci["pinned"] or not ci["adm"]]
        if bad:
            raise vlib.Inconclusive("plan %s: cases without admissible set / prediction: %s" % (name, bad[:2]))
        wd = os.path.join(c.work, "run_" + name)
        infos = {}
        cj = []
        for n, key in enumerate(sorted(cases), 1):
            ci = cases[key]
            args = []
            for k, a in enumerate(ci["case"]["args"]):
                flag = "--config" if a["f"] == "config" else "--set"
                text = render(a["a"], plan, "%ABSDIR%")
                if (n + k + c.seed) % 2 == 0 or text.startswith("-"):
                    args.append(flag + "=" + text)
                else:
                    args += [flag, text]
            ci.update(plan=name, args=args, defs=[render(u, plan, "%ABSDIR%") for u in ci["case"]["defs"]],
                      locs=[render(a["a"], plan, "%ABSDIR%") for a in ci["case"]["args"] if a["f"] == "config"],
                      nset=sum(1 for a in ci["case"]["args"] if a["f"] == "set"))
            infos[n] = ci
            cj.append(dict(id=n, args=args, defs=ci["defs"], rep=(8 if ci["kn"] or len(ci["pinned"]) > 1 else 1)))
            stats["open_cases"] += len(ci["adm"]) > 1
            stats["known_cases"] += ci["kn"]
            stats["error_only"] += all(o["t"] == "err" for o in ci["adm"])
            stats["value_only"] += all(o["t"] == "ok" for o in ci["adm"])
        files = {}
        for path, d in plan["files"].items():
            rel = "".join(a for a in path if a != "%ABS/")
            text = content_text(plan["docs"][d])
            if files.setdefault(rel, text) != text:
                raise vlib.Inconclusive("plan %s: two contents for file %s" % (name, rel))
        envv = {k: content_text(plan["docs"][d]) for k, d in plan["env"].items()}
        # every variable a location or a reference names and the plan does not set is really unset (inherited environment)
        named = set(plan.get("unset", [])) | set((plan.get("refs") or {}).values())
        for u in plan["cfg"] + [x for d in plan["defs"] for x in d]:
            if u[:4] == list("env") + [":"]:
                rest = u[4:]
                named.add("".join(rest[:rest.index(":-")] if ":-" in rest else rest))
        unset = sorted(n for n in named if n and n not in plan["env"])
        http = {"/" + "".join(k[1:]): dict(status=st, body=content_text(plan["docs"][b]))
                for k, (st, b) in (plan.get("http") or {}).items()}
        jobs.append((name, dict(files=files, env=envv, unset=unset, http=http), cj, infos))
        ncases += len(cj)
    if not ncases:
        raise vlib.Inconclusive("no cases generated")
    vac = [k for k in ("open_cases", "known_cases", "error_only", "value_only") if stats[k] == 0]
    if vac:
        raise vlib.Inconclusive("vacuous enumeration: no case of kind %s" % vac)
    c.extra["case_kinds"] = stats
    c.log("cases: %d (%s)" % (ncases, stats))

    # ------------------------------------------------------------ 3. the real command, sharded over processes
    shards = []
    for name, base, cj, infos in jobs:
        k = max(1, min(6, len(cj) // 1500))
        for s in range(k):
            wd = os.path.join(c.work, "run_%s_%d" % (name, s))
            part = [dict(x, args=[a.replace("%ABSDIR%", wd) for a in x["args"]],
                         defs=[a.replace("%ABSDIR%", wd) for a in x["defs"]]) for x in cj[s::k]]
            shards.append((name, s, dict(base, dir=wd, cases=part), infos))

    def drive(sh):
        name, s, pj, infos = sh
        pf = os.path.join(c.work, "plan_%s_%d.json" % (name, s))
        json.dump(pj, open(pf, "w"))
        of = os.path.join(c.work, "out_%s_%d.ndjson" % (name, s))
        c.run([binp, "run", pf, of], timeout=(600 if qk else 2400))
        return sh, vlib.read_ndjson(of)

    tot = dict(cases=0, obs=0, errors=0, values=0, err_names_uri=0, err_with_uri=0, nontrivial=0)
    with ThreadPoolExecutor(max_workers=8) as ex:
        for (name, s, pj, infos), outs in ex.map(drive, shards):
            if len(outs) != len(pj["cases"]):
                raise vlib.Inconclusive("driver ran %d of %d cases of plan %s" % (len(outs), len(pj["cases"]), name))
            byid = {x["id"]: x for x in pj["cases"]}
            for o in outs:
                ci = dict(infos[o["id"]], pj=pj, cj=byid[o["id"]], acase=infos[o["id"]]["case"])
                judge(c, ci, o, tot)
            if s == 0 and outs:
                mid = outs[len(outs) // 2]
                c.sample(dict(plan=name, args=byid[mid["id"]]["args"], defs=byid[mid["id"]]["defs"],
                              admissible=infos[mid["id"]]["adm"], observed=mid["obs"][0]))
    c.traces_validated += tot["cases"]
    c.evaluations += tot["obs"]
    c.exhaustive = True
    c.extra["real_outcomes"] = tot
    c.log("driver: %d cases, %d observations (%d errors, %d configurations); %d of %d errors of a single failing location "
          "name it" % (tot["cases"], tot["obs"], tot["errors"], tot["values"], tot["err_names_uri"], tot["err_with_uri"]))
    c.assumptions += [
        "the YAML texts of the leaves (checks/E09.py LEAF) have the YAML core-schema types stated there",
        "documentation silent, every behaviour admitted: S1 --set only + default URIs; S2 env default with the variable set "
        "to \"\"; S3 text before ':' neither scheme nor drive letter; S4 '::' in the key of --set; S5 error texts; S7 empty "
        "document as a source; S8 (not generated) overlapping '::' keys in one map, blanks around key and '='",
        "expansion (C6) is cross-checked for whole-value references to variables holding one scalar or one mapping only",
        "the http provider is exercised against a local server (4 locations); https is registered but not exercised; "
        "watching / reloading is out of scope"]
    c.finish_args = dict(
        rule="every command line of the shapes of each plan (checks/E09.py PLANS: faults, merge, setsyntax, long, expand, defaults) "
             "over the plan's location / --set pools and default URI lists, enumerated by TLC; non-trivial = at least two "
             "sources, or a source that fails",
        distinct_nontrivial=tot["nontrivial"])


def judge(c, ci, o, tot):
    """compare the observations of one case with its admissible outcomes"""
    adm = ci["adm"]
    cj = ci["cj"]
    tot["cases"] = tot.get("cases", 0) + 1
    nsrc = sum(1 for a in cj["args"] if a.startswith("--"))
    if nsrc >= 2 or all(x["t"] == "err" for x in adm):
        tot["nontrivial"] = tot.get("nontrivial", 0) + 1
    seen = []
    for ob in o["obs"]:
        if ob["route"] == "harness":
            raise vlib.Inconclusive("driver problem on %s: %s" % (cj["args"], ob.get("err")))
        tot["obs"] = tot.get("obs", 0) + 1
        got = {"t": "ok", "c": ob.get("raw")} if ob["ok"] else {"t": "err"}
        if ob["ok"] and not isinstance(ob.get("raw"), dict):
            raise vlib.Inconclusive("driver reported success without a configuration on %s" % (cj["args"],))
        tot["errors" if not ob["ok"] else "values"] = tot.get("errors" if not ob["ok"] else "values", 0) + 1
        if not ob["ok"] and len(adm) == 1 and len(ci.get("locs") or []) == 1 and not ci.get("nset") and ob["route"] == "validate":
            # S5 (statistics only): does the error text contain the one location that fails?
            loc = ci["locs"][0].replace("%ABSDIR%", ci["pj"]["dir"])
            if loc and "\n" not in loc:
                tot["err_with_uri"] = tot.get("err_with_uri", 0) + 1
                tot["err_names_uri"] = tot.get("err_names_uri", 0) + (loc in ob.get("err", ""))
        if member(got, adm):
            continue
        if any(g["t"] == got["t"] and (got["t"] == "err" or same(g["c"], got["c"])) and r == ob["route"] for g, r in seen):
            continue
        seen.append((got, ob["route"]))
        tot["mismatches"] = tot.get("mismatches", 0) + 1
        if len(c.violations) >= 40:
            continue            # enough replay files; the count goes on (real_outcomes.mismatches)
        sig = None
        if ci.get("kn") and got["t"] == "ok" and member(got, ci.get("pinned") or []):
            sig = SIG_DELIM
        what = "%s %s (defaults %s) [route %s]: %s; admissible: %s" % (
            "command line", json.dumps(cj["args"]), json.dumps(cj["defs"]), ob["route"],
            ("error: " + ob.get("err", "")[:200]) if not ob["ok"] else "configuration " + json.dumps(ob["raw"], sort_keys=True),
            " | ".join("error" if x["t"] == "err" else json.dumps(x["c"], sort_keys=True) for x in adm))
        pj = ci["pj"]
        c.violation(what, signature=sig, replay_obj=dict(
            kind="case", plan=ci.get("plan"), args=cj["args"], defs=cj["defs"], files=pj["files"], env=pj["env"],
            unset=pj.get("unset", []), http=pj.get("http") or {}, absdir=pj["dir"], adm=adm, pinned=ci.get("pinned"), fixed=ci.get("fixed"),
            kn=ci.get("kn"), case=ci.get("acase"), got=got, route=ob["route"]))
    # model drift: admissible, but not what the implementation-shaped model (pinned) predicts
    first = o["obs"][0]
    got = {"t": "ok", "c": first.get("raw")} if first["ok"] else {"t": "err"}
    tot["matches_pinned"] = tot.get("matches_pinned", 0) + bool(member(got, ci.get("pinned") or []))
    tot["matches_fixed"] = tot.get("matches_fixed", 0) + bool(ci.get("fixed") and member(got, [ci["fixed"]]))
    if member(got, adm) and ci.get("pinned") and not member(got, ci["pinned"]) and not member(got, [ci["fixed"]]):
        if not getattr(c, "_drift_seen", False):
            c._drift_seen = True
            c.model_drift("admissible outcome that neither variant of the implementation-shaped model predicts, e.g. %s -> %s "
                          "(model: %s)" % (json.dumps(cj["args"]), json.dumps(got)[:200], json.dumps(ci["pinned"])[:200]))
