"""C04 -- exporter-side batching conserves telemetry, keeps identity, respects size limits.
Spec: specs/Batcher.  Binding: harness/batcher (real requests of 4 signals through the public
QueueBatchSettings encodings; Request.MergeSplit directly and the real queue + batcher with
wait_for_result).
  1. TLC exhaustive design check (BatcherMC): producers, consumer, timer, export completions with
     failures, shutdown; all clauses of the statement as invariants; both sizers.  The configurations
     describe the tree as it is (callback attached unconditionally, remainder without items returned
     as a part) with the invariant in the form Property \\/ KnownRider; three pinned-code variants must
     FAIL on their own: Oversized = "hang" (Terminates), AttachFirst = "always" (DoneErrIff),
     Remainder = "kept" (DoneErrIff); with all repaired the plain Property holds.
  2. Payload universe (PayloadFill.tla, evaluated by TLC): shapes (nesting, empty containers, long
     runs of items / of empty metric entries) x fills (which items, metrics, scopes, resources are left
     at their protobuf defaults: anonymous items, Metric entries of zero bytes, blank scopes / resources,
     mixed with ordinary ones).  TLC generates request sequences (shape x big item x fill) x sizer x max
     (BatcherGen) with the specified parts for the items sizer; they are replayed through MergeSplit
     ("split" scripts) for 4 signals, and with min_size / flush timeout / failing exports / concurrent or
     staggered senders through the real batcher ("batch" scripts; there the return of every MergeSplit
     inside the batcher is recorded too, through a delegating request wrapper).
  3. Everything recorded is validated by TLC against the monitor BatcherTrace.tla (clauses of
     BatcherObs.tla; SizeBound on sizes MEASURED by the driver); verdicts come from there.  Anonymous
     items carry no id: the recorder pairs one that leaves with an indistinguishable one that entered
     (they are counted, not tracked; callbacks need attribution, so fills that blank resources are used
     for split scripts only).  Items-sizer parts that differ from the specified consecutive chunks with
     the monitor satisfied are model drift.
Scripts that do not finish (10 s / 1 GiB watchdog in a sub-process, confirmed by a second run) are
Terminates violations.  Design runs, generator runs and the pieces of step 3 run side by side.
"""
import bisect, itertools, json, os, re
from concurrent.futures import ThreadPoolExecutor
import vlib

SIGNALS = ["logs", "traces", "metrics", "profiles"]
# max_size classes of the generator -> bytes (5, 6: for payloads made of elements of almost no size)
BYTES_CLASS = {0: 0, 1: 120, 2: 500, 3: 1500, 4: 4000, 5: 60, 6: 300}
STD = list(range(1, 10))                                    # the standard shapes (TelemetryShape!StdShapes)
KNOWN_PROFILE = "SizeBound: profiles are not split below one profile (the part is one whole profile holding several samples)"
KNOWN_DESCRIPTOR = ("Identity: metrics, the split-off part of a metric has an empty descriptor (name/unit/description/metadata "
                    "empty, temporality/monotonicity default) and nothing else of its context differs")
KNOWN_SHELL = ("SizeBound: metrics, bytes sizer, the oversized part carries an unnamed metric shell without data points "
               "(left by an extraction that took no data point)")
KNOWN_PREFIX = ("SizeBound: metrics, bytes sizer, the part holds data points split off a metric and exceeds max_size by at most "
                "2 bytes (length prefix of the nested data point list not budgeted)")
KNOWN_ATTACH = ("DoneErrIff: request reported failed although no part holding its data failed; the failed part is the first "
                "result of the MergeSplit with the held batch and holds no item of the request")
KNOWN_TAIL = ("DoneErrIff: request reported failed although no part holding its data failed; a MergeSplit inside the batcher had "
              "returned, after parts with its data, a last part without any item that holds only containers of the request (the "
              "remainder of the split), and an export call started after that failed")


def tla_set(xs):
    return "{" + ", ".join(xs) + "}"


def gen_params(n, shapes, confs, bigmax, fills):
    return """-------------------------- MODULE BatcherGenParams --------------------------
ParamN        == %d
ParamShapeSel == %s
ParamFillSel  == %s
ParamConfs    == %s
ParamBigMax   == %d
=============================================================================
""" % (n, tla_set(map(str, shapes)), tla_set(map(str, fills)), tla_set('<<"%s", %d>>' % c for c in confs), bigmax)


def mc_cfg(Inv=None, **kw):
    """BatcherMC.cfg (the tree as it is: oversized item sent alone, callback attached unconditionally, remainder without
    items returned as a part; invariant PropertyKnown = Inv \\/ KnownPredicate of the open findings C04-done-first-part and
    C04-split-dataless-remainder) with constants / invariant replaced"""
    base = open(os.path.join(vlib.VERIF, "specs/Batcher/BatcherMC.cfg")).read()
    if Inv:
        base, n = re.subn(r"(?m)^INVARIANT \w+$", "INVARIANT " + Inv, base)
        assert n == 1
    for k, v in kw.items():
        base, n = re.subn(r"(?m)^  %s = .*$" % k, "  %s = %s" % (k, v), base)
        assert n == 1, k
    return base


def payload_lib(c):
    """the payload universe as TLC evaluates it (PayloadFill.tla): shapes, fills, masks[shape][fill] of the elements left
    at their defaults, attributable[fill]"""
    r = c.tlc("Batcher", "PayloadFillLib", cfg_text="INIT LibInit\nNEXT LibNext\nCHECK_DEADLOCK FALSE\n", workers=1,
              timeout=120, count=False, label="lib", tag="LIB")
    if len(r.printed) != 1 or not all(k in r.printed[0] for k in ("shapes", "fills", "masks", "attributable")):
        raise vlib.Inconclusive("could not obtain the payload library from TLC: %s" % r.out[-800:])
    lib = r.printed[0]
    if (len(lib["shapes"]) < 12 or len(lib["fills"]) < 7 or set(lib["fills"][0].values()) != {"none"} or
            len(lib["masks"]) != len(lib["shapes"]) or any(len(m) != len(lib["fills"]) for m in lib["masks"])):
        raise vlib.Inconclusive("unexpected payload library")
    return lib


def generate(c, label, n, shapes, confs, bigmax, lib, simulate=None, fills=(1,), seed=None):
    r = c.tlc("Batcher", "BatcherGen", workers=1, timeout=900, count=False, label=label, heap="4g",
              files={"BatcherGenParams.tla": gen_params(n, shapes, confs, bigmax, fills)},
              simulate=simulate, depth=n + 2 if simulate else None, seed=seed if simulate else None)
    if r.error or r.timed_out:
        raise vlib.Inconclusive("generator %s failed: %s %s" % (label, r.error, r.out[-1500:]))
    if not simulate:
        exp = 0
        for sizer, mx in confs:
            per = 0
            for k in shapes:
                cnt = sum(sum(sum(sc) for sc in res) for res in lib["shapes"][k - 1])
                per += ((min(cnt, bigmax) + 1) if sizer == "bytes" else 1) * len(fills)
            exp += per ** n
        if len(r.printed) != exp:
            raise vlib.Inconclusive("generator %s printed %d behaviours, expected %d" % (label, len(r.printed), exp))
    elif not r.printed:
        raise vlib.Inconclusive("generator %s printed no behaviour" % label)
    return r.printed


def req_spec(lib, k, big, f, **kw):
    """one request of a script: its shape, the big item, and (unless it is the ordinary fill 1) the mask of what is left
    at its defaults"""
    d = dict(shape=lib["shapes"][k - 1], big=[big] if big else [])
    if f != 1:
        d["fill"] = lib["masks"][k - 1][f - 1]
    d.update(kw)
    return d


def flat_paths(shape):
    """flat position (1-based) -> (r, s, m) path, as TelemetryShape!Flatten"""
    out = []
    for r, res in enumerate(shape):
        for s, sc in enumerate(res):
            for m, n in enumerate(sc):
                out += [(r, s, m)] * n
    return out


def split_scripts(behs, lib, signals, sid0):
    out = []
    for i, b in enumerate(behs):
        for sig in signals:
            mx = b["max"] if b["sizer"] == "items" else BYTES_CLASS[b["max"]]
            reqs = [req_spec(lib, k, big, f) for k, big, f in b["reqs"]]
            s = dict(sid=sid0 + len(out), kind="split", signal=sig, sizer=b["sizer"], max=mx, reqs=reqs)
            if b["sizer"] == "items":
                s["expect"] = b["expect"]
            out.append(s)
    return out


def batch_scripts(c, behs, lib, count, sid0):
    """the same request sequences through the real queue + batcher: inputs only, nothing expected.  The callbacks are
    observed here, so every item must be attributable to its request: a fill that blanks resources is replaced by one
    that does not (PayloadFill!Attributable)"""
    rng = c.rng
    out = []
    att = [f + 1 for f, a in enumerate(lib["attributable"]) if a and f > 0]
    for i in range(count):
        b = behs[rng.randrange(len(behs))]
        items = b["sizer"] == "items"
        mx = b["max"] if items else BYTES_CLASS[b["max"]]
        if mx:
            mn = rng.choice([0, 1, mx, max(1, mx // 2), mx])
        else:
            mn = rng.choice([0, 1, 3, 6]) if items else rng.choice([0, 200, 800])
        reqs = [req_spec(lib, k, big, f if lib["attributable"][f - 1] else rng.choice(att), gap_us=rng.choice([0, 0, 200, 2000]))
                for k, big, f in b["reqs"]]
        # more requests than the behaviour has: repeat it (ids stay distinct, the driver numbers requests)
        if rng.random() < 0.5:
            reqs = reqs + [dict(r, gap_us=rng.choice([0, 500, 5000])) for r in reqs]
        # one script in four: the requests arrive one after the other, 3 ms apart (the order of the behaviour, in practice
        # deterministic), well inside one flush interval
        staggered = rng.random() < 0.25
        if staggered:
            reqs = [dict(r, gap_us=3000 * n) for n, r in enumerate(reqs)]
        out.append(dict(sid=sid0 + i, kind="batch", signal=rng.choice(SIGNALS), sizer=b["sizer"], max=mx, min=min(mn, mx) if mx else mn,
                        flush_ms=60 if staggered else rng.choice([15, 30, 60]), reqs=reqs,
                        fail=sorted(rng.sample(range(1, 7), rng.choice([0, 0, 1, 2]))),
                        export_delay_us=rng.choice([0, 0, 300, 3000])))
    # directed family (what the open finding C04-split-dataless-remainder needs, so that it is exercised by every run and a
    # repair can be validated): a small first request that has to be split alone, max_size = min_size a little below its
    # size (bytes), the next requests a few ms later, the export calls right after its first one fail
    for i in range(count // 6):
        mx = rng.choice(range(200, 330, 10))
        reqs = [req_spec(lib, rng.choice([1, 2, 3, 4, 8]), 0, 1, gap_us=0)]
        reqs += [req_spec(lib, rng.choice(STD), 0, rng.choice([1, 1] + att), gap_us=3000 * (n + 1)) for n in range(rng.choice([1, 2]))]
        out.append(dict(sid=sid0 + count + i, kind="batch", signal=rng.choice(SIGNALS + ["metrics"] * 4), sizer="bytes", max=mx, min=mx,
                        flush_ms=60, reqs=reqs, fail=rng.choice([[2], [2, 3], [3]]), export_delay_us=0))
    return out


def explain(ctxd, got, want):
    g, w = ctxd.get(got, got), ctxd.get(want, want)
    fg = re.findall(r"(\w+)\{(.*?)\}(?= \w+\{|$)", g)
    fw = re.findall(r"(\w+)\{(.*?)\}(?= \w+\{|$)", w)
    diffs = ["%s: emitted {%s} but entered as {%s}" % (ng, vg, vw) for (ng, vg), (nw, vw) in zip(fg, fw) if vg != vw]
    return "; ".join(diffs) or "%s vs %s" % (g, w)


def ctx_groups(canon):
    return dict(re.findall(r"(\w+)\{(.*?)\}(?= \w+\{|$)", canon))


def descriptor_only_loss(ctxd, triples):
    """every item of the part whose context differs lost exactly the metric descriptor: resource, scope and the data point
    itself are as entered, the metric type is kept, and name/unit/description/metadata are empty with temporality and
    monotonicity at their defaults"""
    if not triples:
        return False
    for _id, got, want in triples:
        g, w = ctx_groups(ctxd.get(got, "")), ctx_groups(ctxd.get(want, ""))
        if not g or set(g) != set(w) or "metric" not in g:
            return False
        if any(g[k] != w[k] for k in g if k != "metric"):
            return False
        mg = re.match(r'name="(.*)" unit="(.*)" description="(.*)" type=(\w+) temporality=(\S+) monotonic=(\S+) metadata=(.*)$', g["metric"])
        mw = re.match(r'name="(.*)" unit="(.*)" description="(.*)" type=(\w+) temporality=(\S+) monotonic=(\S+) metadata=(.*)$', w["metric"])
        if not mg or not mw or mg.group(4) != mw.group(4):
            return False
        if (mg.group(1), mg.group(2), mg.group(3), mg.group(7)) != ("", "", "", "{}"):
            return False
        if mg.group(5) not in ("-", "Unspecified") or mg.group(6) not in ("-", "false"):
            return False
    return True


def _callback_facts(events, done_line, r):
    """what the two DoneErrIff signatures need from the events of a script up to the done event of request r: the line at
    which the batcher consumed each request (= the recorded return of its MergeSplit, "split" events), the export calls, and
    whether a failed call holds an item or a container of r (then neither signature applies)"""
    req_of = lambda e: {it["id"] // 1000 - 100 for it in e["items"]}
    mine = lambda e: r in req_of(e) or r in e.get("reqs", [])
    taken, emits, failed = {}, [], set()
    for i, e in enumerate(events[:done_line]):
        if e["ev"] == "split":
            taken.setdefault(e["req"], i)
        elif e["ev"] == "emit":
            emits.append((i, e))
        elif e["ev"] == "emit_end" and not e["ok"]:
            failed.add(e["k"])
    own_failed = any(e["k"] in failed and mine(e) for _, e in emits)
    return req_of, mine, taken, emits, failed, own_failed


def rider_shape(events, done_line, r):
    """DoneErrIff signature C04-done-first-part: the batcher consumed r by a MergeSplit with its held batch whose FIRST result
    holds nothing of r (no item, no container) while a later result does; one of the first three export calls recorded after
    that return (the first result's export; the export of the previous request's last part and the timer's flush of r's kept
    last part may be recorded in between) FAILED, holds no item and no container of r and only items of requests the batcher
    consumed before r (the held batch); no failed call holds an item or a container of r."""
    req_of, mine, taken, emits, failed, own_failed = _callback_facts(events, done_line, r)
    if own_failed or r not in taken:
        return False
    sp = events[taken[r]]
    if not sp["merged"] or r in sp["parts"][0]["reqs"] or not any(r in p["reqs"] for p in sp["parts"][1:]):
        return False
    after = [e for i, e in emits if i > taken[r]][:3]
    return any(e["k"] in failed and not mine(e) and req_of(e) and all(q in taken and taken[q] < taken[r] for q in req_of(e))
               for e in after)


def dataless_tail(events, done_line, r):
    """DoneErrIff signature C04-split-dataless-remainder: the MergeSplit by which the batcher consumed r returned at least two
    parts and its LAST part holds no item and holds containers of r (what is left of r once all its items were extracted) --
    r's completion was counted on a part without data, which the batcher keeps as its current batch and merges later
    requests into -- and an export call recorded after that return failed; no failed call holds an item or a container
    of r."""
    req_of, mine, taken, emits, failed, own_failed = _callback_facts(events, done_line, r)
    if own_failed or r not in taken:
        return False
    parts = events[taken[r]]["parts"]
    if len(parts) < 2 or parts[-1]["n"] != 0 or r not in parts[-1]["reqs"]:
        return False
    return any(e["k"] in failed for i, e in emits if i > taken[r])


def one_whole_profile(s, ids):
    """is the part exactly one profile (several samples) of one request?  ids are (100+k)*1000+j"""
    if s["signal"] != "profiles" or len(ids) < 2:
        return False
    where = set()
    for i in ids:
        k, j = i // 1000 - 100, i % 1000
        if not (1 <= k <= len(s["reqs"])):
            return False
        paths = flat_paths(s["reqs"][k - 1]["shape"])
        if not (1 <= j <= len(paths)):
            return False
        where.add((k, paths[j - 1]))
    if len(where) != 1:
        return False
    (k, path), = where
    return len(ids) == flat_paths(s["reqs"][k - 1]["shape"]).count(path)


def run_and_validate(c, binp, scripts, label):
    sf = os.path.join(c.work, "scripts_%s.ndjson" % label)
    vlib.write_ndjson(sf, scripts)
    tr = os.path.join(c.work, "trace_%s.ndjson" % label)
    rs = os.path.join(c.work, "results_%s.json" % label)
    c.run([binp, "run", sf, tr, rs], timeout=2400)
    c.log("driver ran %d scripts (%s)" % (len(scripts), label))
    res = json.load(open(rs))
    results = {r["sid"]: r for r in res["results"]}
    for r in res["results"]:
        if r.get("error"):
            raise vlib.Inconclusive("driver could not run script %d: %s" % (r["sid"], r["error"]))
    t = c.tlc("Batcher", "BatcherTrace", workers=1, files={"observed.ndjson": tr}, timeout=1500, count=False,
              label="trace_" + label, heap="6g", tag="VIOL")
    done = vlib.extract_printed(t.out, "DONE")
    nlines = sum(1 for _ in open(tr))
    if t.error or t.timed_out or not done or done[0]["lines"] != nlines:
        raise vlib.Inconclusive("trace validation did not run to the end (%s): %s" % (t.error, t.out[-1500:]))
    c.evaluations += done[0]["checks"]
    c.log("TLC validated %d trace lines (%s)" % (nlines, label))
    viol = {}
    for v in t.printed:
        viol.setdefault(v["sid"], []).append(v)
    return results, viol, res["ctx"], tr, res.get("hangs", 0)


def report(c, scripts, results, viol, ctxd, trace_path):
    by_sid = {s["sid"]: s for s in scripts}
    lines = open(trace_path).read().splitlines() if viol else []
    resets = [i for i, x in enumerate(lines) if x.startswith('{"ev":"reset"')]

    def script_start(line):            # index of the reset line of the script that line (1-based) belongs to
        return resets[bisect.bisect_right(resets, line - 1) - 1]
    seen = {}
    for sid, vs in sorted(viol.items()):
        s = by_sid[sid]
        for v in vs:
            cl = v["clause"]
            head = "%s violated by the real code (%s, %s script %d, %s sizer, max %d%s)" % (
                cl, s["signal"], s["kind"], sid, s["sizer"], s["max"], ", min %d" % s["min"] if s["kind"] == "batch" else "")
            sig = None
            key = (cl, s["signal"], s["sizer"])
            if cl == "Identity" and v["detail"]:
                d = v["detail"][0]
                what = head + ": item %s -- %s" % (d[0], explain(ctxd, d[1], d[2]))
                if s["signal"] == "metrics" and descriptor_only_loss(ctxd, v["detail"]):
                    sig = KNOWN_DESCRIPTOR
            elif cl == "Terminates":
                r = results.get(sid, {})
                if not r.get("confirmed") and "hang" in r:
                    continue                                    # not reproduced on the second run: not reported
                what = head + ": " + str(v["detail"])
            elif cl == "SizeBound":
                ev = json.loads(lines[v["line"] - 1])
                ids = [it["id"] for it in ev["items"]]
                what = head + ": a part of %d items measures %s > max" % (len(ids), v["detail"][0])
                if one_whole_profile(s, ids):
                    sig = KNOWN_PROFILE
                    what += " (one whole profile)"
                elif s["signal"] == "metrics" and s["sizer"] == "bytes" and ev.get("shells", 0) > 0:
                    sig = KNOWN_SHELL
                    what += " (the part carries %d unnamed metric shell(s) without data points)" % ev["shells"]
                elif (s["signal"] == "metrics" and s["sizer"] == "bytes" and 0 < ev["size"] - s["max"] <= 2 and
                      any(ctx_groups(ctxd.get(it["c"], "")).get("metric", "x").startswith('name="" ') for it in ev["items"])):
                    sig = KNOWN_PREFIX
                    what += " (the part holds data points split off a metric; excess %d bytes)" % (ev["size"] - s["max"])
            elif cl == "DoneErrIff":
                what = head + ": " + json.dumps(v["detail"])[:300]
                r, err = v["detail"][0], v["detail"][1]
                evs = [json.loads(x) for x in lines[script_start(v["line"]):v["line"]]]
                if err and not v["detail"][2] and rider_shape(evs, len(evs) - 1, r):
                    sig = KNOWN_ATTACH
                    what += " (the failed part before its first part carried its callback without any of its data)"
                elif err and not v["detail"][2] and dataless_tail(evs, len(evs) - 1, r):
                    sig = KNOWN_TAIL
                    what += " (a MergeSplit had returned the emptied remainder of the request as a last part; its callback was counted on it)"
            else:
                what = head + ": " + json.dumps(v["detail"])[:300]
            # report volume: at most 2 violations per (clause, signal, sizer) and piece, 16 in all -- counted among those that
            # no open finding explains, so that the abundant known ones can never crowd a new one out
            if sig is None or c.match_finding(sig) is None:
                seen[key] = seen.get(key, 0) + 1
                if seen[key] > 2 or len(c.violations) >= 16:
                    continue
            c.violation(what, replay_obj=dict(script=s, clause=cl, line=v["line"],
                                              observed=lines[script_start(v["line"]):v["line"]][-200:]), signature=sig)


def run(c):
    q = c.quick()
    # ------------------------------------------------------------------ 1. design
    tail = dict(Reqs='{"r6", "r2", "r1"}', Sizer='"bytes"', MaxSize=3, MinSize=2)      # r6 leaves a remainder without items
    mcs = [dict(), dict(Sizer='"bytes"', MaxSize=3, MinSize=2), dict(MaxSize=0, MinSize=4),
           dict(Reqs='{"r2", "r5", "r1"}', Sizer='"bytes"', MaxSize=3, MinSize=2),
           dict(Reqs='{"r1", "r2", "r3", "r4"}', MaxSize=3, MinSize=3), tail]
    if not q:
        mcs += [dict(MaxSize=1, MinSize=0), dict(MaxSize=3, MinSize=1), dict(Sizer='"bytes"', MaxSize=5, MinSize=5),
                dict(Reqs='{"r1", "r2", "r3", "r4"}', Sizer='"bytes"', MaxSize=2, MinSize=1), dict(MaxSize=4, MinSize=4, CanFail="FALSE"),
                dict(Reqs='{"r6", "r5", "r3"}', Sizer='"bytes"', MaxSize=3, MinSize=3), dict(tail, MinSize=0)]
    # the design runs are independent of each other: side by side (most of their time is JVM start-up)
    W = max(2, min(6, vlib.NCPU // 4))
    with ThreadPoolExecutor(max_workers=4) as ex:
        fs = [ex.submit(c.tlc_must_pass, "Batcher", "BatcherMC", cfg_text=mc_cfg(**kw), coverage=(i == 0), timeout=900,
                        label="design%d" % i, workers=W) for i, kw in enumerate(mcs)]
        rid = dict(Reqs='{"r2", "r5", "r1"}', Sizer='"bytes"', MaxSize=3, MinSize=2)
        fhang = ex.submit(c.tlc, "Batcher", "BatcherMC", cfg_text=mc_cfg(Sizer='"bytes"', MaxSize=3, MinSize=2, Oversized='"hang"'),
                          timeout=300, label="design_hang", count=False, workers=W)
        fatt = ex.submit(c.tlc, "Batcher", "BatcherMC", cfg_text=mc_cfg(Inv="Property", Remainder='"dropped"', **rid), timeout=300,
                         label="design_attach", count=False, workers=W)
        ftail = ex.submit(c.tlc, "Batcher", "BatcherMC", cfg_text=mc_cfg(Inv="DoneErrIff", AttachFirst='"ifgrew"', **tail), timeout=300,
                          label="design_tail", count=False, workers=W)
        freps = [ex.submit(c.tlc_must_pass, "Batcher", "BatcherMC", timeout=300, label="design_repaired%d" % i, workers=W,
                           cfg_text=mc_cfg(Inv="Property", AttachFirst='"ifgrew"', Remainder='"dropped"', **kw))
                 for i, kw in enumerate((rid, tail))]
        for f in fs + freps:
            f.result()
        hang, att, tl = fhang.result(), fatt.result(), ftail.result()
    # non-vacuity 1: the pinned MergeSplit (an oversized item is never extracted) must violate Terminates
    if hang.ok or hang.error != ("invariant", "PropertyKnown"):
        raise vlib.Inconclusive("the model of the non-terminating MergeSplit does not violate Terminates: %s" % (hang.error,))
    c.extra["design_hang_model"] = "Oversized=hang violates PropertyKnown (Terminates) after %d states, as it must" % hang.distinct
    # open finding C04-done-first-part at design level: the tree's variant (AttachFirst = "always") must reach the known
    # predicate, i.e. violate the plain Property (DoneErrIff); the repaired variant ("ifgrew") must satisfy it
    if att.ok or att.error != ("invariant", "Property"):
        raise vlib.Inconclusive("the model of the unconditional callback attachment does not violate DoneErrIff: %s" % (att.error,))
    c.extra["design_attach_model"] = "AttachFirst=always violates the plain Property (DoneErrIff) after %d states" % att.distinct
    if c.match_finding(KNOWN_ATTACH) is not None:       # a counterexample of the model alone is never a violation
        c.violation("design level: DoneErrIff is reachable in Batcher.tla with AttachFirst=always", signature=KNOWN_ATTACH)
    # open finding C04-split-dataless-remainder at design level: with the tree's split (Remainder = "kept": the remainder
    # without items is returned as a part) and the callback attachment repaired, DoneErrIff must still be violated; with
    # both repaired (design_repaired1) the plain Property holds on the same requests
    if tl.ok or tl.error != ("invariant", "DoneErrIff"):
        raise vlib.Inconclusive("the model of the remainder without items does not violate DoneErrIff: %s" % (tl.error,))
    c.extra["design_tail_model"] = "Remainder=kept (AttachFirst=ifgrew) violates DoneErrIff after %d states" % tl.distinct
    if c.match_finding(KNOWN_TAIL) is not None:
        c.violation("design level: DoneErrIff is reachable in Batcher.tla with Remainder=kept", signature=KNOWN_TAIL)
    binp = c.go_build("batcher", pkg="./cmd")
    lib = payload_lib(c)

    if c.replay:
        rp = json.load(open(c.replay))["replay"]
        scripts = [rp["script"]]
        results, viol, ctxd, tr, hangs = run_and_validate(c, binp, scripts, "replay")
        report(c, scripts, results, viol, ctxd, tr)
        c.traces_validated += 1
        c.sample(dict(kind="replayed script", script=scripts[0]))
        c.finish_args = dict(rule="replay of one script")
        return

    # ------------------------------------------------------------------ 2. generated behaviours
    # ordinary payloads (fill 1: everything carries content) over the standard shapes, and payloads with elements left
    # at their defaults (fills 2..7: anonymous items, empty metric entries, blank scopes / resources) over shapes with
    # long runs of such elements and with the small max_size classes that make a split fall inside a run
    all_shapes = list(range(1, len(lib["shapes"]) + 1))
    all_fills = list(range(1, len(lib["fills"]) + 1))
    items_confs = [("items", m) for m in (0, 1, 2, 3, 5)]
    bytes_confs = [("bytes", k) for k in (0, 1, 2, 3)]
    sim_confs = items_confs + bytes_confs + [("bytes", 4), ("bytes", 5), ("bytes", 6)]
    jobs = []
    if q:
        jobs += [("gen_items", 2, STD, items_confs, 0, None, (1,)),
                 ("gen_bytes", 2, [1, 2, 5, 6, 9], bytes_confs, 1, None, (1,)),
                 ("gen_fill_items", 2, [6, 9, 12], [("items", 2), ("items", 5)], 0, None, (1, 3, 4, 7)),
                 ("gen_fill_bytes", 2, [9, 10, 12], [("bytes", 5), ("bytes", 1), ("bytes", 6)], 0, None, (1, 2, 4, 5, 6, 7)),
                 ("gen_sim", 4, all_shapes, sim_confs, 2, "num=150", all_fills)]
        cap = 2500
    else:
        jobs += [("gen_items2", 2, STD, items_confs + [("items", 4), ("items", 7)], 0, None, (1,)),
                 ("gen_items3", 3, [2, 3, 5, 6, 9], items_confs, 0, None, (1,)),
                 ("gen_bytes2", 2, STD, bytes_confs + [("bytes", 4)], 2, None, (1,)),
                 ("gen_bytes3", 3, [2, 5, 6], bytes_confs, 1, None, (1,)),
                 ("gen_fill_items2", 2, [3, 6, 9, 11, 12], [("items", 1), ("items", 2), ("items", 5)], 0, None, all_fills),
                 ("gen_fill_bytes2", 2, [6, 9, 10, 11, 12], [("bytes", k) for k in (5, 1, 6, 2, 3)], 0, None, all_fills),
                 ("gen_fill_bytes3", 3, [10, 12], [("bytes", 5), ("bytes", 1), ("bytes", 6)], 0, None, (1, 2, 4, 6))]
        jobs += [("gen_sim%d" % k, 6, all_shapes, sim_confs, 3, "num=500", all_fills) for k in range(3)]
        cap = 12000
    with ThreadPoolExecutor(max_workers=4) as ex:     # the generator runs are independent too
        sims = [j for j in jobs if j[5]]
        outs = list(ex.map(lambda j: generate(c, j[0], j[1], j[2], j[3], j[4], lib, simulate=j[5], fills=j[6],
                                              seed=c.seed + (0 if q else 1000 * (1 + sims.index(j))) if j[5] else None), jobs))
    behs = []
    for j, out in zip(jobs, outs):
        # the simulator evaluates Emit on every successor of the last step (|shapes| x |big| x |fills| per walk): sample
        behs += c.rng.sample(out, cap) if j[5] and len(out) > cap else out
    c.exhaustive = True
    scripts = split_scripts(behs, lib, SIGNALS, 1)
    nsplit = len(scripts)
    scripts += batch_scripts(c, behs, lib, 400 if q else 4000, len(scripts) + 1)
    c.log("generated %d behaviours -> %d scripts" % (len(behs), len(scripts)))

    # ------------------------------------------------------------------ 3. run + monitor
    # pieces are run and validated side by side (one driver + one TLC each); the batcher scripts, whose time is mostly
    # waiting for flush timers, go first; verdicts are reported in the order of the pieces
    nontrivial = drift = nviol = 0
    stopped = False
    bsz, ssz = (100, 2500) if q else (500, 5000)
    pieces = [scripts[o:o + bsz] for o in range(nsplit, len(scripts), bsz)] + [scripts[o:min(o + ssz, nsplit)] for o in range(0, nsplit, ssz)]
    ex = ThreadPoolExecutor(max_workers=max(2, min(5, vlib.NCPU // 3)))
    try:
        for off, (sub, out) in enumerate(zip(pieces, ex.map(lambda i: run_and_validate(c, binp, pieces[i], "c%d" % i), range(len(pieces))))):
            results, viol, ctxd, tr, hangs = out
            report(c, sub, results, viol, ctxd, tr)
            nviol += len(viol)
            c.traces_validated += sum(1 for r in results.values() if not r.get("skipped"))
            for s in sub:
                r = results.get(s["sid"])
                if r is None or r.get("skipped"):
                    stopped = True
                    continue
                if r["parts"] >= 2:
                    nontrivial += 1
                if r.get("strict") and s["sid"] not in viol:
                    drift += 1
                    if drift <= 3:
                        c.model_drift("script %d (%s, items sizer, max %d): %s" % (s["sid"], s["signal"], s["max"], r["strict"][:400]))
            if off == len(pieces) - 1:
                c.sample(dict(kind="script with its recorded trace (first lines)", script=sub[0],
                              trace=[x.rstrip("\n") for x in itertools.islice(open(tr), 8)]))
            if stopped:
                c.log("%d scripts did not terminate; further scripts of their classes (kind, signal, sizer) were skipped" % hangs)
                if not c.violations:
                    raise vlib.Inconclusive("scripts were skipped without a reported violation")
    finally:
        ex.shutdown(wait=False, cancel_futures=True)
    if drift > 3:
        c.model_drift("%d split scripts in total returned parts other than the specified consecutive chunks (monitor satisfied)" % drift)
    c.extra["scripts"] = dict(total=len(scripts), rejected_by_monitor=nviol)
    c.assumptions += ["completion callbacks are observed through wait_for_result: Send(r) returning = the callback of r fired; a second "
                      "firing is only visible through its side effects (the pooled done object), not directly",
                      "sizes are measured by the driver: items found in the part / length of its protobuf encoding",
                      "item context = digest of resource/scope/schema URLs/metric descriptor (profile header)/item content as found",
                      "items left at their defaults carry no id: the recorder gives one that leaves the id of an indistinguishable "
                      "item (same content and context) that entered and has not left yet, else of one that differs in the metric "
                      "descriptor only, else an id nobody entered; such items are counted, not tracked",
                      "batch scripts: the batcher sees the real requests through a delegating wrapper that records what MergeSplit "
                      "returns; sizers and encoding unwrap it"]
    c.finish_args = dict(rule="every sequence of N request payloads (shape from the TLC shape library x fill: which elements are left "
                              "at their defaults) x sizer x max in the stated grid (bounded exhaustive; big item at the first "
                              "positions for bytes) plus simulated longer ones, each for 4 signals through MergeSplit; seeded "
                              "batcher scripts (min/flush/failures/concurrent or staggered senders) over the same behaviours plus a "
                              "directed family (small first request, max = min just below its size); non-trivial = at least 2 parts",
                         distinct_nontrivial=nontrivial)
