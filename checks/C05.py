"""C05 -- retry resends only the retryable remainder, within limits, never after a verdict.
Spec: specs/RetrySender (RetryObs = observables + the clauses of the statement; RetrySender = the loop of
retry_sender.go Send, one action per step).  Binding: harness/retry (real retry sender behind
exporterhelper.NewLogs(..., WithRetry, WithTimeout), scripted pusher, real time).

  1. TLC exhaustive design check (RetrySenderMC): every outcome sequence x every back-off draw x shutdown in any
     attempt / at any instant of any wait x cancellation, for every configuration of the set; the clauses
     RetryIff, NothingAfterVerdict, DelayAtLeastThrottle, DelayInEnvelope, OnlyRemainderResent,
     ShutdownClassified are invariants.
  2. TLC enumerates (and, for longer ones, samples) complete behaviours as scripts: configuration, backend answers,
     shutdown/cancel points.  The driver runs them in real time against the real code and records what the backend
     saw, the announced intervals, the measured instants and the class of the returned error.
  3. TLC validates the recorded traces (RetrySenderTrace): the same clause operators are evaluated on the real
     observations; decisions that depend on time.Now() are accepted iff consistent with some clock reading in
     the measured interval.  A false statement clause = VIOLATION; a false conformance-only clause = MODEL-DRIFT.
"""
import json, os, re
import vlib

UNIT_NS = 20 * 10**6          # one spec time unit of the scripts = 20 ms
NODL = 1000000
PROPERTY = ["RetryIff", "NothingAfterVerdict", "DelayAtLeastThrottle", "DelayInEnvelope", "OnlyRemainderResent",
            "ShutdownClassified"]
CONFORMANCE = ["ThrottledUpper", "CancelRespected", "ResultReflects"]


def tla_set(xs):
    def f(x):
        if isinstance(x, bool):
            return "TRUE" if x else "FALSE"
        return ('"%s"' % x) if isinstance(x, str) else str(x)
    return "{" + ", ".join(f(x) for x in xs) + "}"


def consts(k):
    return """  NoDeadline = %d
  Eps = 0
  Items = {1, 2, 3}
  MaxAttempts = %d
  Configs <- ConfigSet
  Outcomes <- OutcomeSet
  Inits = %s
  Mult2s = %s
  Maxis = %s
  Rnd2s = %s
  Budgets = %s
  Tmos = %s
  Deadlines = %s
  Enableds = %s
  ThrLo = %d
  ThrHi = %d
  SlowDur = %d
""" % (NODL, k["attempts"], tla_set(k["inits"]), tla_set(k["mult2s"]), tla_set(k["maxis"]), tla_set(k["rnd2s"]),
       tla_set(k["budgets"]), tla_set(k["tmos"]), tla_set(k["deadlines"]), tla_set(k["enableds"]),
       k["thrlo"], k["thrhi"], k["slow"])


def mc_cfg(k):
    return ("SPECIFICATION Spec\nCONSTANTS\n" + consts(k) +
            "INVARIANT Property\nINVARIANT Conformance\nPROPERTY Quiescent\nCHECK_DEADLOCK FALSE\n")


def gen_cfg(k):
    return ("SPECIFICATION GenSpec\nCONSTANTS\n" + consts(k) + "INVARIANT Emit\nINVARIANT Property\nCHECK_DEADLOCK FALSE\n")


def trace_cfg():
    return ("SPECIFICATION TSpec\nCONSTANTS\n  NoDeadline = 2000000000\n  Eps = 1\nCONSTRAINT HighWater\n" +
            "".join("INVARIANT %s\n" % x for x in PROPERTY + CONFORMANCE) + "POSTCONDITION Accepted\nCHECK_DEADLOCK FALSE\n")


COARSE = dict(inits=[1, 2], mult2s=[2, 4], maxis=[2, 4], rnd2s=[0, 1], budgets=[0, 4, 7], tmos=[0, 2],
              deadlines=[NODL, 5], enableds=[True, False], thrlo=1, thrhi=3, slow=1)
# scripts: finer units so that randomization 1/2 gives a real interval (unit = 20 ms)
FINE = dict(inits=[2, 4], mult2s=[2, 3, 4], maxis=[4, 8], rnd2s=[0, 1], budgets=[0, 8, 14], tmos=[0, 4],
            deadlines=[NODL, 10], enableds=[True, False], thrlo=1, thrhi=6, slow=2)


def key(s):
    return json.dumps({x: s[x] for x in ("cfg", "outs", "stop", "cancel")}, sort_keys=True)


def generate(c, label, k, simulate=None, depth=None, seed=None, timeout=900):
    r = c.tlc("RetrySender", "RetrySenderGenMC", cfg_text=gen_cfg(k), workers=1, timeout=timeout, label=label,
              count=False, heap="8g", simulate=simulate, depth=depth, seed=seed)
    if r.timed_out or r.error:
        raise vlib.Inconclusive("generator %s failed: %s %s" % (label, r.error, r.out[-800:]))
    if not r.printed:
        raise vlib.Inconclusive("generator %s printed nothing" % label)
    seen, out = set(), []
    for s in r.printed:
        kk = key(s)
        if kk not in seen:
            seen.add(kk)
            out.append(s)
    r.out = ""
    return out


def interesting(s):
    """scripts that reach a decision: at least one failing answer"""
    return any(o["kind"] != "ok" for o in s["outs"])


def record(c, binp, scripts, name, par=64):
    """Run the scripts on the real code; returns {sid: [trace lines]}."""
    inp = os.path.join(c.work, "scripts_%s.ndjson" % name)
    tr = os.path.join(c.work, "trace_%s.ndjson" % name)
    with open(inp, "w") as fh:
        for s in scripts:
            fh.write(json.dumps(s, separators=(",", ":")) + "\n")
    c.run([binp, "run", str(UNIT_NS), str(par), inp, tr], timeout=1800)
    by_sid = {}
    for ln in open(tr).read().splitlines():
        e = json.loads(ln)
        if e["ev"] == "begin":
            cur_sid = e["sid"]
        if e["ev"] != "end":
            by_sid.setdefault(cur_sid, []).append(ln)
    if len(by_sid) != len(scripts):
        raise vlib.Inconclusive("driver recorded %d of %d scripts" % (len(by_sid), len(scripts)))
    return by_sid


def judge(c, by_sid, name, max_rej=4):
    """TLC validates the traces.  Returns the list of rejections [(sid, clause)] (a rejected trace is removed and
    the rest is validated again, so that every trace gets a verdict, up to max_rej rejections)."""
    rejected = []
    excluded = set()
    for attempt in range(max_rej):
        lines = [ln for sid in sorted(by_sid) if sid not in excluded for ln in by_sid[sid]] + ['{"ev":"end"}']
        r = c.tlc("RetrySender", "RetrySenderTrace", cfg_text=trace_cfg(), workers=1,
                  files={"observed.ndjson": "\n".join(lines) + "\n"}, timeout=900, label="trace_%s_%d" % (name, attempt),
                  count=False, heap="6g")
        if r.timed_out:
            raise vlib.Inconclusive("trace validation timed out")
        if r.ok:
            return rejected, True
        if r.error and r.error[0] == "invariant":
            sids = re.findall(r"^/\\ sid = (-?\d+)", r.out, re.M)
            if not sids:
                raise vlib.Inconclusive("trace validation: cannot locate the rejected script\n" + r.out[-1500:])
            rejected.append((int(sids[-1]), r.error[1]))
            excluded.add(int(sids[-1]))
            continue
        raise vlib.Inconclusive("trace validation failed without a verdict: %s" % r.out[-1500:])
    return rejected, False      # the remaining traces have not been judged


def validate(c, binp, scripts, name, par=64, confirm=True):
    """Run + validate.  A rejected trace of a statement clause is a violation once the same script is rejected
    again when it is re-run (all decisions are deterministic given the clock; a single unrepeatable rejection
    can only come from a scheduling stall inside a measured window and is recorded, not reported).
    Returns the number of accepted traces."""
    by_sid = record(c, binp, scripts, name, par)
    c.sample(dict(kind="script and its real trace, validated by TLC", script=scripts[0],
                  trace=[json.loads(x) for x in by_sid[0]][:8]))
    rejected, complete = judge(c, by_sid, name)
    for sid, clause in rejected:
        evs = [json.loads(x) for x in by_sid[sid]]
        brief = [{k: v for k, v in e.items() if k not in ("beyond", "cfg")} for e in evs]
        what = "clause %s is false on the observations of the real retry sender: cfg(us)=%s trace=%s" % (
            clause, evs[0]["cfg"], brief)
        if clause in CONFORMANCE:
            c.model_drift(what[:1500])
            continue
        if confirm and not c.violations:     # once one rejection is confirmed the rest is reported as observed
            again = record(c, binp, [scripts[sid]] * 4, "%s_confirm%d" % (name, sid), par=2)
            rej2 = [cl for _, cl in judge(c, again, "%s_confirm%d" % (name, sid), max_rej=1)[0] if cl not in CONFORMANCE]
            if not rej2:
                c.log("unconfirmed rejection (%s) of script %d: not repeated in 4 re-runs" % (clause, sid))
                c.extra.setdefault("unconfirmed_rejections", []).append(dict(clause=clause, script=scripts[sid], observed=evs))
                continue
        c.violation(what, replay_obj=dict(mode="script", script=scripts[sid], clause=clause, observed=evs))
    if not complete:
        c.log("%s: validation stopped after %d rejected traces; the remaining traces are not counted" % (name, len(rejected)))
        return 0
    return len(by_sid) - len(rejected)


def zero_wait_stage(c, binp, zs):
    """initial_interval = 0 and shutdown during the retry sequence (see run()): returns the number of scripts run"""
    by_sid = record(c, binp, zs, "zerowait", par=4)
    for sid, lines in sorted(by_sid.items()):
        evs = [json.loads(l) for l in lines]
        stop_at = next(i + 1 for i, o in enumerate(zs[sid]["outs"]) if o["stop"])
        att = [e for e in evs if e["ev"] == "attempt"]
        after = [e for e in att if e["n"] > stop_at]
        res = next((e for e in evs if e["ev"] == "result"), None)
        bad = None
        if len(after) > 40:
            bad = "%d further attempts after the exporter was shut down during attempt %d (every wait is 0)" % (len(after), stop_at)
        elif res is None or res["cls"] != "shutdown":
            bad = "Send ended with a %s error although the retry sequence was ended by the shutdown" % (res and res["cls"])
        if bad:
            c.violation("clause RetryIff / ShutdownClassified (initial_interval = 0): %s" % bad,
                        replay_obj=dict(kind="zerowait", script=zs[sid]))
            break
    return len(by_sid)


def run(c):
    q = c.quick()

    if c.replay:
        rp = json.load(open(c.replay))["replay"]
        k = dict(COARSE, attempts=2, inits=[1], mult2s=[4], maxis=[2], budgets=[0], tmos=[0], deadlines=[NODL])
        c.tlc_must_pass("RetrySender", "RetrySenderMC", cfg_text=mc_cfg(k), timeout=300, label="design")
        binp = c.go_build("retry", pkg="./cmd")
        n = 0
        if rp.get("kind") == "zerowait":
            n += zero_wait_stage(c, binp, [rp["script"]])
        else:
            n += validate(c, binp, [rp["script"]] * 4, "replay", par=2, confirm=False)   # real time: a few runs
        c.traces_validated = n
        return

    # ---------------------------------------------------------------- 1. design
    # (TLC's -coverage slows the search several times: vacuity is checked on a small instance, the big ones run without)
    designs = [("coverage", dict(COARSE, attempts=2, inits=[1], maxis=[2], tmos=[2]), True)]
    if q:
        designs += [("coarse3", dict(COARSE, attempts=3, tmos=[2]), False)]
    else:
        designs += [("coarse3", dict(COARSE, attempts=3), False),
                    ("coarse4", dict(COARSE, attempts=4, tmos=[2], maxis=[4]), False),
                    ("fine3", dict(FINE, attempts=3, inits=[2], mult2s=[3, 4], maxis=[8], budgets=[0, 14], tmos=[4]), False)]
    for name, k, cov in designs:
        r = c.tlc_must_pass("RetrySender", "RetrySenderMC", cfg_text=mc_cfg(k), coverage=cov, timeout=2400,
                            label="design_" + name, heap="12g")
        c.log("design %s: %d distinct / %d generated states, depth %d, %.1fs" % (name, r.distinct, r.generated, r.depth, r.wall))

    binp = c.go_build("retry", pkg="./cmd")

    # ---------------------------------------------------------------- 2. scripts
    pools = []
    if q:
        pools.append(("exh3", generate(c, "gen_exh3", dict(FINE, attempts=3, inits=[4], mult2s=[3, 4], maxis=[4, 8],
                                                           budgets=[0, 14], tmos=[4])), 1200))
        pools.append(("sim5", generate(c, "gen_sim5", dict(FINE, attempts=5), simulate="num=400", depth=16, seed=c.seed), 300))
    else:
        for bi, b in enumerate(FINE["budgets"]):
            for di, d in enumerate(FINE["deadlines"]):
                pools.append(("exh3_%d%d" % (bi, di),
                              generate(c, "gen_exh3_%d%d" % (bi, di), dict(FINE, attempts=3, budgets=[b], deadlines=[d]),
                                       timeout=1800), 1500))
        for s in range(3):
            pools.append(("sim6_%d" % s, generate(c, "gen_sim6_%d" % s, dict(FINE, attempts=6), simulate="num=3000",
                                                  depth=20, seed=c.seed * 10 + s), 1500))
    total = 0
    nontrivial = 0
    generated = 0
    for name, pool, take in pools:
        generated += len(pool)
        pool = [s for s in pool if interesting(s)]
        scripts = c.rng.sample(pool, min(take, len(pool)))
        n = validate(c, binp, scripts, name)
        total += n
        nontrivial += sum(1 for s in scripts if len(s["outs"]) >= 2 or s["stop"]["n"] or s["cancel"]["n"])
        c.log("%s: %d scripts generated, %d run on the real code, %d traces accepted by TLC" % (name, len(pool), len(scripts), n))

    # ---------------------------------------------------------------- zero back-off interval and shutdown
    # initial_interval = 0 is accepted by validation: every wait is 0.  When the exporter is shut down during such a retry
    # sequence the wait's select sees "stopped" and "timer" ready together, so ONE more attempt may follow (and another one
    # with probability 1/2, ...), but "retried iff the exporter is not shutting down" must take effect: the number of attempts
    # made after the shutdown is geometrically distributed, and Send ends with a shutdown-classified error.  The clause is
    # statistical, so it is decided here and not by the trace specification (which admits each single continuation):
    # more than 40 attempts after the shutdown has probability 2^-40 on code that looks at the stop signal in every wait.
    # (seeded change C05-7: a fast path for delay <= 0 that only consults the context.)
    zs = []
    for stop_at in (1, 2, 3, 5):
        for rep in range(3):
            outs = [dict(kind="transient", thr=0, dur=0, sub="-", stop=(i + 1 == stop_at)) for i in range(400)]
            zs.append(dict(cfg=dict(enabled=True, init=0, mult2=3, maxi=4, rnd2=(rep % 2), budget=0, tmo=0, deadline=NODL),
                           outs=outs, stop=dict(n=0, when=""), cancel=dict(n=0, when=""), nominal=None))
    nz = zero_wait_stage(c, binp, zs)
    total += nz
    c.extra["zero_interval_shutdown_scripts"] = nz

    c.traces_validated = total
    c.evaluations = total
    c.exhaustive = False
    c.extra["scripts_generated"] = generated
    c.assumptions += [
        "the interval the sender waits is read from its own log line (zap field \"interval\"); independently every retry is "
        "required to start no earlier than the envelope's lower bound / the asked delay after the failed attempt returned",
        "time.Now()-dependent decisions are accepted iff consistent with some clock reading in the measured interval",
        "configurations: initial_interval <= max_interval, multiplier in {1, 1.5, 2}, randomization_factor in {0, 0.5}; "
        "max_interval = 0, multiplier < 1 and initial_interval > max_interval are not covered",
        "logs signal only (the partial-failure narrowing of traces/metrics requests is the same three-line function)",
        "context cancellation during a wait and the exact class of a non-shutdown error are conformance-only (statement silent)"]
    c.finish_args = dict(rule="scripts = complete behaviours of RetrySender enumerated by TLC (<= 3 attempts, draws at the ends of the "
                              "envelope, interruptions at the start/middle of a wait) plus simulated longer ones; a seeded sample is run; "
                              "non-trivial = at least two attempts or a shutdown/cancel point",
                         distinct_nontrivial=nontrivial)
