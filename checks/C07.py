"""C07 -- pdata copy / move / remove / read-only operations have value semantics.
Spec: specs/PData (PData.tla reference with value semantics, PDataImpl.tla implementation-shaped: backing arrays,
capacity, stale slots, nested slice headers).  Binding: harness/pdata (reflection driver over EVERY generated
slice type, pcommon.Map, pcommon.Slice, the primitive slices; elements = every message type / pcommon.Value).
  1. TLC exhaustive: the clauses of the statement on the reference (PDataMC) and the refinement
     implementation-shaped model => reference (PDataImplMC: pointer slices, value slices, maps; repaired CopyTo).
  2. TLC on the model of the PINNED CopyTo (FixedSlots / FixedUnset = FALSE): its counterexamples are programs;
     they are replayed on the real code like any other program (a model counterexample alone is no verdict).
  3. TLC generates programs (bounded-exhaustive BFS + seeded simulation) with the reference content of every
     variable and the expected panic after every step (PDataGen); the Go driver applies each program to every
     type of the kind profile and compares real content (every public getter) and panics after every step.
"""
import json, os, re, glob, threading
import vlib

ALLOPS = ["append", "put", "touch", "remove", "removeif", "ensure", "sort", "copy", "move", "moveappend",
          "ecopy", "emove", "fromraw", "clear", "markro"]

PROFILES = {
    # kind profile -> constants of PData.tla
    "ptrslice": dict(ops=["append", "touch", "removeif", "ensure", "sort", "copy", "moveappend", "ecopy", "emove", "markro"],
                     smin=0, smax=2, preds=["first", "last", "evens", "all"], keys=[], caps=[4], rawlens=[], rawshape=0,
                     maxlen=4, maxkids=2, zerotouch=True, initlens=[0, 2, 3]),
    "valslice": dict(ops=["append", "touch", "removeif", "ensure", "copy", "moveappend", "ecopy", "emove", "markro"],
                     smin=0, smax=2, preds=["first", "last", "evens", "all"], keys=[], caps=[4], rawlens=[], rawshape=0,
                     maxlen=4, maxkids=2, zerotouch=True, initlens=[0, 2, 3]),
    "anyslice": dict(ops=["append", "touch", "removeif", "ensure", "copy", "moveappend", "ecopy", "emove", "fromraw", "markro"],
                     smin=1, smax=4, preds=["first", "last", "evens", "all"], keys=[], caps=[4], rawlens=[0, 2], rawshape=1,
                     maxlen=4, maxkids=2, zerotouch=False, initlens=[0, 2, 3]),
    "map": dict(ops=["put", "touch", "remove", "removeif", "ensure", "copy", "move", "ecopy", "emove", "fromraw", "clear", "markro"],
                smin=1, smax=4, preds=["ideven", "idodd", "all"], keys=[1, 2, 3], caps=[4], rawlens=[0, 2], rawshape=1,
                maxlen=3, maxkids=2, zerotouch=False, initlens=[0, 2, 3]),
    # uniform container shapes: every value is a map / a slice / a byte slice, so that a destination slot and the
    # source element copied into it have the same one-of alternative (the case in which Value.CopyTo re-uses the
    # destination's wrapper)
    "anyslice_maps": dict(kind="anyslice", base="anyslice", smin=2, smax=2),
    "anyslice_bytes": dict(kind="anyslice", base="anyslice", smin=4, smax=4),
    "map_maps": dict(kind="map", base="map", smin=2, smax=2),
    "map_slices": dict(kind="map", base="map", smin=3, smax=3),
    "prim": dict(ops=["append", "touch", "ensure", "copy", "move", "fromraw", "markro"],
                 smin=0, smax=0, preds=[], keys=[], caps=[4, 8], rawlens=[0, 2], rawshape=0,
                 maxlen=4, maxkids=0, zerotouch=True, initlens=[0, 2, 3]),
}


for _n, _p in list(PROFILES.items()):
    if "base" in _p:
        PROFILES[_n] = dict(PROFILES[_p["base"]], **_p)
    PROFILES[_n].setdefault("kind", _n)


def tla_set(xs, quote=False):
    return "{" + ", ".join(('"%s"' % x) if quote else str(x) for x in xs) + "}"


def consts(p, nvars):
    return """  Vars = %s
  Ops = %s
  SMin = %d
  SMax = %d
  Preds = %s
  Keys = %s
  Caps = %s
  RawLens = %s
  RawShape = %d
  MaxLen = %d
  MaxKids = %d
  ZeroTouch = %s
""" % (tla_set(["x", "y", "z"][:nvars], True), tla_set(p["ops"], True), p["smin"], p["smax"], tla_set(p["preds"], True),
       tla_set(p["keys"]), tla_set(p["caps"]), tla_set(p["rawlens"]), p["rawshape"], p["maxlen"], p["maxkids"],
       "TRUE" if p["zerotouch"] else "FALSE")


def gen_cfg(p, nvars, n, initlens=None):
    return "SPECIFICATION GenSpec\nCONSTANTS\n" + consts(p, nvars) + \
           "  N = %d\n  InitLens = %s\nINVARIANT Emit\nCHECK_DEADLOCK FALSE\n" % (n, tla_set(initlens or p["initlens"]))


def impl_cfg(p, ptr, fixed_slots, fixed_unset, steps, smin=0, smax=1):
    q = dict(p, smin=smin, smax=smax)
    return "SPECIFICATION MCSpec\nCONSTANTS\n" + consts(q, 2) + \
           "  Ptr = %s\n  FixedSlots = %s\n  FixedUnset = %s\n  MaxSteps = %d\n  InitLens = %s\n" \
           "INVARIANT Refines\nPROPERTY ImplValueSemantics\nCHECK_DEADLOCK FALSE\n" % (
               "TRUE" if ptr else "FALSE", "TRUE" if fixed_slots else "FALSE", "TRUE" if fixed_unset else "FALSE",
               steps, tla_set(p["initlens"]))


def ref_cfg(steps):
    p = dict(ops=ALLOPS, smin=0, smax=2, preds=["first", "last", "evens", "all", "ideven"], keys=[1, 2, 3], caps=[4],
             rawlens=[0, 2], rawshape=1, maxlen=3, maxkids=2, zerotouch=True)
    return "SPECIFICATION MCSpec\nCONSTANTS\n" + consts(p, 2) + \
           "  MaxSteps = %d\n  InitLens = {0, 2, 3}\nINVARIANT TypeOK\nPROPERTY MCProp\nCHECK_DEADLOCK FALSE\n" % steps


def trace_to_behaviour(path):
    """TLC -dumpTrace json of a PDataImplMC counterexample -> behaviour in the PDataGen encoding (+ final touchall
    is not part of it: the driver compares after every step anyway)."""
    t = json.load(open(path))
    out = []
    for st in t["counterexample"]["state"]:
        s = st[1]
        o = s["last"]
        out.append(dict(o=[o["op"], o["a"], o["b"], o["i"], o["j"], o["s"], o["p"], o["n"]], p=s["pan"],
                        v={k: [[e["id"], e["t"], e["s"], list(e["k"])] for e in v] for k, v in s["val"].items()}))
    return out


def scan_constructors():
    """public constructors of the generated pdata types present in the tree under test"""
    names = set()
    for pkg in ["pcommon", "plog", "pmetric", "ptrace", "pprofile"]:
        for f in glob.glob(os.path.join(vlib.REPO, "pdata", pkg, "generated_*.go")):
            if f.endswith("_test.go"):
                continue
            for m in re.finditer(r"^func New(\w+)\(\) (\w+) \{", open(f).read(), re.M):
                if m.group(1) == m.group(2):
                    names.add("%s.%s" % (pkg, m.group(2)))
    return names


CLASS_TEXT = {
    "panic-unexpected": "operation panicked although no value involved is read-only",
    "panic-missing": "mutator on a read-only value did not panic",
    "state": "content differs from the reference after the operation",
    "readonly-mutator": "mutator reachable from a read-only payload did not panic",
    "reader-panic": "reader panicked",
}


def diff_window(want, got, width=110):
    """the two dumps around their first difference"""
    i = 0
    while i < min(len(want), len(got)) and want[i] == got[i]:
        i += 1
    lo = max(0, i - 40)
    return "want ...%s... got ...%s... (first difference at offset %d)" % (want[lo:lo + width], got[lo:lo + width], i)


def fmt_prog(beh, upto):
    def one(s):
        o = s["o"]
        args = [str(x) for x in o[1:] if x not in ("-", 0)]
        return "%s(%s)" % (o[0], ",".join(args))
    init = beh[0]["v"]
    return "init %s ; %s" % ({k: [e[1] for e in v] for k, v in sorted(init.items())},
                             " ; ".join(one(s) for s in beh[1:upto + 1]))


def run(c):
    q = c.quick()
    lock = threading.Lock()

    # All TLC runs of a tier are independent: they run concurrently (bounded), results are gathered in the main thread.
    jobs = []      # (key, kwargs for c.tlc)

    def job(key, module, **kw):
        jobs.append((key, module, kw))

    # ------------------------------------------------------------------ 1. design
    steps = 2 if q else 3
    job(("design", "reference"), "PDataMC", cfg_text=ref_cfg(2 if q else 3), timeout=1500, workers=4)
    for name, prof, ptr, smin, smax in (("ptr", "ptrslice", True, 0, 1), ("val", "anyslice", False, 1, 2), ("map", "map", False, 1, 2)):
        job(("design", "impl_" + name), "PDataImplMC", cfg_text=impl_cfg(PROFILES[prof], ptr, True, True, steps, smin, smax),
            timeout=2400, workers=4 if q else 8, heap="8g")

    if not q:
        # one operation deeper over the operations that create, expose or hide stale slots
        deep = ["touch", "remove", "removeif", "ensure", "copy", "moveappend", "sort", "ecopy"]
        for name, prof, ptr, smin, smax in (("ptr", "ptrslice", True, 0, 1), ("val", "anyslice", False, 1, 2), ("map", "map", False, 1, 2)):
            pp = dict(PROFILES[prof], ops=[o for o in PROFILES[prof]["ops"] if o in deep], initlens=[0, 3],
                      preds=[x for x in PROFILES[prof]["preds"] if x in ("first", "evens", "all", "ideven")])
            job(("design", "impl_%s_deep" % name), "PDataImplMC", cfg_text=impl_cfg(pp, ptr, True, True, 4, smin, smax),
                timeout=2400, workers=8, heap="8g")

    # ------------------------------------------------------------------ 2. model of the pinned CopyTo
    pinned = (("ptr_slots", "ptrslice", True, False, True, 0, 1), ("ptr_unset", "ptrslice", True, True, False, 0, 1),
              ("val_slots", "valslice", False, False, True, 1, 2), ("any_slots", "anyslice_maps", False, False, True, 2, 2),
              ("map_slots", "map_maps", False, False, True, 2, 2))
    # (searched over the operations that matter for stale slots: a model of the pinned code may use any subset)
    focus = ["touch", "removeif", "remove", "ensure", "copy", "ecopy"]
    if c.replay:
        pinned = ()
    for name, prof, ptr, fs, fu, smin, smax in pinned:
        pp = dict(PROFILES[prof], ops=[o for o in PROFILES[prof]["ops"] if o in focus], initlens=[0, 2, 3] if ptr else [2])
        job(("pinned", name), "PDataImplMC", cfg_text=impl_cfg(pp, ptr, fs, fu, 3, smin, smax), timeout=1500,
            workers=4, extra_args=["-dumpTrace", "json", os.path.join(c.work, "cex_%s.json" % name)])

    # ------------------------------------------------------------------ 3. program generators
    if not c.replay:
        for prof in PROFILES:
            p = PROFILES[prof]
            # bounded exhaustive: every program of exactly N operations from every initial content
            variant = "base" in p
            # bounded exhaustive: every program of exactly 2 operations (+ final touchall) from every initial content
            pq = dict(p, smax=min(p["smax"], 3)) if (q and prof == "map") else p
            job(("gen", prof, "bfs2"), "PDataGen", cfg_text=gen_cfg(pq, 2, 2), workers=1, heap="4g", deadlock=False)
            if variant and q:
                continue
            if not q:
                job(("gen", prof, "bfs1"), "PDataGen", cfg_text=gen_cfg(p, 2, 1), workers=1, heap="4g", deadlock=False)
                if prof == "prim":   # small alphabet: every program of 3 operations as well
                    job(("gen", prof, "bfs3"), "PDataGen", cfg_text=gen_cfg(p, 2, 3), workers=1, heap="6g", deadlock=False)
            # seeded random deeper programs (quick: 4 operations over two variables; thorough: 5 over three, several seeds)
            if q:
                job(("gen", prof, "sim"), "PDataGen", cfg_text=gen_cfg(p, 2, 4), workers=1, heap="4g", deadlock=False,
                    simulate="num=300", depth=7, seed=c.seed)
            else:
                nseeds = 4 if prof == "ptrslice" else (1 if variant else 2)
                for k in range(nseeds):
                    job(("gen", prof, "sim%d" % k), "PDataGen", cfg_text=gen_cfg(p, 3, 5), workers=1, heap="4g", deadlock=False,
                        simulate="num=3000", depth=8, seed=c.seed * 100 + k)

    results = {}
    errors = []
    sem = threading.Semaphore(6)

    def runjob(key, module, kw):
        with sem:
            try:
                kw.setdefault("timeout", 1500)
                r = c.tlc("PData", module, label="_".join(key), count=False, **kw)
                with lock:
                    results[key] = r
            except Exception as e:   # noqa
                with lock:
                    errors.append((key, e))
    threads = [threading.Thread(target=runjob, args=j) for j in jobs]
    for t in threads:
        t.start()
    for t in threads:
        t.join()
    if errors:
        raise vlib.Inconclusive("TLC run failed: %s" % (errors[:2],))

    for key, module, kw in jobs:
        r = results[key]
        if key[0] == "design":
            if r.timed_out or not r.ok:
                raise vlib.Inconclusive("TLC design check failed on %s: %s\n%s" % (key[1], r.error, r.trace_text[:3000] or r.out[-2000:]))
            c.states += r.distinct
            c.transitions += r.generated

    model_cex = {}          # profile -> [behaviour]
    for name, prof, ptr, fs, fu, smin, smax in pinned:
        r = results[("pinned", name)]
        tr = os.path.join(c.work, "cex_%s.json" % name)
        if r.timed_out:
            raise vlib.Inconclusive("TLC timed out on pinned model " + name)
        if r.error and r.error[0] == "invariant" and os.path.exists(tr):
            beh = trace_to_behaviour(tr)
            model_cex.setdefault(prof, []).append(beh)
            c.log("pinned model %s: counterexample of %d operations: %s" % (name, len(beh) - 1, fmt_prog(beh, len(beh) - 1)))
        elif r.ok:
            c.log("pinned model %s: no counterexample within the bound" % name)
        else:
            raise vlib.Inconclusive("pinned model %s failed: %s\n%s" % (name, r.error, r.out[-1500:]))
    c.extra["pinned_model_counterexamples"] = {k: [fmt_prog(b, len(b) - 1) for b in v] for k, v in model_cex.items()}

    binp = c.go_build("pdata", pkg="./cmd")
    lst = json.loads(c.run([binp, "list"], timeout=120).stdout)
    have = set(lst["registry"])
    missing = sorted(scan_constructors() - have)
    if missing:
        raise vlib.Inconclusive("generated pdata types without an entry in harness/pdata/cmd/registry.go: %s" % missing)
    types_by_profile = {}
    for t in lst["types"]:
        types_by_profile.setdefault(t["Profile"], []).append(t["Name"])
    c.extra["types"] = {k: len(v) for k, v in types_by_profile.items()}

    if c.replay:
        rp = json.load(open(c.replay))["replay"]
        plan = [(rp["profile"], "replay", [rp["behaviour"]], rp.get("type"))]
    else:
        plan = []
        for key, module, kw in jobs:
            if key[0] != "gen":
                continue
            r = results[key]
            if r.timed_out or r.error or not r.printed:
                raise vlib.Inconclusive("generator %s failed: %s %s" % (key, r.error, r.out[-800:]))
            plan.append((key[1], key[2], r.printed, None))
        plan.sort(key=lambda x: (list(PROFILES).index(x[0]), x[1]))
        for prof, behs in model_cex.items():
            plan.append((prof, "pinned-model", behs, None))

    # ------------------------------------------------------------------ 4. replay on the real code
    total_pairs = 0
    total_steps = 0
    ro_attempts = 0
    nontrivial = 0
    groups = {}      # (class, op, profile) -> dict(types=set, first=(type, mismatch, behaviour))
    per_profile = {}
    for prof, name, behs, only_type in plan:
        f = os.path.join(c.work, "beh_%s_%s.ndjson" % (prof, name))
        with open(f, "w") as fh:
            for b in behs:
                fh.write(json.dumps(b, separators=(",", ":")) + "\n")
        pj = os.path.join(c.work, "prof_%s_%s.json" % (prof, name))
        kind = PROFILES[prof]["kind"]
        cfg = {"profile": kind}
        if only_type:
            cfg["types"] = "^" + re.escape(only_type) + "$"
        # quick tier: the two-operation programs are dealt round-robin over the types of a profile (every program
        # runs on every 2nd type, every type sees every 2nd program); thorough: every program on every type
        stride = 2 if (q and name == "bfs2" and len(types_by_profile.get(kind, [])) >= 4) else 1
        cfg["stride"], cfg["offset"] = stride, c.seed
        json.dump(cfg, open(pj, "w"))
        out = os.path.join(c.work, "res_%s_%s.json" % (prof, name))
        c.run([binp, "run", pj, f, out], timeout=3000)
        res = json.load(open(out))
        if res["behaviours"] != len(behs):
            raise vlib.Inconclusive("driver read %d of %d behaviours" % (res["behaviours"], len(behs)))
        want_types = [only_type] if only_type else types_by_profile.get(kind, [])
        if sorted(res["types"].keys()) != sorted(want_types):
            raise vlib.Inconclusive("driver ran types %s, expected %s" % (sorted(res["types"].keys()), sorted(want_types)))
        bad = 0
        for ti, (tname, tr) in enumerate(sorted(res["types"].items())):
            expect = sum(1 for bi in range(len(behs)) if (bi + ti + c.seed) % stride == 0)
            if tr["programs"] != expect:
                raise vlib.Inconclusive("driver ran %d of %d programs on %s" % (tr["programs"], expect, tname))
            total_pairs += tr["programs"] - tr["mismatched_programs"]
            total_steps += tr["compared"]
            ro_attempts += tr["readonly_mutators_attempted"]
            bad += tr["mismatched_programs"]
            for m in tr["mismatches"] or []:
                if m["class"] == "readonly-mutator":     # one finding per mutator, whatever container hosted it
                    key = (m["class"], " ".join(sorted(set((m.get("got") or "").split()))), "*")
                else:
                    key = (m["class"], m["op"][0], kind)
                g = groups.setdefault(key, dict(types=set(), first=None, n=0))
                g["types"].add(tname)
                g["n"] += 1
                beh = behs[m["beh"]]
                if g["first"] is None or m["step"] < g["first"][1]["step"]:
                    g["first"] = (tname, m, beh, prof)
        nontrivial += sum(1 for b in behs if len(set(s["o"][0] for s in b[1:-1])) >= 2)
        pp = per_profile.setdefault(prof, dict(programs=0, types=len(want_types), mismatched_pairs=0))
        pp["programs"] += len(behs)
        pp["mismatched_pairs"] += bad
        c.log("%-14s %-12s %6d programs x %2d types: %d mismatching (program,type) pairs" % (prof, name, len(behs), len(want_types), bad))
        if name == "bfs2" or name.startswith("sim"):
            if len(c.samples) < 4:
                b = behs[len(behs) // 2]
                c.sample(dict(kind="replayed program (%s, %s)" % (prof, name), program=fmt_prog(b, len(b) - 1),
                              expected_final={k: v for k, v in b[-1]["v"].items()}))

    for (cls, op, kind), g in sorted(groups.items()):
        tname, m, beh, prof = g["first"]
        if cls == "readonly-mutator":
            detail = "mutator(s) " + op
        elif cls == "state":
            detail = "var %s %s" % (m.get("var"), diff_window(m.get("want") or "", m.get("got") or ""))
        else:
            detail = m.get("panic") or ""
        what = "%s: %s [%s on %s; %d type(s): %s]; program: %s" % (
            CLASS_TEXT.get(cls, cls), detail, m["op"][0], prof, len(g["types"]),
            ", ".join(sorted(g["types"])[:4]) + (" ..." if len(g["types"]) > 4 else ""), fmt_prog(beh, m["step"]))
        c.violation(what, replay_obj=dict(profile=prof, type=tname, behaviour=beh, step=m["step"], mismatch=m),
                    signature="C07:%s:%s:%s" % (cls, op, kind))

    c.traces_validated += total_pairs
    c.evaluations = total_steps
    c.exhaustive = (not c.replay) and (not q)   # quick deals the 2-operation programs over the types (every 2nd type)
    c.extra["per_profile"] = per_profile
    c.extra["readonly_mutators_attempted"] = ro_attempts
    c.assumptions += [
        "element content is derived from (tag, shape, kids): every scalar setter found by reflection gets a value derived from the tag; "
        "one-of alternatives / optional fields follow the shape; every nested container of an element carries the kids",
        "map entries are compared as a set (the statement does not order map entries)",
        "capacity growth of Go append is not specified; PDataImpl uses deterministic doubling",
        "non-element message types (Resource, InstrumentationScope, Status ...) are exercised only as parts of elements",
    ]
    c.finish_args = dict(rule="every program of exactly 2 operations (thorough: also 1; 3 for primitive slices) over 2 variables from "
                              "every initial content with lengths in {0,2,3}, enumerated by TLC (BFS) and closed by a touch-everything "
                              "step, plus seeded TLC simulation (quick: 4 operations / 2 variables, thorough: 5 / 3) and the "
                              "counterexamples of the pinned-CopyTo model; thorough applies every program to every container type "
                              "of its kind profile, quick deals the 2-operation programs over every 2nd type; "
                              "non-trivial = at least 2 different operations",
                         distinct_nontrivial=nontrivial)
