"""C06 -- fan-out never lets one consumer's mutation reach another consumer.
Specs: specs/Fanout (FanoutObs = the property, Fanout = implementation-shaped model, FanoutMC, FanoutGen,
FanoutTrace = monitor; FanoutGraph* = pipelines behind receivers/connectors).
Binding: harness/fanout (real fanoutconsumer.New{Logs,Metrics,Traces,Profiles} + connector routers) and
harness/fanoutgraph (real service/internal/graph.Build with test factories).

  1. TLC exhaustive design check (FanoutMC): every scenario up to MaxN consumers, every schedule of the
     asynchronous mutations, all clauses of the statement as invariants.
  2. TLC generates the scenarios (FanoutGen: breadth-first = all small ones, -simulate = random larger ones).
  3. The Go driver runs every scenario on the real code and records the content timeline of every consumer.
  4. TLC evaluates the clauses of FanoutObs on the recorded timelines (FanoutTrace, monitor).  A false clause on
     a real timeline is the ONLY source of a VIOLATION.  What the implementation-shaped model predicted
     (who got the original, order, final contents) is compared too, but a difference there is MODEL-DRIFT.
  5. The same for pipeline graphs built by graph.Build (FanoutGraphMC / FanoutGraphGen / driver / same monitor).
"""
import json, os, collections
from concurrent.futures import ThreadPoolExecutor
import vlib

SIGS = ["logs", "metrics", "traces", "profiles"]


# ------------------------------------------------------------------------------------------ level 1
def gen_cfg(maxn, family):
    return """SPECIFICATION Spec
CONSTANTS
  MaxN = %d
  AsyncKinds <- GenAsync
  Family = "%s"
CONSTRAINT FamilyOK
INVARIANT Emit
INVARIANT Property
CHECK_DEADLOCK FALSE
""" % (maxn, family)


def mc_cfg(maxn):
    return open(os.path.join(vlib.VERIF, "specs", "Fanout", "FanoutMC.cfg")).read().replace("MaxN = 3", "MaxN = %d" % maxn)


def generate(c, maxn, family, simulate=None, seed=None, label=None, timeout=900):
    kw = dict(cfg_text=gen_cfg(maxn, family), workers=1, timeout=timeout, count=False, heap="8g",
              label=label or "gen%d%s" % (maxn, family))
    if simulate:
        kw.update(simulate="num=%d" % simulate, depth=80, seed=seed)
    r = c.tlc("Fanout", "FanoutGen", **kw)
    if r.timed_out or (r.error is not None):
        raise vlib.Inconclusive("scenario generator failed (%s): %s" % (label, r.error or "timeout"))
    seen, out = set(), []
    for b in r.printed:
        k = json.dumps([b[x] for x in ("n", "mut", "fail", "sync", "async", "roIn")])
        if k not in seen:
            seen.add(k)
            out.append(b)
    return out


def expected_count(maxn, family):
    per = {"full": 24, "progs": 12, "fails": 4}[family]
    return sum(2 * per ** n for n in range(1, maxn + 1))


class Runs:
    """the product scenario x signal x via x payload variant, with ids."""
    def __init__(self):
        self.list = []
        self.model = {}          # id -> generated behaviour (model expectation)

    def add(self, beh, sig, via, pv):
        i = len(self.list) + 1
        sc = dict(id=i, sig=sig, via=via, pv=pv, n=beh["n"], mut=beh["mut"], fail=beh["fail"], sync=beh["sync"],
                  roIn=beh["roIn"])
        sc["async"] = beh["async"]
        self.list.append(sc)
        self.model[i] = beh
        return sc


def monitor(c, observed, label):
    """TLC evaluates the clauses on one recorded file.  Returns (lines, [VIOL records])."""
    nlines = sum(1 for _ in open(observed))
    r = c.tlc("Fanout", "FanoutTrace", workers=1, files={"observed.ndjson": observed}, timeout=1800,
              label=label, count=False, heap="4g", tag="VIOL")
    if r.timed_out or r.error is not None or r.rc != 0:
        raise vlib.Inconclusive("monitor run %s failed: %s\n%s" % (label, r.error or "timeout/rc", r.out[-1500:]))
    if r.distinct != nlines + 1:
        raise vlib.Inconclusive("monitor %s consumed %d of %d recorded lines" % (label, r.distinct - 1, nlines))
    return nlines, r.printed


def run_level(c, binp, scenarios, label, parts, chunk=5000):
    """driver + monitor over slices of at most `chunk` scenarios, `parts` slices at a time (a monitor run holds
    its whole slice in memory).  Returns (VIOL records, observed paths, #events)."""
    nch = max(1, (len(scenarios) + chunk - 1) // chunk)
    chunks = [scenarios[i::nch] for i in range(nch)]

    def one(k):
        scf = os.path.join(c.work, "%s_sc%d.ndjson" % (label, k))
        obf = os.path.join(c.work, "%s_obs%d.ndjson" % (label, k))
        vlib.write_ndjson(scf, chunks[k])
        p = c.run([binp, "run", scf, obf], timeout=1800)
        if json.loads(p.stdout.strip().splitlines()[-1])["runs"] != len(chunks[k]):
            raise vlib.Inconclusive("driver ran a different number of scenarios than given (%s)" % label)
        nl, viol = monitor(c, obf, "%s_mon%d" % (label, k))
        return obf, nl, viol

    with ThreadPoolExecutor(max_workers=max(1, min(parts, nch))) as ex:
        res = list(ex.map(one, range(nch)))
    viols = [v for _, _, vs in res for v in vs]
    return viols, [r[0] for r in res], sum(r[1] for r in res)


def strict_compare(c, obs_files, runs, counts):
    """drift only: what the implementation-shaped model predicted vs. what the code did (via=fanout)."""
    for f in obs_files:
        cur, order, lastv, panics = None, None, None, None
        def close():
            if cur is None or cur["via"] != "fanout":
                return
            m = runs.model[cur["id"]]
            n = m["n"]
            got = dict(adv=cur["adv"], order=order, obj=[v["o"] for v in lastv[1:]],
                       marks=[v["m"] for v in lastv[1:]], panics=sorted(panics))
            exp_p = sorted(10 * (i + 1) + k for i in range(n) for k in range(1, m["nmut"][i] + 1)
                           if 10 * (i + 1) + k not in m["marks"][i])
            exp = dict(adv=m["adv"], order=m["order"], obj=m["obj"], marks=[sorted(x) for x in m["marks"]], panics=exp_p)
            for k in exp:
                if exp[k] != got[k]:
                    counts[k] += 1
                    if counts[k] == 1:
                        counts["first_" + k] = "scenario %s: model %s=%s, code %s" % (
                            {x: cur[x] for x in ("sig", "n", "mut", "roIn")}, k, exp[k], got[k])
        for line in open(f):
            e = json.loads(line)
            if e["ev"] == "reset":
                close()
                cur, order, panics = e, [], []
            elif e["ev"] == "return":
                order = e.get("order", [])
                if e.get("stray"):
                    counts["stray"] += 1
            elif e["ev"] == "mutate" and e["p"]:
                panics.append(10 * e["c"] + e["k"])
            lastv = e["v"]
        close()


def report(c, viols, runs, what_level):
    by = collections.OrderedDict()
    for v in viols:
        by.setdefault(v["id"], []).append(v)
    for sid, vs in list(by.items())[:10]:
        sc = runs.list[sid - 1]
        clauses = sorted(set(v["clause"] for v in vs))
        c.violation("%s: clause(s) %s false on the real timeline (first at recorded line %d): %s over %s, n=%d mut=%s "
                    "fail=%s sync=%s async=%s roIn=%s" % (what_level, ",".join(clauses), min(v["line"] for v in vs),
                                                           sc["via"], sc["sig"], sc["n"], sc["mut"], sc["fail"],
                                                           sc["sync"], sc["async"], sc["roIn"]),
                    replay_obj=dict(level=what_level, scenario=sc, clauses=clauses))
    return len(by)


def level1(c, binp, q):
    runs = Runs()
    if c.replay:
        rp = json.load(open(c.replay))["replay"]
        if rp.get("level") != "fanout":
            return runs, 0
        sc = rp["scenario"]
        runs.add(dict(sc, adv=None), sc["sig"], sc["via"], sc["pv"])
        viols, _, _ = run_level(c, binp, runs.list, "replay", 1)
        report(c, viols, runs, "fanout")
        c.traces_validated += 1
        return runs, 0
    # --- bounded exhaustive
    nfull = 2 if q else 3
    full = generate(c, nfull, "full")
    if len(full) != expected_count(nfull, "full"):
        raise vlib.Inconclusive("generator printed %d scenarios, expected %d" % (len(full), expected_count(nfull, "full")))
    k = 0
    for b in full:
        for s in SIGS:
            k += 1
            runs.add(b, s, "fanout", k % 4)
        k += 1
        if q or k % 2 == 0:
            runs.add(b, SIGS[k % 4], "router", k % 4)
        if q or k % 2 == 1:
            runs.add(b, SIGS[(k + 1) % 4], "routesub", (k + 1) % 4)
    nred = nfull + 1
    for fam in ("progs", "fails"):
        red = generate(c, nred, fam)
        if len(red) != expected_count(nred, fam):
            raise vlib.Inconclusive("generator printed %d scenarios, expected %d" % (len(red), expected_count(nred, fam)))
        for b in red:
            if b["n"] == nred:
                k += 1
                runs.add(b, SIGS[k % 4], "fanout", (k // 4) % 4)
                if k % (4 if q else 2) == 0:
                    runs.add(b, SIGS[(k + 1) % 4], ("router", "routesub")[k % 2], (k + 1) % 4)
    nexh = len(runs.list)
    # --- random larger ones
    for maxn, num in ([(5, 400)] if q else [(5, 6000), (6, 6000), (8, 3000)]):
        sim = generate(c, maxn, "full", simulate=num, seed=c.seed, label="sim%d" % maxn)
        for b in sim:
            k += 1
            runs.add(b, SIGS[k % 4], ("fanout", "fanout", "router", "routesub")[k % 4], (k // 4) % 4)
    c.log("level 1: %d runs (%d bounded-exhaustive, %d simulated)" % (len(runs.list), nexh, len(runs.list) - nexh))
    viols, obs, nl = run_level(c, binp, runs.list, "l1", 4 if q else 8)
    nbad = report(c, viols, runs, "fanout")
    c.traces_validated += len(runs.list)
    c.log("level 1: %d timelines (%d events) checked by the monitor, %d with a false clause" % (len(runs.list), nl, nbad))
    counts = collections.Counter()
    strict_compare(c, obs, runs, counts)
    for kname in ("adv", "order", "obj", "marks", "panics", "stray"):
        if counts[kname]:
            c.model_drift("fan-out: %d scenarios where the code differs from Fanout.tla in '%s' (%s)" %
                          (counts[kname], kname, counts.get("first_" + kname, "")))
    ev = vlib.read_ndjson(obs[0])
    i0 = next(i for i, e in enumerate(ev) if e["ev"] == "reset" and e["n"] >= 2 and any(e["mut"]))
    i1 = next(i for i in range(i0 + 1, len(ev)) if ev[i]["ev"] == "reset")
    c.sample(dict(kind="recorded fan-out timeline accepted by the monitor", events=ev[i0:i1]))
    nontrivial = sum(1 for s in runs.list if s["n"] >= 2 and (any(s["sync"]) or any(a != "no" for a in s["async"])))
    return runs, nontrivial


# ------------------------------------------------------------------------------------------ graph level
GRAPH_INVS = ["EqualAtDelivery", "AllInvoked", "ErrorAggregates", "NonInterference", "ExclusiveMutable",
              "MutatorCanMutate", "SharedIsReadOnly", "AdvertiseIff"]


def graph_cfg(maxp, procs, exps, undecl, emit):
    return ("SPECIFICATION Spec\nCONSTANTS\n  MaxN = %d\n  MaxP = %d\n  ProcSeqs <- %s\n  ExpSeqs <- %s\n"
            "  WithConn = TRUE\n  UndeclSet <- %s\n%s%s\nCHECK_DEADLOCK FALSE\n"
            % (2 * maxp, maxp, procs, exps, undecl, "INVARIANT EmitG\n" if emit else "INVARIANT TypeOK\n",
               "\n".join("INVARIANT " + i for i in GRAPH_INVS)))


def graph_generate(c, maxp, procs, exps, undecl, label, simulate=None, count=False, timeout=1500):
    kw = dict(cfg_text=graph_cfg(maxp, procs, exps, undecl, True), workers=1, timeout=timeout, count=count, heap="8g",
              label=label)
    if simulate:
        kw.update(simulate="num=%d" % simulate, depth=80, seed=c.seed)
    r = c.tlc("Fanout", "FanoutGraphGen", **kw)
    if r.timed_out:
        raise vlib.Inconclusive("graph generator %s timed out" % label)
    if r.error is not None or r.rc != 0:
        raise vlib.Inconclusive("graph-level design check / generator %s failed: %s\n%s" % (label, r.error, r.trace_text[:2500]))
    seen, out = set(), []
    for b in r.printed:
        k = json.dumps(b, sort_keys=True)
        if k not in seen:
            seen.add(k)
            out.append(b)
    return out, r


def ensure_gomod(harness):
    """vlib.repo_modules() skips directories named testdata, so the module pdata/testdata (needed by
    service/internal/builders via processortest) gets no replace line; add it (gen_gomod keeps a go.mod whose
    header is unchanged)."""
    hdir = os.path.join(vlib.VERIF, "harness", harness)
    vlib.gen_gomod(hdir)
    gm = os.path.join(hdir, "go.mod")
    line = "replace go.opentelemetry.io/collector/pdata/testdata => %s/pdata/testdata\n" % vlib.REPO
    txt = open(gm).read()
    if line not in txt:
        txt = "".join(l for l in txt.splitlines(True) if "collector/pdata/testdata =>" not in l or not l.startswith("replace "))
        with open(gm, "w") as fh:
            fh.write(txt.rstrip("\n") + "\n" + line)


class GRuns:
    def __init__(self):
        self.list, self.model = [], {}

    def add(self, beh, sig, pv):
        i = len(self.list) + 1
        r = {k: beh[k] for k in ("np", "procs", "exps", "conn", "connMut", "rcv", "sender", "roIn", "undecl", "n", "leaves")}
        r.update(id=i, sig=sig, pv=pv)
        self.list.append(r)
        self.model[i] = beh
        return r


def graph_report(c, viols, gr):
    by = collections.OrderedDict()
    for v in viols:
        by.setdefault(v["id"], []).append(v)
    for rid, vs in list(by.items())[:10]:
        r = gr.list[rid - 1]
        clauses = sorted(set(v["clause"] for v in vs))
        c.violation("graph: clause(s) %s false on the real timeline (first at recorded line %d): %s pipelines procs=%s "
                    "exps=%s conn=%s connMut=%s shared receiver in %s, sender=%s roIn=%s undecl=%s"
                    % (",".join(clauses), min(v["line"] for v in vs), r["sig"], r["procs"], r["exps"], r["conn"],
                       r["connMut"], r["rcv"], "shared" if r["sender"] == 0 else "probe%d" % r["sender"], r["roIn"],
                       r["undecl"]), replay_obj=dict(level="graph", scenario=r, clauses=clauses))
    return len(by)


def graph_level(c, gbin, q):
    gr = GRuns()
    if c.replay:
        rp = json.load(open(c.replay))["replay"]
        if rp.get("level") != "graph":
            return gr, 0
        gr.add(dict(rp["scenario"], adv=None), rp["scenario"]["sig"], rp["scenario"]["pv"])
        viols, _, _ = run_level(c, gbin, gr.list, "greplay", 1)
        graph_report(c, viols, gr)
        c.traces_validated += 1
        return gr, 0
    k = 0
    if q:
        # one run = exhaustive design check (all clauses are invariants) AND generator
        behs, r = graph_generate(c, 2, "Procs1", "Exps1", "OnlyTrue", "gdesign+gen", count=True)
        c.log("graph design check + generation: %d distinct states, %d runs, %.0fs" % (r.distinct, len(behs), r.wall))
        for b in behs:
            k += 1
            gr.add(b, SIGS[k % 4], k % 3)
    else:
        for maxp, procs, exps, und, lab in ((2, "Procs2", "Exps2", "B", "gdesign2"), (3, "ProcsT", "Exps0", "OnlyTrue", "gdesign3")):
            r = c.tlc_must_pass("Fanout", "FanoutGraphMC", cfg_text=graph_cfg(maxp, procs, exps, und, False),
                                timeout=2400, label=lab, workers=min(vlib.NCPU, 12), heap="10g")
            c.log("graph design check %s: %d distinct states, depth %d, %.0fs" % (lab, r.distinct, r.depth, r.wall))
        behs, r = graph_generate(c, 2, "Procs2", "Exps1", "B", "ggen", timeout=2400)
        c.log("graph generation: %d runs, %.0fs" % (len(behs), r.wall))
        for b in behs:
            for j in range(2):
                k += 1
                gr.add(b, SIGS[k % 4], k % 3)
    nexh = len(gr.list)
    if not behs:
        raise vlib.Inconclusive("graph generator printed nothing")
    kinds = dict(conn=sum(1 for b in behs if any(b["conn"])), shared=sum(1 for b in behs if b["sender"] == 0 and len(b["rcv"]) > 1),
                 probe=sum(1 for b in behs if b["sender"] > 0), mproc=sum(1 for b in behs if any(any(p) for p in b["procs"])),
                 mconn=sum(1 for b in behs if any(b["connMut"])), ro=sum(1 for b in behs if b["roIn"]))
    if min(kinds.values()) == 0:
        raise vlib.Inconclusive("vacuous graph generation: %s" % kinds)
    for maxp, num in ([(3, 300)] if q else [(3, 5000), (4, 4000)]):
        sim, _ = graph_generate(c, maxp, "Procs1", "Exps1", "B", "gsim%d" % maxp, simulate=num)
        for b in sim:
            k += 1
            gr.add(b, SIGS[k % 4], k % 3)
    c.log("graph level: %d runs (%d bounded-exhaustive, %d simulated)" % (len(gr.list), nexh, len(gr.list) - nexh))
    viols, obs, nl = run_level(c, gbin, gr.list, "g", 4 if q else 8)
    nbad = graph_report(c, viols, gr)
    c.traces_validated += len(gr.list)
    c.log("graph level: %d timelines (%d events) checked by the monitor, %d with a false clause" % (len(gr.list), nl, nbad))
    # strict: advertised capability predicted by FanoutGraph.tla (PipeCap / FanCap) vs. observed
    diff, first = 0, None
    for f in obs:
        for line in open(f):
            if line.startswith('{"ev":"reset"'):
                e = json.loads(line)
                m = gr.model[e["id"]]
                if m["adv"] != e["adv"]:
                    diff += 1
                    first = first or "procs=%s exps=%s conn=%s sender=%s: model adv=%s code adv=%s" % (
                        m["procs"], m["exps"], m["conn"], m["sender"], m["adv"], e["adv"])
    if diff:
        c.model_drift("graph: %d runs where the advertised capability differs from FanoutGraph.tla (%s)" % (diff, first))
    ev = vlib.read_ndjson(obs[0])
    i0 = next((i for i, e in enumerate(ev) if e["ev"] == "reset" and e["n"] >= 2 and gr.model[e["id"]]["sender"] == 0
               and any(any(p) for p in gr.model[e["id"]]["procs"])), 0)
    i1 = next((i for i in range(i0 + 1, len(ev)) if ev[i]["ev"] == "reset"), len(ev))
    c.sample(dict(kind="recorded graph-level timeline accepted by the monitor", config=gr.list[ev[i0]["id"] - 1], events=ev[i0:i1]))
    return gr, sum(1 for r in gr.list if r["n"] >= 2)


def run(c):
    q = c.quick()
    ensure_gomod("fanoutgraph")
    binp = c.go_build("fanout", pkg="./cmd")
    gbin = c.go_build("fanoutgraph", pkg="./cmd")

    def l1():
        # 1. design
        r = c.tlc_must_pass("Fanout", "FanoutMC", cfg_text=mc_cfg(3 if q else 4), coverage=True, timeout=1800,
                            label="design", workers=min(vlib.NCPU, 6 if q else 10))
        c.log("design check: %d distinct states, depth %d, %.0fs" % (r.distinct, r.depth, r.wall))
        return level1(c, binp, q)

    # the two levels are independent: run them side by side
    with ThreadPoolExecutor(max_workers=2) as ex:
        f1 = ex.submit(l1)
        f2 = ex.submit(graph_level, c, gbin, q)
        runs, nontrivial = f1.result()
        gruns, gnontrivial = f2.result()

    c.exhaustive = True
    c.evaluations = c.traces_validated
    c.extra["runs"] = dict(fanout=len(runs.list), graph=len(gruns.list))
    c.assumptions += [
        "canonical proto bytes (ProtoMarshaler) are a faithful rendering of payload content; equal bytes = equal content",
        "object identity is read from the pdata wrapper's `orig` pointer by reflection (used only to say 'shared')",
        "asynchronous consumers are exercised at two scripted moments on the real code (before the next sibling is "
        "invoked / after the fan-out returned); arbitrary interleavings are covered by the design check only",
        "graph level: one signal per graph (same-signal connectors), leaf exporters are not shared between pipelines, "
        "each pipeline is reached over one path; processors pass on the payload they were given",
        "deep-copy correctness of pdata beyond the payload shapes used here is C07's subject",
    ]
    c.finish_args = dict(
        rule="every fan-out scenario with <= N consumers (capability x failure x program per consumer, read-only or "
             "mutable input) enumerated by TLC breadth-first, run on all four signals and through the connector routers; "
             "reduced products at N+1; every pipeline graph within the bound (processor chains x exporter lists x "
             "connectors x receiver wiring x sender) enumerated by TLC and built by graph.Build; plus TLC-simulated "
             "larger scenarios/graphs; non-trivial = >= 2 consumers (and, level 1, at least one mutation attempted)",
        distinct_nontrivial=nontrivial + gnontrivial)
