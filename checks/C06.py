"""C06 -- fan-out never lets one consumer's mutation reach another consumer.
Specs: specs/Fanout (FanoutObs = the property, Fanout = implementation-shaped model, FanoutMC, FanoutGen,
FanoutTrace = monitor; FanoutGraph* = pipelines behind receivers/connectors).
Binding: harness/fanout (real fanoutconsumer.New{Logs,Metrics,Traces,Profiles} + connector routers) and
harness/fanoutgraph (real service/internal/graph.Build with test factories).

  1. TLC exhaustive design check (FanoutMC): every scenario up to MaxN consumers, every schedule of the
     asynchronous mutations, all clauses of the statement as invariants.
  2. TLC generates the scenarios (FanoutGen: breadth-first = all small ones, -simulate = random larger ones).
  3. The Go driver runs every scenario on the real code and records the content timeline of every consumer.
  4. TLC evaluates the clauses of FanoutObs on the recorded timelines (FanoutTrace, monitor).  A false clause on
     a real timeline is the ONLY source of a VIOLATION.  What the implementation-shaped model predicted
     (who got the original, order, final contents) is compared too, but a difference there is MODEL-DRIFT.
  5. The same for pipeline graphs built by graph.Build (FanoutGraphMC / FanoutGraphGen / driver / same monitor).
"""
import json, os, collections
from concurrent.futures import ThreadPoolExecutor
import vlib

SIGS = ["logs", "metrics", "traces", "profiles"]


# ------------------------------------------------------------------------------------------ level 1
def gen_cfg(maxn, family):
    return """SPECIFICATION Spec
CONSTANTS
  MaxN = %d
  AsyncKinds <- GenAsync
  Family = "%s"
CONSTRAINT FamilyOK
INVARIANT Emit
INVARIANT Property
CHECK_DEADLOCK FALSE
""" % (maxn, family)


def mc_cfg(maxn):
    return open(os.path.join(vlib.VERIF, "specs", "Fanout", "FanoutMC.cfg")).read().replace("MaxN = 3", "MaxN = %d" % maxn)


def generate(c, maxn, family, simulate=None, seed=None, label=None, timeout=900):
    kw = dict(cfg_text=gen_cfg(maxn, family), workers=1, timeout=timeout, count=False, heap="8g",
              label=label or "gen%d%s" % (maxn, family))
    if simulate:
        kw.update(simulate="num=%d" % simulate, depth=80, seed=seed)
    r = c.tlc("Fanout", "FanoutGen", **kw)
    if r.timed_out or (r.error is not None):
        raise vlib.Inconclusive("scenario generator failed (%s): %s" % (label, r.error or "timeout"))
    seen, out = set(), []
    for b in r.printed:
        k = json.dumps([b[x] for x in ("n", "mut", "fail", "sync", "async", "roIn")])
        if k not in seen:
            seen.add(k)
            out.append(b)
    return out


def expected_count(maxn, family):
    per = {"full": 24, "progs": 12, "fails": 4}[family]
    return sum(2 * per ** n for n in range(1, maxn + 1))


class Runs:
    """the product scenario x signal x via x payload variant, with ids."""
    def __init__(self):
        self.list = []
        self.model = {}          # id -> generated behaviour (model expectation)

    def add(self, beh, sig, via, pv):
        i = len(self.list) + 1
        sc = dict(id=i, sig=sig, via=via, pv=pv, n=beh["n"], mut=beh["mut"], fail=beh["fail"], sync=beh["sync"],
                  roIn=beh["roIn"])
        sc["async"] = beh["async"]
        self.list.append(sc)
        self.model[i] = beh
        return sc


def monitor(c, observed, label):
    """TLC evaluates the clauses on one recorded file.  Returns (lines, [VIOL records])."""
    nlines = sum(1 for _ in open(observed))
    r = c.tlc("Fanout", "FanoutTrace", workers=1, files={"observed.ndjson": observed}, timeout=1800,
              label=label, count=False, heap="8g", tag="VIOL")
    if r.timed_out or r.error is not None or r.rc != 0:
        raise vlib.Inconclusive("monitor run %s failed: %s\n%s" % (label, r.error or "timeout/rc", r.out[-1500:]))
    if r.distinct != nlines + 1:
        raise vlib.Inconclusive("monitor %s consumed %d of %d recorded lines" % (label, r.distinct - 1, nlines))
    return nlines, r.printed


def run_level(c, binp, scenarios, label, parts, spec_events=None):
    """driver + monitor, in `parts` parallel slices.  Returns (viol records, observed paths)."""
    parts = max(1, min(parts, len(scenarios) // 200 + 1))
    chunks = [scenarios[i::parts] for i in range(parts)]

    def one(k):
        scf = os.path.join(c.work, "%s_sc%d.ndjson" % (label, k))
        obf = os.path.join(c.work, "%s_obs%d.ndjson" % (label, k))
        vlib.write_ndjson(scf, chunks[k])
        p = c.run([binp, "run", scf, obf], timeout=1800)
        if json.loads(p.stdout.strip().splitlines()[-1])["runs"] != len(chunks[k]):
            raise vlib.Inconclusive("driver ran a different number of scenarios than given (%s)" % label)
        nl, viol = monitor(c, obf, "%s_mon%d" % (label, k))
        return obf, nl, viol

    with ThreadPoolExecutor(max_workers=parts) as ex:
        res = list(ex.map(one, range(parts)))
    viols = [v for _, _, vs in res for v in vs]
    return viols, [r[0] for r in res], sum(r[1] for r in res)


def strict_compare(c, obs_files, runs, counts):
    """drift only: what the implementation-shaped model predicted vs. what the code did (via=fanout)."""
    for f in obs_files:
        cur, order, lastv, panics = None, None, None, None
        def close():
            if cur is None or cur["via"] != "fanout":
                return
            m = runs.model[cur["id"]]
            n = m["n"]
            got = dict(adv=cur["adv"], order=order, obj=[v["o"] for v in lastv[1:]],
                       marks=[v["m"] for v in lastv[1:]], panics=sorted(panics))
            exp_p = sorted(10 * (i + 1) + k for i in range(n) for k in range(1, m["nmut"][i] + 1)
                           if 10 * (i + 1) + k not in m["marks"][i])
            exp = dict(adv=m["adv"], order=m["order"], obj=m["obj"], marks=[sorted(x) for x in m["marks"]], panics=exp_p)
            for k in exp:
                if exp[k] != got[k]:
                    counts[k] += 1
                    if counts[k] == 1:
                        counts["first_" + k] = "scenario %s: model %s=%s, code %s" % (
                            {x: cur[x] for x in ("sig", "n", "mut", "roIn")}, k, exp[k], got[k])
        for line in open(f):
            e = json.loads(line)
            if e["ev"] == "reset":
                close()
                cur, order, panics = e, [], []
            elif e["ev"] == "return":
                order = e.get("order", [])
                if e.get("stray"):
                    counts["stray"] += 1
            elif e["ev"] == "mutate" and e["p"]:
                panics.append(10 * e["c"] + e["k"])
            lastv = e["v"]
        close()


def report(c, viols, runs, what_level):
    by = collections.OrderedDict()
    for v in viols:
        by.setdefault(v["id"], []).append(v)
    for sid, vs in list(by.items())[:10]:
        sc = runs.list[sid - 1]
        clauses = sorted(set(v["clause"] for v in vs))
        c.violation("%s: clause(s) %s false on the real timeline (first at recorded line %d): %s over %s, n=%d mut=%s "
                    "fail=%s sync=%s async=%s roIn=%s" % (what_level, ",".join(clauses), min(v["line"] for v in vs),
                                                           sc["via"], sc["sig"], sc["n"], sc["mut"], sc["fail"],
                                                           sc["sync"], sc["async"], sc["roIn"]),
                    replay_obj=dict(level=what_level, scenario=sc, clauses=clauses))
    return len(by)


def level1(c, binp, q):
    runs = Runs()
    if c.replay:
        rp = json.load(open(c.replay))["replay"]
        if rp.get("level") != "fanout":
            return runs, 0
        sc = rp["scenario"]
        runs.add(dict(sc, adv=None), sc["sig"], sc["via"], sc["pv"])
        viols, _, _ = run_level(c, binp, runs.list, "replay", 1)
        report(c, viols, runs, "fanout")
        c.traces_validated += 1
        return runs, 0
    # --- bounded exhaustive
    nfull = 2 if q else 3
    full = generate(c, nfull, "full")
    if len(full) != expected_count(nfull, "full"):
        raise vlib.Inconclusive("generator printed %d scenarios, expected %d" % (len(full), expected_count(nfull, "full")))
    k = 0
    for b in full:
        for s in SIGS:
            k += 1
            runs.add(b, s, "fanout", k % 3)
        k += 1
        runs.add(b, SIGS[k % 4], "router", k % 3)
        runs.add(b, SIGS[(k + 1) % 4], "routesub", (k + 1) % 3)
    nred = nfull + 1
    for fam in ("progs", "fails"):
        red = generate(c, nred, fam)
        if len(red) != expected_count(nred, fam):
            raise vlib.Inconclusive("generator printed %d scenarios, expected %d" % (len(red), expected_count(nred, fam)))
        for b in red:
            if b["n"] == nred:
                k += 1
                runs.add(b, SIGS[k % 4], "fanout", k % 3)
                if not q or k % 4 == 0:
                    runs.add(b, SIGS[(k + 1) % 4], ("router", "routesub")[k % 2], (k + 1) % 3)
    nexh = len(runs.list)
    # --- random larger ones
    for maxn, num in ([(5, 400)] if q else [(5, 6000), (6, 6000), (8, 3000)]):
        sim = generate(c, maxn, "full", simulate=num, seed=c.seed, label="sim%d" % maxn)
        for b in sim:
            k += 1
            runs.add(b, SIGS[k % 4], ("fanout", "fanout", "router", "routesub")[k % 4], k % 3)
    c.log("level 1: %d runs (%d bounded-exhaustive, %d simulated)" % (len(runs.list), nexh, len(runs.list) - nexh))
    viols, obs, nl = run_level(c, binp, runs.list, "l1", 4 if q else 10)
    nbad = report(c, viols, runs, "fanout")
    c.traces_validated += len(runs.list)
    c.log("level 1: %d timelines (%d events) checked by the monitor, %d with a false clause" % (len(runs.list), nl, nbad))
    counts = collections.Counter()
    strict_compare(c, obs, runs, counts)
    for kname in ("adv", "order", "obj", "marks", "panics", "stray"):
        if counts[kname]:
            c.model_drift("fan-out: %d scenarios where the code differs from Fanout.tla in '%s' (%s)" %
                          (counts[kname], kname, counts.get("first_" + kname, "")))
    ev = vlib.read_ndjson(obs[0])
    i0 = next(i for i, e in enumerate(ev) if e["ev"] == "reset" and e["n"] >= 2 and any(e["mut"]))
    i1 = next(i for i in range(i0 + 1, len(ev)) if ev[i]["ev"] == "reset")
    c.sample(dict(kind="recorded fan-out timeline accepted by the monitor", events=ev[i0:i1]))
    nontrivial = sum(1 for s in runs.list if s["n"] >= 2 and (any(s["sync"]) or any(a != "no" for a in s["async"])))
    return runs, nontrivial


def run(c):
    q = c.quick()
    # 1. design
    r = c.tlc_must_pass("Fanout", "FanoutMC", cfg_text=mc_cfg(3 if q else 4), coverage=True, timeout=1200,
                        label="design", workers=min(vlib.NCPU, 8 if q else 12))
    c.log("design check: %d distinct states, depth %d, %.0fs" % (r.distinct, r.depth, r.wall))
    binp = c.go_build("fanout", pkg="./cmd")
    runs, nontrivial = level1(c, binp, q)

    c.exhaustive = True
    c.evaluations = c.traces_validated
    c.assumptions += [
        "canonical proto bytes (ProtoMarshaler) are a faithful rendering of payload content; equal bytes = equal content",
        "object identity is read from the pdata wrapper's `orig` pointer by reflection (used only to say 'shared')",
        "asynchronous consumers are exercised at two scripted moments on the real code (before the next sibling is "
        "invoked / after the fan-out returned); arbitrary interleavings are covered by the design check only",
        "deep-copy correctness of pdata beyond the payload shapes used here is C07's subject",
    ]
    c.finish_args = dict(
        rule="every fan-out scenario with <= N consumers (capability x failure x program per consumer, read-only or "
             "mutable input) enumerated by TLC breadth-first, run on all four signals; plus reduced products at N+1 and "
             "TLC-simulated larger scenarios; non-trivial = >= 2 consumers and at least one mutation attempted",
        distinct_nontrivial=nontrivial)
