"""C16 -- HTTP body compression round-trips and the decompressed-size limit holds.
Spec: specs/OtlpHop (ingress part: IngressObs = statement, OtlpHop = protocol machine, IngressMC,
IngressMonitor).  Binding: harness/httpingress (real confighttp.ClientConfig.ToClient ->
confighttp.ServerConfig.ToServer over loopback, probe handler behind the middleware).
  1. TLC exhaustive design check (IngressMC): every clause of the statement on every finished request
     of the protocol machine (codings x enabled-decoder lists x size classes x wire classes).
  2. TLC generates every abstract case with the observation the machine specifies.
  3. The Go driver realises every abstract case with concrete bodies / limits / levels and records
     (handler ran?, status, bytes read, read error, bytes equal).
  4. TLC (IngressMonitor) evaluates the clauses of the statement on every real observation: the
     verdict.  The abstract outcome is compared with the machine's outcome: model drift.
"""
import json, os
import vlib

CODINGS = ["gzip", "zlib", "deflate", "zstd", "snappy", "lz4"]
LEVELS = {"gzip": [0, 1, 9, -2], "zlib": [0, 1, 9, -2], "deflate": [0, 1, 9, -2], "zstd": [0, 1, 6, 11],
          "snappy": [0], "lz4": [0], "none": [0], "br": [0]}
CLAUSES = ["RoundTrip", "PassThroughUnencoded", "NotEnabledRejected", "LimitHolds", "NeverWrongBytes"]


def mc_cfg(maxv, fam, emit=False):
    return """SPECIFICATION Spec
CONSTANTS
  Max = %d
  Families = "%s"
  Requests <- MCRequests
INVARIANTS %sInvRoundTrip InvPassThroughUnencoded InvNotEnabledRejected InvLimitHolds InvNeverWrongBytes InvLimitAlways
CHECK_DEADLOCK FALSE
""" % (maxv, fam, "Emit " if emit else "")


def akey(enc, enabled, size, wire, framing="length"):
    return (enc, tuple(sorted(enabled)), size, wire, framing)


def build_plan(c, triples):
    """triples: distinct (enc, enabled, size) of the generated abstract cases."""
    q = c.quick()
    rng = c.rng
    plan = []

    def add(enc, enabled, size, mx, kind, level, framing="length"):
        plan.append(dict(id=len(plan) + 1, enc=enc, enabled=list(enabled), size=size, max=mx, kind=kind, level=level,
                         framing=framing))

    mids = [100, 1000, 4096, 65535, 65537] if q else [64, 100, 1000, 4096, 32768, 65535, 65537, 262144]
    for (enc, enabled, size) in triples:
        lv = LEVELS[enc]
        # tiny limit + incompressible content: the encoded form exceeds the limit (wire class "gt");
        # 64 KiB limit + compressible content: it fits even for the >>limit body (wire class "le")
        add(enc, enabled, size, 12, "random", rng.choice(lv))
        if size == "empty":
            add(enc, enabled, size, 1, "zeros", rng.choice(lv))
        if size == "bomb":
            add(enc, enabled, size, 65536, "zeros", 0)           # default level: huffman-only (-2) shrinks zeros only 8:1
        else:
            add(enc, enabled, size, 65536, rng.choice(["zeros", "zeros", "text"]), rng.choice(lv))
        add(enc, enabled, size, rng.choice(mids), rng.choice(["random", "text"]), rng.choice(lv))
        # the same body sent by a hand-made client that does not declare the length (Transfer-Encoding: chunked)
        if size != "empty":
            if enc in ("none", "br"):      # wire class follows from the size
                add(enc, enabled, size, rng.choice([12] + mids), rng.choice(["random", "text"]), 0, "chunked")
            else:
                add(enc, enabled, size, 12, "random", rng.choice(lv), "chunked")
                add(enc, enabled, size, 65536, "zeros", 0, "chunked")
    # limit / level / content sweep on the default list and on the list without the identity entry
    full = ["identity"] + CODINGS
    sweep = [1, 2, 17, 100, 4095, 65536, 1 << 20] if q else \
            [1, 2, 3, 17, 100, 1000, 4095, 4096, 4097, 65535, 65536, 65537, 1 << 18, (1 << 20) - 1, 1 << 20, 4 << 20]
    for mx in sweep:
        for enc in ["none", "br"] + CODINGS:
            for size in ["empty", "small", "limm1", "lim", "limp1", "bomb"]:
                for kind in ["zeros", "text", "random"]:
                    if mx >= (1 << 20) and kind == "random" and size == "bomb" and q:
                        continue
                    lvls = LEVELS[enc] if (not q or mx in (17, 65536)) else [rng.choice(LEVELS[enc])]
                    for lvl in lvls:
                        add(enc, full, size, mx, kind, lvl)
                    if size != "empty" and (kind != "text" or not q) and (enc in ("none", "br") or not q or mx in (17, 65536)):
                        add(enc, full, size, mx, kind, lvls[0], "chunked")
    # block-size boundaries of the streaming coders (snappy 64 KiB chunks, zstd 128 KiB blocks, lz4 4 MiB blocks),
    # well below the limit: pure round trip
    ns = [65535, 65536, 65537, (1 << 20) + 1] if q else \
         [65535, 65536, 65537, 131071, 131072, 131073, (1 << 20) - 1, 1 << 20, (1 << 20) + 1, (4 << 20) - 1, 4 << 20, (4 << 20) + 1]
    for n in ns:
        for enc in CODINGS:
            for kind in ["text", "random"]:
                for lvl in (LEVELS[enc][:1] if q else LEVELS[enc][:3]):
                    add(enc, full, "n:%d" % n, 8 << 20, kind, lvl)
    if not q:
        # the default limit (MaxRequestBodySize = 0 is replaced by 20 MiB) cannot be expressed with max=0 here:
        # the driver passes max verbatim, so use the value itself, a few cases only (large bodies)
        for enc in ["none", "gzip", "zstd", "snappy", "lz4", "zlib"]:
            for size in ["limm1", "lim", "limp1", "bomb"]:
                add(enc, full, size, 20 << 20, "zeros", 0)
    return plan


def run(c):
    q = c.quick()
    fam = "core" if q else "all"
    # 1. design check
    vac = ("Stub", "HandlerOtlp", "GDecode", "GAuth", "Export", "Consume", "Classify")
    for mx in ([4] if q else [3, 4, 7]):
        c.tlc_must_pass("OtlpHop", "IngressMC", cfg_text=mc_cfg(mx, fam if mx == 4 else "core"), coverage=True, timeout=900,
                        label="design_max%d" % mx, vacuous_ok=vac, workers=min(8, vlib.NCPU))
    # 2. abstract cases + specified observation
    r = c.tlc("OtlpHop", "IngressMC", cfg_text=mc_cfg(4, fam, emit=True), workers=1, timeout=900, label="gen",
              count=False, tag="CASE")
    if not r.ok:
        raise vlib.Inconclusive("generator failed: %s\n%s" % (r.error, r.out[-1500:]))
    exp = {}
    for k in r.printed:
        exp.setdefault(akey(k["enc"], k["enabled"], k["size"], k["wire"], k["framing"]), []).append(k)
    nfam = 16 if q else 128
    # none, br: 1 wire class per size; 6 codings: 2 wire classes; framing "length": 6 sizes, "chunked": 5 (not empty)
    want_cases = nfam * (2 * 6 * 1 + 6 * 6 * 2) + nfam * (2 * 5 * 1 + 6 * 5 * 2)
    if len(exp) != want_cases:
        raise vlib.Inconclusive("generator produced %d abstract cases, expected %d" % (len(exp), want_cases))
    triples = sorted({(k[0], k[1], k[2]) for k in exp})
    nchunk_unrealised = 0

    binp = c.go_build("httpingress", pkg="./cmd")
    if c.replay and json.load(open(c.replay))["replay"]["plan"].get("kind") == "early-pairs":
        c.replay = None        # the pair stages run after the tier's own plan: run the tier again
    if c.replay:
        plan = [json.load(open(c.replay))["replay"]["plan"]]
        plan[0]["id"] = 1
    else:
        plan = build_plan(c, triples)
    planf = os.path.join(c.work, "plan.ndjson")
    vlib.write_ndjson(planf, plan)
    obsf = os.path.join(c.work, "observed.ndjson")
    c.run([binp, "run", planf, obsf, str(c.seed), "12"], timeout=1500)
    obs = vlib.read_ndjson(obsf)
    # requests the client under test could not even transmit (declared length and body disagree, three times in a row against
    # a plain server): "a handler reads exactly the bytes the client was given" fails before any handler is reached
    cfails = vlib.read_ndjson(obsf + ".clientfail") if os.path.exists(obsf + ".clientfail") else []
    for cfl in [x for x in cfails if x["id"] < 0][:5]:
        c.violation("clause %s violated: %s" % (cfl.get("clause", "RoundTrip"), cfl["what"]), replay_obj=dict(plan=dict(kind="early-pairs"), observed=cfl, failed=["RoundTrip"]))
    cfails = [x for x in cfails if x["id"] >= 0]
    for cfl in cfails[:5]:
        pl = next(p for p in plan if p["id"] == cfl["id"])
        c.violation("clause RoundTrip violated: the client built by confighttp refuses to send a valid body (inconsistent request): %s" % cfl["what"],
                    replay_obj=dict(plan=pl, observed=cfl, failed=["RoundTrip"]))
    if cfails:
        c.extra["client_inconsistent_requests"] = len(cfails)
        plan = [p for p in plan if p["id"] not in {x["id"] for x in cfails}]
    if len(obs) != len(plan):
        raise vlib.Inconclusive("driver produced %d observations for %d planned requests" % (len(obs), len(plan)))
    c.log("driver ran %d concrete requests" % len(obs))

    # 4. monitor: TLC evaluates the clauses of the statement on the real observations
    m = c.tlc("OtlpHop", "IngressMonitor", workers=1, files={"observed.ndjson": obsf}, timeout=900, label="monitor",
              count=False, tag="VERDICT")
    if not m.ok or len(m.printed) != len(obs):
        raise vlib.Inconclusive("monitor failed (%s verdicts for %d observations): %s" % (len(m.printed), len(obs), m.out[-1500:]))
    verdict = {v["id"]: v for v in m.printed}
    byid = {p["id"]: p for p in plan}
    realised = set()
    rt_equal = {}
    ok = 0
    nontrivial = set()
    ndrift = 0
    nviol = {}
    for o in obs:
        v = verdict[o["id"]]
        p = byid[o["id"]]
        rq, ob, ex = o["req"], o["obs"], o["extra"]
        wire = "gt" if rq["w"] > rq["max"] else "le"
        k = akey(rq["enc"], rq["enabled"], p["size"], wire, p.get("framing", "length"))
        if p.get("framing") == "chunked" and ob["ran"] and ex.get("handler_te") != "chunked":
            nchunk_unrealised += 1         # the request did not arrive with unknown length
        failed = [f for f in v["failed"]]
        if k in exp:
            realised.add(k)
        if failed:
            nviol[failed[0]] = nviol.get(failed[0], 0) + 1
            if nviol[failed[0]] > 5:        # at most 5 replay files per clause; the count is reported below
                continue
            what = ("clause %s violated: enc=%s level=%s framing=%s enabled=%s body=%s/%s n=%d wire=%d max=%d -> handler ran=%s status=%s(%s) "
                    "read=%d err=%s bytes-equal=%s [%s]" % (",".join(failed), rq["enc"], p["level"], p.get("framing", "length"), rq["enabled"], p["size"], p["kind"],
                                                       rq["n"], rq["w"], rq["max"], ob["ran"], ob["status"], ex.get("code"),
                                                       ob["nread"], ob["rerr"], ob["eq"], ex.get("neterr", ex.get("rerr_text", ""))))
            c.violation(what, replay_obj=dict(plan=p, observed=o, failed=failed))
            continue
        ok += 1
        if v["class"] == "exact" and rq["enc"] not in ("none", "br"):
            rt_equal[rq["enc"]] = rt_equal.get(rq["enc"], 0) + 1
        if k in exp:
            got = (ob["ran"], v["class"], 0 if ob["ran"] else ex.get("code"))
            wants = {(e["ran"], e["class"], 0 if e["ran"] else e["status"]) for e in exp[k]}
            if got not in wants and ndrift < 10:
                ndrift += 1
                c.model_drift("abstract case %s: machine specifies %s, real code gave %s (plan %s)" % (k, sorted(wants), got, p))
        if rq["enc"] not in ("none", "br") and rq["n"] > 0:
            nontrivial.add((rq["enc"], p["level"], tuple(sorted(rq["enabled"])), rq["n"], rq["max"], p["kind"], p.get("framing", "length")))
    if nviol:
        c.log("observations violating a clause: %s" % nviol)
        c.extra["violating_observations"] = nviol
    if nchunk_unrealised:
        raise vlib.Inconclusive("%d requests planned with chunked framing reached the handler with a declared length" % nchunk_unrealised)
    c.traces_validated += ok
    c.evaluations = len(obs)
    unreal = sorted(set(exp) - realised)
    if not c.replay:
        # every abstract case must have been realised by at least one concrete request, otherwise the
        # replay silently skipped part of the model
        # (a coding that writes nothing for an empty body cannot produce an encoded form larger than any limit)
        empty_w = {}
        for o in obs:
            if o["req"]["n"] == 0:
                empty_w[o["req"]["enc"]] = max(empty_w.get(o["req"]["enc"], 0), o["req"]["w"])
        unreal = [k for k in unreal if not (k[2] == "empty" and k[3] == "gt" and empty_w.get(k[0], 1) == 0)]
        if unreal:
            raise vlib.Inconclusive("%d abstract cases were not realised by any concrete request, e.g. %s" % (len(unreal), unreal[:3]))
        c.exhaustive = True
    for o in obs[:: max(1, len(obs) // 4)][:4]:
        c.sample(dict(kind="observed request", req=o["req"], obs=o["obs"], body=byid[o["id"]]["size"] + "/" + byid[o["id"]]["kind"],
                      clauses_failed=verdict[o["id"]]["failed"], read_class=verdict[o["id"]]["class"]))
    c.extra["abstract_cases_unrealisable"] = ["%s empty body, wire class gt (the coding writes nothing for an empty body)" % e
                                               for e in sorted({k[0] for k in set(exp) - realised})] if not c.replay else []
    c.extra["abstract_cases"] = len(exp)
    c.extra["abstract_cases_realised"] = len(realised)
    c.extra["concrete_requests"] = len(obs)
    c.extra["roundtrip_byte_equal_bodies_sampled"] = rt_equal
    c.extra["limits_used"] = sorted({p["max"] for p in plan})
    c.extra["no_response_cases"] = sum(1 for o in obs if o["obs"]["status"] == "none")
    c.assumptions += [
        "codec fidelity (decode(encode(b)) = b) is not modelled: it is sampled on the driver's concrete bodies (zeros, text, seeded random) and reported in roundtrip_byte_equal_bodies_sampled",
        "http.MaxBytesReader delivers at most its limit (Go standard library)",
        "enabled-decoder lists are drawn from the supported names; a request without Content-Encoding to a server whose list lacks the identity entry, and an encoded body that alone exceeds the limit while the plain body fits, are left open by the statement (both outcomes admitted)",
        "TLS off; HTTP/1.1 over loopback"]
    c.finish_args = dict(rule="abstract cases = coding x enabled-decoder list (%s family) x size class {empty, small, limit-1, limit, limit+1, >>limit} x wire class x framing {content-length, chunked}, "
                              "enumerated by TLC; each realised by concrete requests over limits/levels/contents chosen by the plan (seeded); "
                              "non-trivial = distinct (coding, level, enabled list, body length, limit, content kind) with a non-empty body and a real coding" % fam,
                         distinct_nontrivial=len(nontrivial))
