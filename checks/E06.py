"""E06 (extra specification, beyond the listed properties) -- the export function runs only inside the user's lifetime.

title      An exporter built with the exporter helper calls the export function only between the user's Start and Shutdown
statement  With exporterhelper.WithStart / WithShutdown the wrapped exporter is started FIRST and shut down LAST (doc comments of
           BaseExporter.Start / Shutdown: "First start the wrapped exporter ... Last start the QueueBatch"; "First shutdown
           the retry sender ... Then shutdown the queue sender. Last shutdown the wrapped exporter itself"): no export call
           begins before the user's start function has returned or after the user's shutdown function has been called, and
           (with a queue) no export call is in flight when the user's shutdown function is called.
quantifier for every queue / batch / retry configuration, every moment of the shutdown request, every pattern of backend outcomes
           (the script space of C03)
anchors    exporter/exporterhelper/internal/base_exporter.go Start, Shutdown; exporter/exporterhelper/common.go WithStart, WithShutdown
           Persistent queue: what the first incarnation left "durably stored for the next start" is exported by a second
           incarnation over the same storage (started by the driver after the script, backend accepting everything), exactly
           that and nothing else, only after the user's (slow) start function of the second incarnation has returned, and it is
           deleted from storage once exported.

Spec: specs/ExporterHelper (XHMonitor clause ExportWithinUserLifetime; scripts from ExporterHelper.tla / XHGen as in C03).
Binding: harness/exporter/xs (the user's start / shutdown functions are recorded in the same event log as the export calls).
"""
import json
import vlib, xslib
from xslib import R2, R3


def run(c):
    q = c.quick()
    xslib.design(c, [(R2, "memory", 2, 1, False, 0, 0, True)], xslib.ALL_INVS)
    binp = c.go_build("exporter", pkg="./xs")
    if c.replay:
        scripts = [dict(json.load(open(c.replay))["replay"], id="replay")]
    else:
        plans = [((R3, "memory", 3, 1, False, 0, 0, True), {}), ((R3, "memory", 3, 2, False, 0, 0, False), {}),
                 ((R3, "memory", 3, 1, True, 3, 2, True), {}), ((R3, "persistent", 3, 1, False, 0, 0, True), {}),
                 ((R3, "persistent", 3, 1, True, 3, 2, True), {}), ((R3, "memory", 1, 1, False, 0, 0, True), {})]
        scripts = xslib.variants(xslib.generate(c, plans, num=c.pick(50, 500)), c.rng)
    c.log("%d scripts" % len(scripts))
    lines = xslib.execute_or_crash(c, binp, scripts, "main")
    if lines is None:
        c.finish_args = dict(rule="crashed", distinct_nontrivial=len(scripts))
        return
    if not any('"ev":"ushutdown_begin"' in l for l in lines) or not any('"ev":"ustart_end"' in l for l in lines):
        raise vlib.Inconclusive("the driver did not record the user's start / shutdown functions")
    EXTRA = ("ExportWithinUserLifetime", "StoredIsRedelivered", "RedeliveredWasStored", "RedeliveredIsDeleted")
    verdicts = [v for v in xslib.monitor(c, lines, "main") if v["clause"] in EXTRA]
    nrestart = sum(1 for l in lines if '"ev":"restart"' in l and '"stored":[]' not in l)
    c.extra["restarts_with_stored_requests"] = nrestart
    if not c.replay and nrestart == 0 and not verdicts:
        raise vlib.Inconclusive("no script left anything stored for the second incarnation: the restart clauses were not exercised")
    byid = {s["id"]: s for s in scripts}
    reported = 0
    for v in verdicts[:20]:
        s = byid[v["script"]]
        l2 = xslib.execute(c, binp, [dict(s, id="confirm")], "confirm")
        if not [w for w in xslib.monitor(c, l2, "confirm") if w["clause"] == v["clause"]]:
            c.extra["unconfirmed"] = c.extra.get("unconfirmed", 0) + 1
            continue
        c.violation("%s violated: %s; script: %s" % (v["clause"], v["detail"], xslib.fmt(s)),
                    replay_obj={k: s[k] for k in ("cfg", "steps", "outcomes")})
        reported += 1
        if reported >= 5:
            break
    c.traces_validated += len(scripts)
    c.evaluations = len(lines)
    c.sample(dict(script=xslib.fmt(scripts[len(scripts) // 2])))
    c.sample(dict(kind="recorded events of one script", events=[json.loads(l) for l in lines[:14]]))
    c.assumptions += ["export calls of an exporter without a queue run on the caller's goroutine and are not the helper's to join"]
    c.finish_args = dict(rule="scripts = behaviours of ExporterHelper.tla sampled by TLC (-simulate, seeded) with the driver-level variants of "
                              "C03; non-trivial = all", distinct_nontrivial=len(scripts))
