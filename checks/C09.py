"""C09 -- the built pipeline graph routes data exactly as the configuration says.
Spec: specs/PipelineGraph.  Binding: harness/graph (real service/internal/graph.Build + StartAll with
instrumented factories of all four signals).
  1. TLC exhaustive design check (PipelineGraphMC): for every configuration with at most MaxSize
     references the node-level construction of graph.go computes the statement-level reference
     (validity, delivery bags, instances).
  2. TLC prints every complete configuration of the same bounded space (plus seeded random larger ones
     over all four signals) together with the reference answer: valid / deliveries bag per receiver /
     instances.  The Go driver builds each one with the real graph.Build, starts it, injects tagged
     payloads at every receiver instance and reports create calls, Start calls and what arrived where
     with which trail.  Compared here: build error <=> invalid and then nothing started; create counts
     = Instances; arrivals (exporter, signal, processor/connector trail) = Deliveries, as a bag, with a
     consistent one-to-one binding of processor instances to (pipeline, processor id).
"""
import json, os, itertools, collections
import vlib, graphlib

MC_INVS = "TypeOK RefErrIff RefRouting RefInstances RefSane NoBlackHole"


def q(xs):
    return "{" + ", ".join('"%s"' % x for x in xs) + "}"


def cfg_text(pipes, rcvs, procs, exps, conns, maxsteps, invs, spec="GSpec"):
    return """SPECIFICATION %s
CONSTANTS
  PipeSeq <- %s
  Rcvs = %s
  Procs = %s
  Exps = %s
  Conns = %s
  Support <- SupportDef
  MaxSize = %d
INVARIANTS %s
CHECK_DEADLOCK FALSE
""" % (spec, pipes, q(rcvs), q(procs), q(exps), q(conns), maxsteps, invs)


# ------------------------------------------------------------------ comparison
def proj_exp(t):
    """expected trail element -> projection comparable with what a component can observe"""
    return ("proc", t[3]) if t[0] == "proc" else ("conn", t[1], t[2])


def parse_obs(h):
    f = h.split(",")
    if f[0] == "proc":
        return dict(k="proc", id=f[1], inst=int(f[2]))
    return dict(k="conn", id=f[1], frm=f[2], to=f[3], dest=f[4])


def proj_obs(o):
    return ("proc", o["id"]) if o["k"] == "proc" else ("conn", o["id"], o["to"])


def match_deliveries(exp_by_tag, obs_by_tag, budget=200000):
    """Find a perfect matching between expected and observed deliveries (per tag) under ONE global
    injective binding  processor instance# -> (signal, pipeline name)  per processor id, and with the
    destination pipeline of route-each connectors equal to the specified one.
    Returns (ok, reason).  ok=None when the search budget ran out (binding not decided)."""
    items = []      # (tag, observed delivery)
    for tag, obs in obs_by_tag.items():
        for o in obs:
            items.append((tag, o))
    used = {tag: [False] * len(exp_by_tag.get(tag, [])) for tag in obs_by_tag}
    bind = {}       # inst -> (sig, name)
    rbind = {}      # (procid, sig, name) -> inst
    nodes = [0]

    def compatible(e, o):
        """None if expected delivery e cannot explain observed delivery o under the current binding,
        else the list of binding extensions (inst, key, pipe) the pairing needs."""
        if e["x"] != o["x"] or e["s"] != o["s"] or len(e["t"]) != len(o["t"]):
            return None
        new, loc, rloc = [], {}, {}
        for et, ot in zip(e["t"], o["t"]):
            if proj_exp(et) != proj_obs(ot):
                return None
            if ot["k"] == "conn":
                if ot["dest"] and ot["dest"] != et[2] + "/" + et[3]:
                    return None
                continue
            inst, pipe, key = ot["inst"], (et[1], et[2]), (et[3], et[1], et[2])
            b = bind.get(inst, loc.get(inst))
            rb = rbind.get(key, rloc.get(key))
            if (b is not None and b != pipe) or (rb is not None and rb != inst):
                return None
            if b is None:
                loc[inst], rloc[key] = pipe, inst
                new.append((inst, key, pipe))
        return new

    def rec(i):
        nodes[0] += 1
        if nodes[0] > budget:
            raise TimeoutError
        if i == len(items):
            return True
        tag, o = items[i]
        exps = exp_by_tag.get(tag, [])
        tried = set()
        for j, e in enumerate(exps):
            if used[tag][j]:
                continue
            sig = json.dumps(e, sort_keys=True)
            if sig in tried:
                continue
            new = compatible(e, o)
            if new is None:
                continue
            tried.add(sig)
            used[tag][j] = True
            for inst, key, pipe in new:
                bind[inst] = pipe
                rbind[key] = inst
            if rec(i + 1):
                return True
            used[tag][j] = False
            for inst, key, pipe in new:
                del bind[inst]
                del rbind[key]
        return False

    try:
        return (True, "") if rec(0) else (False, "no consistent binding of processor instances to pipelines explains the arrivals")
    except TimeoutError:
        return None, "search budget exhausted"


def compare(exp, obs):
    """Return a list of (what, signature-less) problems: observations of the real graph that contradict the
    statement-level reference printed by TLC for this configuration."""
    bad = []
    if obs["panic"]:
        return ["graph.Build / data flow panicked: %s" % obs["panic"].splitlines()[0]]
    if not exp["valid"]:
        if obs["build_err"] is None:
            bad.append("configuration is invalid (%s) but the graph was built without error" % exp["why"])
        if obs["starts"] != 0:
            bad.append("configuration is invalid (%s) but %d components were started" % (exp["why"], obs["starts"]))
        if obs.get("svc_tried"):
            if obs["svc_new_err"] is None:
                bad.append("configuration is invalid (%s) but service.New built a service" % exp["why"])
            if obs["svc_starts"] != 0:
                bad.append("configuration is invalid (%s) but service.New started %d components" % (exp["why"], obs["svc_starts"]))
        return bad
    if obs["build_err"] is not None:
        return ["valid configuration rejected at build time: %s" % obs["build_err"]]
    if obs["start_err"]:
        bad.append("StartAll failed on a valid configuration: %s" % obs["start_err"])
    if obs["feed_errs"]:
        bad.append("consume/shutdown error on a valid configuration: %s" % obs["feed_errs"][:2])
    # instances
    want = collections.Counter()
    for n in exp["inst"]:
        if n[0] == "processor":
            want[("processor", n[1], n[3])] += 1          # per (signal, id): one per pipeline
        else:
            want[tuple(n)] += 1
    got = collections.Counter()
    for e in obs["creates"]:
        if e["k"] == "processor":
            got[("processor", e["sig"], e["id"])] += 1
        elif e["k"] == "connector":
            got[("connector", e["sig"], e["sig2"], e["id"])] += 1
        else:
            got[(e["k"], e["sig"], e["id"])] += 1
    if want != got:
        diff = {str(k): (want.get(k, 0), got.get(k, 0)) for k in set(want) | set(got) if want.get(k, 0) != got.get(k, 0)}
        bad.append("instances created differ from the configuration (want, got): %s" % diff)
    # deliveries
    dl = {(d["r"], d["sig"]): d["d"] for d in exp["deliv"]}
    exp_by_tag, obs_by_tag = {}, {}
    for tag in obs["injected"]:
        r, sig, k = tag.split("|")
        lst = []
        for d in dl.get((r, sig), []):
            lst += [dict(x=d["x"], s=d["s"], t=d["t"])] * d["n"]
        exp_by_tag[tag] = lst
        obs_by_tag[tag] = []
    inj_rs = set((t.split("|")[0], t.split("|")[1]) for t in obs["injected"])
    if inj_rs != set(dl):
        bad.append("receiver instances handed a consumer %s differ from the receivers of the configuration %s"
                   % (sorted(inj_rs), sorted(dl)))
    for a in obs["arrivals"]:
        if a["tag"] not in obs_by_tag:
            bad.append("arrival with unknown tag %r" % a["tag"])
            continue
        obs_by_tag[a["tag"]].append(dict(x=a["x"], s=a["s"], t=[parse_obs(h) for h in a["t"]]))
    for tag in exp_by_tag:
        we = collections.Counter((e["x"], e["s"], tuple(proj_exp(t) for t in e["t"])) for e in exp_by_tag[tag])
        wo = collections.Counter((o["x"], o["s"], tuple(proj_obs(t) for t in o["t"])) for o in obs_by_tag[tag])
        if we != wo:
            miss = list((we - wo).elements())[:3]
            extra = list((wo - we).elements())[:3]
            bad.append("payload %s: deliveries differ from the configuration; missing %s, unexpected %s" % (tag, miss, extra))
    if not bad:
        ok, why = match_deliveries(exp_by_tag, obs_by_tag)
        if ok is False:
            bad.append(why)
        elif ok is None:
            obs["_binding_undecided"] = True
    return bad


# ------------------------------------------------------------------ the check
def replay_configs(c, binp, configs, label):
    """configs: list of TLC-printed records.  Returns number of mismatching configurations."""
    inp = os.path.join(c.work, "cfg_%s.ndjson" % label)
    out = os.path.join(c.work, "obs_%s.ndjson" % label)
    vlib.write_ndjson(inp, configs)
    c.run([binp, "c09", inp, out, str(c.seed)], timeout=900)
    obs = vlib.read_ndjson(out)
    if len(obs) != len(configs):
        raise vlib.Inconclusive("driver handled %d of %d configurations" % (len(obs), len(configs)))
    nbad = 0
    undec = 0
    for e, o in zip(configs, obs):
        problems = compare(e, o)
        undec += 1 if o.get("_binding_undecided") else 0
        if problems:
            nbad += 1
            if nbad <= 5:
                cfgs = {"%s/%s" % (p["sig"], p["name"]): dict(r=p["r"], p=p["p"], e=p["e"]) for p in e["pipes"]}
                c.violation("%s; configuration %s" % (problems[0], json.dumps(cfgs, sort_keys=True)),
                            replay_obj=dict(expected=e, observed=o, problems=problems))
    c.log("replayed %d configurations (%s): %d mismatches%s" % (len(configs), label, nbad,
          ", %d with undecided instance binding" % undec if undec else ""))
    return nbad


def dedup(vals):
    seen, out = set(), []
    for v in vals:
        k = json.dumps(v["pipes"], sort_keys=True)
        if k not in seen:
            seen.add(k)
            out.append(v)
    return out


def run(c):
    qk = c.quick()
    binp = graphlib.go_build(c, "graph")
    if c.replay:
        rp = json.load(open(c.replay))["replay"]
        replay_configs(c, binp, [rp["expected"]], "replay")
        # the exhaustive run still feeds the evidence
        c.tlc_must_pass("PipelineGraph", "PipelineGraphMC", timeout=300, label="design",
                        cfg_text=cfg_text("Pipes2", ["r1"], ["p1"], ["e1"], ["ca1"], 4, MC_INVS))
        c.traces_validated += 1
        c.sample(dict(kind="replayed configuration", pipes=rp["expected"]["pipes"]))
        return

    # universes: (pipes, rcvs, procs, exps, conns, MaxSize)
    if qk:
        universes = [("Pipes3", ["r1", "r2"], ["p1", "p2"], ["e1", "e2"], ["ca1"], 7),
                     ("Pipes4", ["r1"], ["p1"], ["e1"], ["cs1"], 8)]
    else:
        universes = [("Pipes3", ["r1", "r2"], ["p1", "p2"], ["e1", "e2"], ["ca1"], 8),
                     ("Pipes4", ["r1"], ["p1"], ["e1"], ["cs1", "cl1"], 8),
                     ("Pipes3s", ["r1", "r2"], ["p1", "p2"], ["e1"], ["ca1", "ca2"], 7),
                     ("Pipes4x", ["r1"], ["p1"], ["e1"], ["ca1", "cm1"], 8)]
    total = nontrivial = 0
    for k, u in enumerate(universes):
        # 1. design check
        c.tlc_must_pass("PipelineGraph", "PipelineGraphMC", cfg_text=cfg_text(*u, MC_INVS), coverage=True,
                        timeout=1500, label="design%d" % k)
        # 2. the same space, printed with the reference answers
        r = c.tlc("PipelineGraph", "PipelineGraphGen", cfg_text=cfg_text(*u, "Emit"), workers=1, timeout=1500,
                  label="gen%d" % k, count=False, heap="8g")
        if not r.ok:
            raise vlib.Inconclusive("generator failed: %s\n%s" % (r.error, r.out[-1500:]))
        cfgs = dedup(r.printed)
        if not cfgs:
            raise vlib.Inconclusive("generator printed no configuration")
        c.log("universe %d: %d distinct states, %d complete configurations (%d valid)" % (
            k, r.distinct, len(cfgs), sum(1 for v in cfgs if v["valid"])))
        replay_configs(c, binp, cfgs, "u%d" % k)
        total += len(cfgs)
        nontrivial += sum(1 for v in cfgs if v["valid"] and v["conns"])
        mid = [v for v in cfgs if v["valid"] and v["conns"]]
        if mid:
            c.sample(dict(kind="replayed configuration with expected deliveries", cfg=mid[len(mid) // 2]))
    # 2b. connector type-pair table: per source signal s the four connectors k<s><d> that support EXACTLY one pair
    #     (thorough: also n<s><d>, every pair but one), over two pipelines of s and one of each other signal.  Every
    #     entry of the 4x4 table of connectorStability decides validity / routing of some configuration here.
    #     Design invariants and generator in ONE run per universe, the four runs side by side.
    from concurrent.futures import ThreadPoolExecutor
    fams = [("k", 4, [])] if qk else [("k", 5, ["p1"]), ("n", 4, [])]
    jobs = []
    for fam, size, procs in fams:
        for src, pipes in (("l", "PipesSrcL"), ("t", "PipesSrcT"), ("m", "PipesSrcM"), ("p", "PipesSrcP")):
            jobs.append((pipes, ["r1"], procs, ["e1"], ["%s%s%s" % (fam, src, d) for d in "ltmp"], size))

    def pair_run(u):
        return c.tlc("PipelineGraph", "PipelineGraphGen", cfg_text=cfg_text(*u, MC_INVS + " Emit"), workers=1, timeout=1500,
                     label="pairs_%s_%s" % (u[0], u[4][0][:2]), count=False, heap="3g")
    with ThreadPoolExecutor(max_workers=4) as ex:
        results = list(ex.map(pair_run, jobs))
    pair_cfgs = []
    for u, r in zip(jobs, results):
        if not r.ok:
            raise vlib.Inconclusive("pair-table universe %s failed: %s\n%s" % (u[4], r.error, (r.trace_text or r.out)[-1500:]))
        c.states += r.distinct
        c.transitions += r.generated
        pair_cfgs += dedup(r.printed)
    if not pair_cfgs:
        raise vlib.Inconclusive("pair-table universes printed nothing")
    used = {(cc["id"]) for v in pair_cfgs if v["valid"] for cc in v["conns"]}
    want = {cid for u in jobs for cid in u[4]}
    if used != want:
        raise vlib.Inconclusive("vacuous: connectors never used in a valid configuration: %s" % sorted(want - used))
    c.log("pair-table universes: %d configurations (%d valid), every one of %d single-entry connector tables used in a valid one"
          % (len(pair_cfgs), sum(1 for v in pair_cfgs if v["valid"]), len(want)))
    replay_configs(c, binp, pair_cfgs, "pairs")
    total += len(pair_cfgs)
    nontrivial += sum(1 for v in pair_cfgs if v["valid"] and v["conns"])
    c.exhaustive = True

    # 3. random larger configurations over all four signals (simulation of the same spec); half of the
    #    walks only take steps that keep the configuration valid, so that deep valid topologies are reached
    #    (TLC's simulator evaluates the invariant -- hence prints -- on every successor of every state of a walk,
    #    so one walk of depth 10 yields a few thousand configurations: the walk and all its neighbours)
    sims = [(c.seed, 4, 12, "GSpecValid"), (c.seed + 7, 20, 8, "GSpec")] if qk else \
           [(c.seed * 100 + i, 12 if i % 2 == 0 else 150, 12 + 2 * (i % 3), "GSpecValid" if i % 2 == 0 else "GSpec") for i in range(6)]
    for seed, num, depth, spec in sims:
        u = ("Pipes8", ["r1", "r2", "r3"], ["p1", "p2", "p3"], ["e1", "e2", "e3"], ["ca1", "cs1", "cl1", "cm1", "klt", "ktm", "kmp", "kpl", "ntl", "nlp", "nmm"], depth)
        r = c.tlc("PipelineGraph", "PipelineGraphGen", cfg_text=cfg_text(*u, "Emit", spec=spec), workers=1, timeout=900,
                  simulate="num=%d" % num, depth=depth + 1, seed=seed, label="sim%d" % seed, count=False, heap="8g")
        if r.error or r.timed_out:
            raise vlib.Inconclusive("simulation failed: %s\n%s" % (r.error, r.out[-1500:]))
        cfgs = dedup(r.printed)
        if not cfgs:
            raise vlib.Inconclusive("simulation printed no configuration")
        c.log("simulation seed %d (%s): %d complete configurations (%d valid)" % (seed, spec, len(cfgs), sum(1 for v in cfgs if v["valid"])))
        replay_configs(c, binp, cfgs, "sim%d" % seed)
        total += len(cfgs)
        nontrivial += sum(1 for v in cfgs if v["valid"] and v["conns"])
    c.traces_validated += total
    c.evaluations = total
    c.assumptions += ["receivers/exporters of a pipeline are sets (duplicates in the lists are outside the statement)",
                      "test connectors forward every payload to every pipeline they feed (half of them through the per-pipeline router)",
                      "processor instances cannot observe their pipeline: a consistent one-to-one binding instance -> pipeline is searched"]
    c.finish_args = dict(rule="every configuration reachable with at most MaxSize component references over the stated universes, enumerated by TLC "
                              "(BFS), plus seeded TLC simulations over 8 pipelines of 4 signals; non-trivial = valid and uses a connector",
                         distinct_nontrivial=nontrivial)
