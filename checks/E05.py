"""E05 (extra specification, beyond the listed properties) -- composition, second stage: one pipeline end to end.

title      A pipeline never loses accepted data silently, never lets refused data through, and keeps its exporters apart
statement  For a logs pipeline receiver -> memory limiter -> batch processor -> fan-out -> exporters (each with its own sending
           queue, consumer and retry): when Service.Shutdown has returned, every item for which the receiver's call
           returned nil has, at EVERY exporter, either been delivered to that exporter's backend or been dropped there with
           a recorded failure of that exporter (enqueue refused, permanent failure, retries given up / interrupted) -- and
           exactly once at every exporter that recorded no failure, whatever happened at the other exporters; an item for
           which the receiver's call returned an error (the memory limiter refused it) reaches no backend; nothing is
           delivered that was not accepted; no export call starts after Shutdown has returned.
quantifier for every order of injections, every sequence of memory readings above / below the limiter's soft limit, every
           moment of the shutdown request, every batch size / queue capacity / retry setting in the bounds and every
           outcome (ok, permanent, transient, slow) of every export call of every exporter
anchors    service/service.go, service/internal/graph (shutdown order, fan-out), processor/memorylimiterprocessor,
           processor/batchprocessor, internal/fanoutconsumer/logs.go, exporter/exporterhelper (queue, retry)
composes   C03 (drain), C06 (fan-out), C10 (shutdown order), C17 (batch processor), C18 (limiter refusal); the statement is
           what the component documentation promises jointly (README of the memory limiter: "refused data ... the receiver
           ... should retry"; batch processor / exporter helper README: data is dropped only with an error logged).

Spec: specs/PipelineX (PipelineX = composed model, PipelineXGen = script generator, PipelineXMonitor = monitor).
Binding: harness/pipeline/cmdx (REAL service.New / Start / Shutdown with the real processors and exporter helper).
  1. TLC exhaustive design check of PipelineX.tla (two exporters, limiter on / off): the clauses are invariants.
  2. TLC simulation (seeded) prints behaviours projected to scripts; each runs on a real service.
  3. TLC (PipelineXMonitor) evaluates the clauses on the recorded events; a verdict is re-run alone before it is reported.
"""
import json, os
import vlib


def consts(items, batch, cap, retry, limiter, ma=2, flips=2):
    return """CONSTANTS
  Items = {%s}
  Exps = {"e1", "e2"}
  BatchSize = %d
  QueueCap = %d
  RetryOn = %s
  MaxAttempts = %d
  Limiter = %s
  MaxFlips = %d
""" % (",".join('"%s"' % i for i in items), batch, cap, "TRUE" if retry else "FALSE", ma, "TRUE" if limiter else "FALSE", flips)


INVS = "NoSilentLoss ExactlyOnceIfClean NothingInvented RefusedUntouched NoDuplicates AcceptedXorRefused"


def execute(c, binp, scripts, label):
    sp, tp = os.path.join(c.work, "%s_scripts.ndjson" % label), os.path.join(c.work, "%s_traces.ndjson" % label)
    vlib.write_ndjson(sp, scripts)
    c.run([binp, "run", sp, tp], timeout=1800)
    lines = open(tp).read().splitlines()
    if sum(1 for l in lines if '"ev":"reset"' in l) != len(scripts):
        raise vlib.Inconclusive("driver returned a different number of traces")
    r = c.tlc("PipelineX", "PipelineXMonitor", cfg="PipelineXMonitor.cfg", workers=1, files={"observed.ndjson": tp}, timeout=900,
              count=False, label="monitor_" + label)
    if not r.ok:
        raise vlib.Inconclusive("monitor failed: %s %s" % (r.error, r.out[-1500:]))
    c.evaluations += len(lines)
    return r.printed, lines


def run(c):
    q = c.quick()
    items = ["a", "b", "c"]
    # 1. design
    for k, (b, cap, retry, lim) in enumerate([(2, 1, True, True), (1, 2, False, True)] + ([] if q else [(2, 2, True, False), (3, 1, False, True)])):
        cfg = "SPECIFICATION Spec\n" + consts(items, b, cap, retry, lim) + "INVARIANTS " + INVS + "\nCHECK_DEADLOCK FALSE\n"
        c.tlc_must_pass("PipelineX", "PipelineX", cfg_text=cfg, timeout=1500, label="design%d" % k, coverage=(k == 0),
                        workers=min(12, vlib.NCPU))
    binp = c.go_build("pipeline", pkg="./cmdx")
    # 2. scripts
    if c.replay:
        scripts = [dict(json.load(open(c.replay))["replay"]["script"], id="replay")]
    else:
        items4 = ["a", "b", "c", "d"]
        plans = [(2, 1, True, True), (2, 2, False, True), (3, 1, False, False), (1, 2, True, True), (2, 1, False, True)]
        scripts, seen = [], set()
        for k, (b, cap, retry, lim) in enumerate(plans):
            cfg = "SPECIFICATION GSpec\n" + consts(items4, b, cap, retry, lim) + "INVARIANT EmitScript\nCHECK_DEADLOCK FALSE\n"
            r = c.tlc("PipelineX", "PipelineXGen", cfg_text=cfg, workers=1, simulate="num=%d" % c.pick(60, 600), depth=120,
                      seed=c.seed * 19 + k, timeout=600, count=False, label="gen%d" % k)
            if not r.ok:
                raise vlib.Inconclusive("script generator failed: %s %s" % (r.error, r.out[-1000:]))
            for beh in r.printed:
                steps = []
                for s in beh["steps"]:
                    steps.append(s)
                    if s["op"] == "shutdown":
                        break
                outs = beh["outcomes"] if isinstance(beh["outcomes"], dict) else {}
                outs = {e: list(outs.get(e) or []) for e in ("e1", "e2")}
                key = json.dumps([b, cap, retry, lim, steps, outs], sort_keys=True)
                if key in seen:
                    continue
                seen.add(key)
                scripts.append(dict(id="x%d" % len(scripts), cfg=dict(batch=b, cap=cap, retry=retry, limiter=lim), steps=steps, outcomes=outs))
    c.log("%d scripts" % len(scripts))
    verdicts, lines = execute(c, binp, scripts, "main")
    byid = {s["id"]: s for s in scripts}
    reported = 0
    for v in verdicts[:12]:
        s = byid[v["script"]]
        again, _ = execute(c, binp, [dict(s, id="confirm")], "confirm")
        if not [w for w in again if w["clause"] == v["clause"]]:
            c.extra["unconfirmed"] = c.extra.get("unconfirmed", 0) + 1
            continue
        c.violation("%s violated by the real pipeline: %s; cfg=%s steps=%s outcomes=%s" % (
            v["clause"], v["detail"], s["cfg"], [(x["op"], x["item"]) for x in s["steps"]], s["outcomes"]),
            replay_obj=dict(script={k: s[k] for k in ("cfg", "steps", "outcomes")}))
        reported += 1
        if reported >= 5:
            break
    c.traces_validated += len(scripts)
    refused = sum(1 for l in lines if '"ev":"inject_end"' in l and '"ok":false' in l)
    c.extra["injections_refused_by_the_real_limiter"] = refused
    c.extra["scripts"] = len(scripts)
    if not c.replay and refused == 0 and not c.violations:
        raise vlib.Inconclusive("the real memory limiter never refused an injection: the refusal clause was not exercised")
    ex = scripts[len(scripts) // 2]
    c.sample(dict(kind="script", script=ex))
    c.sample(dict(kind="recorded events of the first script", events=[json.loads(l) for l in lines[:25]]))
    nontrivial = sum(1 for s in scripts if any(o != "ok" for e in s["outcomes"].values() for o in e) or any(x["op"] == "mem" for x in s["steps"]))
    c.assumptions += ["the memory reading is scripted through memorylimiter.ReadMemStatsFn (captured when the limiter is built); whether "
                      "an injection after a high reading is refused depends on the limiter's ticker and is OBSERVED, not demanded",
                      "one consumer per exporter queue; items are log records identified by their body",
                      "late export watch window 60 ms after Shutdown returned"]
    c.finish_args = dict(rule="scripts = behaviours of PipelineX.tla sampled by TLC (-simulate, seeded) and projected to injections / memory "
                              "readings / shutdown moment / outcome per export call per exporter; non-trivial = a failing export or a "
                              "memory step", distinct_nontrivial=nontrivial)
