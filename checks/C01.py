"""C01 -- persistent sending queue never loses an accepted request across crashes.

Spec   : specs/PersistentQueue (QueueObs = property, PersistentQueue = implementation-shaped model,
         PQGen = script generator, PQMonitor = monitor on real API events, PQTrace = strict conformance).
Binding: harness/exporter/pq drives the REAL persistent queue through the public exporter-helper API over
         a storage extension that kills the process incarnation at the entry of its K-th storage call.
Flow   : 1. TLC exhaustive design check (all interleavings of producers/consumers/crashes, small constants).
         2. TLC generates driver-level scripts (eager one-consumer behaviours of the same model).
         3. every script is run crash-free on the real code (dry run) to count storage calls, then once for
            EVERY storage-call boundary of every incarnation (single death), then for every boundary of the
            recovery that follows (second death, third death in the thorough tier).
         4. TLC evaluates the property operators on the recorded API events (monitor) -> verdict;
            strict validation of recorded storage calls against the model -> conformance (drift only).
"""
import json, os, itertools
import vlib

SPEC = "PersistentQueue"


def mc_cfg(reqs, cap, nc, mc, shut="TRUE", fixed="TRUE"):
    return """SPECIFICATION Spec
CONSTANTS
  Reqs = {%s}
  Capacity = %d
  NumConsumers = %d
  MaxCrashes = %d
  Fixed = %s
  AllowShutdown = %s
INVARIANT InvNoLoss
INVARIANT InvAtLeastOnce
INVARIANT InvNoPhantom
INVARIANT TypeOK
PROPERTY DeleteOnlyAfterFinal
PROPERTY ShutdownKeeps
VIEW View
CHECK_DEADLOCK FALSE
""" % (",".join('"%s"' % r for r in reqs), cap, nc, mc, fixed, shut)


def gen_cfg(reqs, cap, steps, retry, restarts):
    return """SPECIFICATION GenSpec
CONSTANTS
  Reqs = {%s}
  Capacity = %d
  NumConsumers = 1
  MaxCrashes = %d
  Fixed = TRUE
  AllowShutdown = TRUE
  MaxSteps = %d
  Retry = %s
INVARIANT EmitScript
CHECK_DEADLOCK FALSE
""" % (",".join('"%s"' % r for r in reqs), cap, restarts, steps, "TRUE" if retry else "FALSE")


def fmt(steps):
    return " ".join(s["op"] + (":" + s["req"] if s.get("req") else "") + (":" + s["outcome"] if s.get("outcome") else "")
                    for s in steps)


def split_traces(path):
    """-> list of event lists, one per script run (starts with reset)."""
    runs, cur = [], None
    for line in open(path):
        e = json.loads(line)
        if e["ev"] == "reset":
            cur = []
            runs.append(cur)
        cur.append(e)
    return runs


def run(c):
    q = c.quick()
    # ---------------------------------------------------------------- 1. design
    if q:
        designs = [(["a", "b", "c"], 2, 1, 2), (["a", "b"], 1, 2, 2)]
    else:
        designs = [(["a", "b", "c"], 2, 2, 2), (["a", "b", "c"], 1, 2, 3), (["a", "b", "c", "d"], 2, 1, 2)]
    for d in designs:
        c.tlc_must_pass(SPEC, "PQMC", cfg_text=mc_cfg(*d), timeout=1500, coverage=(d == designs[0]),
                        vacuous_ok=("RecCleanup", "RecPut", "CleanupMissing"),
                        label="design_%dreq_cap%d_%dcons_%dcrash" % (len(d[0]), d[1], d[2], d[3]), heap="12g")
    binp = c.go_build("exporter", pkg="./pq")

    # ---------------------------------------------------------------- 2. scripts
    scripts = []
    if c.replay and json.load(open(c.replay))["replay"].get("kind") == "composed":
        composed(c, json.load(open(c.replay))["replay"]["script"])
        c.finish_args = dict(rule="replay of one composed-exporter script", distinct_nontrivial=1)
        return
    if c.replay:
        rp = json.load(open(c.replay))["replay"]
        todo = [dict(rp["script"], dies=rp["dies"], id="replay")]
    else:
        gens = [(["a", "b", "c"], 2, 5, True, 1), (["a", "b"], 1, 5, False, 1)] if q else \
               [(["a", "b", "c"], 2, 7, True, 2), (["a", "b", "c"], 1, 6, False, 2), (["a", "b", "c"], 2, 6, False, 1),
                (["a", "b", "c"], 1, 6, True, 1)]
        seen = set()
        for reqs, cap, steps, retry, restarts in gens:
            r = c.tlc(SPEC, "PQGen", cfg_text=gen_cfg(reqs, cap, steps, retry, restarts), workers=1, timeout=900,
                      count=False, label="gen_cap%d_%s" % (cap, "retry" if retry else "noretry"), heap="8g")
            if not r.ok:
                raise vlib.Inconclusive("script generator failed: %s %s" % (r.error, r.out[-1500:]))
            for b in r.printed:
                key = (cap, retry, fmt(b["steps"]))
                if key in seen:
                    continue
                seen.add(key)
                scripts.append(dict(cap=cap, block=False, retry=retry, consumers=1, steps=b["steps"]))
        if not scripts:
            raise vlib.Inconclusive("no scripts generated")
        # block_on_overflow variant of the scripts that fill the queue
        extra = [dict(s, block=True) for s in scripts if s["cap"] == 1 and sum(1 for st in s["steps"] if st["op"] == "offer") >= 2][:20]
        # with blocking a refused offer would block the driver: keep only scripts whose offers all fit (checked by dry run)
        scripts += extra
        # two consumers: the same scripts with concurrent hand-offs (verdict from the monitor only; the storage-call order is
        # then scheduler dependent, so these runs are not sampled for strict validation)
        two = [dict(s, consumers=2) for s in scripts if not s["block"] and sum(1 for st in s["steps"] if st["op"] == "offer") >= 2]
        c.rng.shuffle(two)
        scripts += two[:(40 if q else 400)]
        # wide scripts: many requests in flight at once (the default num_consumers is 10), death, restart, drain -- with a death
        # at EVERY storage-call boundary of the recovering incarnation too (level 1 of the enumeration below covers every
        # incarnation a script starts).  Recovery code that treats the dispatched requests in bounded portions only shows with
        # more requests in flight than a portion holds (seeded change C01-7: portions of 8).
        St = lambda op, req="", outcome="": dict(op=op, req=req, outcome=outcome)
        for n in ((9, 12) if q else (9, 12, 17, 20)):
            rs = ["w%d" % i for i in range(1, n + 1)]
            scripts.append(dict(cap=n + 2, block=False, retry=True, consumers=n,
                                steps=[St("start")] + [St("offer", r) for r in rs] + [St("await", r) for r in rs] +
                                      [St("crash"), St("start"), St("drain")]))
            scripts.append(dict(cap=n + 2, block=False, retry=True, consumers=n,
                                steps=[St("start")] + [St("offer", r) for r in rs] + [St("await", r) for r in rs] +
                                      [St("shutdown")] + [St("release", r, "transient") for r in rs] + [St("await_shutdown"), St("start"), St("drain")]))
        # out-of-order completions with three consumers: the stored list of dispatched indices gets permuted (a completion swaps
        # the last entry into the hole), then death / shutdown: recovery must not read anything into the ORDER of that list
        # (seeded change C01-8 took the first and the last entry for the bounds of a contiguous range).
        five = ["w1", "w2", "w3", "w4", "w5"]
        ooo = [St("start")] + [St("offer", r) for r in five] + [St("await", "w1"), St("await", "w2"), St("await", "w3"), St("release", "w1", "ok"),
               St("await", "w4"), St("release", "w4", "ok"), St("await", "w5")]
        scripts.append(dict(cap=6, block=False, retry=True, consumers=3, steps=ooo + [St("crash"), St("start"), St("drain")]))
        scripts.append(dict(cap=6, block=False, retry=True, consumers=3,
                            steps=ooo + [St("shutdown")] + [St("release", r, "transient") for r in ("w2", "w3", "w5")] + [St("await_shutdown"), St("start"), St("drain")]))
        scripts.append(dict(cap=6, block=False, retry=True, consumers=3,
                            steps=[St("start")] + [St("offer", r) for r in five] + [St("await", "w1"), St("await", "w2"), St("await", "w3"), St("release", "w2", "ok"),
                                   St("await", "w4"), St("release", "w1", "ok"), St("await", "w5"), St("crash"), St("start"), St("drain")]))
        # the LAST request of the queue is in its retry back-off when the exporter is shut down: the retry sender is stopped
        # first, the hand-off ends with the shutdown error, THEN the (now drained, idle) queue is shut down -- the request must
        # still be stored for the next start (seeded change C01-9 'cleaned up' the dispatched list of a drained idle queue)
        for nc, rs in ((1, ["w1"]), (2, ["w1"]), (2, ["w1", "w2"]), (3, ["w1", "w2", "w3"])):
            scripts.append(dict(cap=4, block=False, retry=True, consumers=nc,
                                steps=[St("start")] + [St("offer", r) for r in rs] + [St("await", r) for r in rs] +
                                      [St("release", r, "transient") for r in rs] + [St("shutdown"), St("await_shutdown"), St("start"), St("drain")]))
        c.log("generated %d distinct scripts" % len(scripts))
        todo = None

    runs_total = 0
    lost = []          # (script obj, dies, what)
    strict_sample = []

    def execute(batch, tag):
        """run a batch of scripts (with ids) on the real code, return list of event-lists"""
        sp = os.path.join(c.work, "scripts_%s.ndjson" % tag)
        tp = os.path.join(c.work, "traces_%s.ndjson" % tag)
        vlib.write_ndjson(sp, batch)
        c.run([binp, "run", sp, tp], timeout=3000)
        runs = split_traces(tp)
        if len(runs) != len(batch):
            raise vlib.Inconclusive("driver returned %d traces for %d scripts" % (len(runs), len(batch)))
        return runs

    def monitor(runs, batch, tag):
        """TLC evaluates the property on the API events of all runs; returns verdict records"""
        nonlocal runs_total
        mp = os.path.join(c.work, "mon_%s.ndjson" % tag)
        with open(mp, "w") as fh:
            for evs in runs:
                for e in evs:
                    if e["ev"] == "store":
                        continue
                    e = {k: v for k, v in e.items() if k not in ("cfg", "after", "ops", "calls", "pushed")}
                    fh.write(json.dumps(e, separators=(",", ":")) + "\n")
        r = c.tlc(SPEC, "PQMonitor", cfg="PQMonitor.cfg", workers=1, files={"observed.ndjson": mp}, timeout=1800,
                  count=False, label="monitor_" + tag, heap="12g")
        if r.timed_out or (r.error and r.error[0] == "other") or r.rc not in (0,):
            if r.error and r.error[0] == "invariant":
                pass
            else:
                raise vlib.Inconclusive("monitor run failed: %s\n%s" % (r.error, r.out[-2000:]))
        if r.error and r.error[0] == "invariant":
            raise vlib.Inconclusive("monitor invariant %s failed (phantom hand-off?)\n%s" % (r.error[1], r.trace_text[:2000]))
        runs_total += len(runs)
        c.traces_validated += len(runs)
        nodrain = sum(1 for evs in runs if not any(e["ev"] in ("drain_end", "start_timeout") for e in evs))
        c.extra["runs_without_completed_drain"] = c.extra.get("runs_without_completed_drain", 0) + nodrain
        if nodrain > max(3, len(runs) // 50):
            raise vlib.Inconclusive("%d of %d runs did not reach a completed drain" % (nodrain, len(runs)))
        byid = {b["id"]: b for b in batch}
        out = []
        for v in r.printed:
            if v["kind"] == "phantom":
                c.extra["phantom_handoffs"] = c.extra.get("phantom_handoffs", 0) + 1
                continue
            out.append((byid[v["script"]], v))
        return out

    def calls_of(evs):
        for e in evs:
            if e["ev"] == "end":
                return e.get("calls") or []
        return []

    if todo is not None:            # --replay
        runs = execute(todo, "replay")
        for s, v in monitor(runs, todo, "replay"):
            c.violation("replayed script loses %s: %s dies=%s" % (v["owed"], fmt(s["steps"]), s["dies"]),
                        replay_obj=dict(script={k: s[k] for k in ("cap", "block", "retry", "consumers", "steps")}, dies=s["dies"]))
        c.sample(dict(script=fmt(todo[0]["steps"]), dies=todo[0]["dies"]))
        c.finish_args = dict(rule="replay of one script", distinct_nontrivial=1)
        return

    # ---------------------------------------------------------------- 3. dry runs + crash enumeration
    for i, s in enumerate(scripts):
        s["id"] = "s%d" % i
        s["dies"] = []
    dry = execute(scripts, "dry")
    verd = monitor(dry, scripts, "dry")
    usable = []
    for s, evs in zip(scripts, dry):
        if any(e["ev"] == "note" and "blocked" in e.get("text", "") for e in evs):
            continue   # blocking offer that never fits: not a followable script
        usable.append((s, calls_of(evs)))
    for s, v in verd:
        lost.append((s, [], v))
    c.log("dry runs: %d scripts, %d usable, %d verdicts" % (len(scripts), len(usable), len(verd)))

    depth = 2 if q else 3
    level = [(s, [], calls) for s, calls in usable]
    nid = 0
    crash_points = 0
    for lv in range(1, depth + 1):
        batch = []
        for s, dies, calls in level:
            # incarnations at or after the last chosen death
            first = len(dies)
            for inc_idx in range(first, len(calls)):
                for k in range(1, calls[inc_idx] + 2):
                    nd = dies + [0] * (inc_idx - len(dies)) + [k]
                    nid += 1
                    batch.append(dict(s, id="r%d" % nid, dies=nd))
        # budgets (measured: ~60 runs/s): deeper levels are seeded samples of the full enumeration
        limit = {1: (None, None), 2: (1500, 10000), 3: (0, 3000)}[lv][0 if q else 1]
        if limit is not None and len(batch) > limit:
            c.rng.shuffle(batch)
            batch = batch[:limit]
        if not batch:
            break
        crash_points += len(batch)
        c.log("level %d: %d crash runs" % (lv, len(batch)))
        level = []
        for off in range(0, len(batch), 4000):
            part = batch[off:off + 4000]
            runs = execute(part, "l%d_%d" % (lv, off))
            for s, v in monitor(runs, part, "l%d_%d" % (lv, off)):
                lost.append((s, s["dies"], v))
            for ix, (s, evs) in enumerate(zip(part, runs)):
                cs = calls_of(evs)
                # the death actually happened iff a crash event at that call was recorded
                if any(e["ev"] == "crash" for e in evs):
                    level.append((s, s["dies"], cs))
                if len(strict_sample) < (300 if q else 2000) and ix % 5 == 0 and s.get("consumers", 1) == 1:
                    strict_sample.append(evs)
            if lv == 1 and off == 0 and runs:
                ex = runs[len(runs) // 2]
                c.sample(dict(script=fmt(part[len(runs) // 2]["steps"]), dies=part[len(runs) // 2]["dies"],
                              events=[{k: v for k, v in e.items() if k in ("ev", "req", "inc", "ok", "outcome", "at", "n")}
                                      for e in ex if e["ev"] not in ("reset",)][:40]))

    # ---------------------------------------------------------------- 3b. one storage call overtaken by everything else
    # Two-consumer scripts: storage call K of the first incarnation is HELD at its entry until every other goroutine has
    # gone quiet, then applied, and the process dies right after it (xh.Store.SetHold).  The queue makes its storage
    # calls under its mutex, so nothing can overtake a call and this equals a death at the entry of call K+1; a queue
    # that released the mutex around a storage call would let dequeues / completions of the other consumer commit first
    # and the held (older) state land on top of them.  The verdict is the monitor's, as for every other run.
    hold_batch = []
    for s, calls in usable:
        if s.get("consumers", 1) >= 2 and calls:
            for k in range(1, calls[0] + 1):
                nid += 1
                hold_batch.append(dict(s, id="h%d" % nid, dies=[], hold=k))
    hlimit = 1200 if q else 4000
    if len(hold_batch) > hlimit:
        c.rng.shuffle(hold_batch)
        hold_batch = hold_batch[:hlimit]
    if hold_batch:
        runs = execute(hold_batch, "hold")
        for s, v in monitor(runs, hold_batch, "hold"):
            lost.append((s, s["dies"], v))
        crash_points += len(hold_batch)
        c.extra["held_call_runs"] = len(hold_batch)
        c.log("held-call runs (two consumers): %d" % len(hold_batch))

    # ---------------------------------------------------------------- verdicts
    # re-confirm every reported loss once (DESIGN 2.4): it must reproduce when the script is run alone
    confirmed = []
    for s, dies, v in lost[:10]:
        again = dict(s, id="confirm", dies=dies)
        ok = False
        for _ in range(3):       # (scripts with several consumers depend on which consumer wins a race: up to 3 runs alone)
            runs = execute([again], "confirm")
            if monitor(runs, [again], "confirm"):
                ok = True
                break
        if ok:
            confirmed.append((s, dies, v))
        else:
            c.extra["unconfirmed_losses"] = c.extra.get("unconfirmed_losses", 0) + 1
    if lost and not confirmed:
        raise vlib.Inconclusive("%d loss verdict(s) did not reproduce when re-run alone" % len(lost))
    lost = confirmed
    seen_sig = set()
    for s, dies, v in lost:
        what = "accepted request(s) %s never handed over again (%s) cap=%d block=%s retry=%s script=[%s] dies=%s" % (
            v["owed"], v["kind"], s["cap"], s["block"], s["retry"], fmt(s["steps"]), dies)
        if s.get("hold"):
            what += " consumers=%d, storage call %d held until all else was quiet, death right after it" % (s.get("consumers", 1), s["hold"])
        sig = None
        if len(seen_sig) < 10:
            c.violation(what, replay_obj=dict(script={k: s[k] for k in ("cap", "block", "retry", "consumers", "steps", "hold") if k in s}, dies=dies),
                        signature=sig)
            seen_sig.add(what)
    c.extra["lost_runs"] = len(lost)
    c.extra["crash_runs"] = crash_points
    c.extra["scripts"] = len(scripts)

    # ---------------------------------------------------------------- 4. strict conformance (drift only)
    strict(c, strict_sample)

    # ---------------------------------------------------------------- 5. the queue inside the composed exporter
    # "a hand-off interrupted by shutdown leaves the request stored for the next start; a request disappears from
    # storage only after a final outcome" -- with everything the exporter helper puts between the queue and the
    # export function: batcher (requests merged and SPLIT, so one stored request has several outcomes that are
    # combined), retry sender (back-off interrupted by shutdown), obs report.  Scripts are behaviours of
    # specs/ExporterHelper (persistent configurations only), the verdict is XHMonitor's DrainedPersistent clause.
    composed(c)

    c.evaluations = runs_total
    c.exhaustive = False
    c.assumptions += ["storage Batch is atomic (the storage contract the queue relies on)",
                      "storage errors other than process death are not injected",
                      "body marshal/unmarshal is identity on the request tag (C08's subject)",
                      "one consumer in the crash-enumerated scripts (2 in the exhaustive design check)"]
    c.finish_args = dict(rule="scripts = eager one-consumer behaviours of PersistentQueue.tla enumerated by TLC; each is run on the "
                              "real queue once per storage-call boundary of every incarnation (death at the entry of call K), "
                              "then per boundary of the following recovery; non-trivial = a death actually occurred",
                         distinct_nontrivial=crash_points)


def composed(c, replay_script=None):
    import xslib
    from xslib import R3
    binp = c.go_build("exporter", pkg="./xs", out=os.path.join(c.work, "bin_xs"))
    if replay_script:
        s = dict(replay_script, id="replay")
        lines = xslib.execute(c, binp, [s], "composed_replay")
        for v in xslib.monitor(c, lines, "composed_replay"):
            if v["clause"] in ("DrainedPersistent", "StoredIsRedelivered"):
                c.violation("composed exporter (persistent queue + batcher + retry): %s %s; script: %s" % (v["clause"], v["detail"], xslib.fmt(s)),
                            replay_obj=dict(kind="composed", script=replay_script))
        c.sample(dict(script=xslib.fmt(s)))
        return
    plans = [((R3, "persistent", 3, 1, False, 0, 0, True), {}), ((R3, "persistent", 3, 1, True, 3, 2, True), {}),
             ((R3, "persistent", 3, 1, True, 2, 1, True), {}), ((R3, "persistent", 3, 2, True, 2, 1, True), {})]
    scripts = xslib.generate(c, plans, num=c.pick(60, 600))
    scripts = xslib.variants(scripts, c.rng, signals=False)
    lines = xslib.execute_or_crash(c, binp, scripts, "composed")
    if lines is None:
        return
    # DrainedPersistent: nothing accepted is missing from both "exported with a final outcome" and "stored"; StoredIsRedelivered:
    # what is stored is handed to the export function by the next incarnation of the exporter over the same storage
    COMPOSED = ("DrainedPersistent", "StoredIsRedelivered")
    verdicts = [v for v in xslib.monitor(c, lines, "composed") if v["clause"] in COMPOSED]
    byid = {s["id"]: s for s in scripts}
    reported = 0
    for v in verdicts[:20]:
        s = byid[v["script"]]
        l2 = xslib.execute(c, binp, [dict(s, id="confirm")], "composed_confirm")     # alone, once more
        if not [w for w in xslib.monitor(c, l2, "composed_confirm") if w["clause"] == v["clause"]]:
            c.extra["composed_unconfirmed"] = c.extra.get("composed_unconfirmed", 0) + 1
            continue
        c.violation("composed exporter (persistent queue + batcher + retry): %s; script: %s" % (
                    ("accepted items %s are neither exported with a final outcome nor stored after Shutdown" % v["detail"])
                    if v["clause"] == "DrainedPersistent" else
                    ("items %s were stored when the exporter stopped but the next incarnation over the same storage never exported them" % v["detail"]),
                    xslib.fmt(s)), replay_obj=dict(kind="composed", script={k: s[k] for k in ("cfg", "steps", "outcomes")}))
        reported += 1
        if reported >= 5:
            break
    c.traces_validated += len(scripts)
    c.extra["composed_scripts"] = len(scripts)
    c.log("composed exporter: %d scripts, %d DrainedPersistent / StoredIsRedelivered verdict lines, %d reported" % (len(scripts), len(verdicts), reported))


def strict(c, sample):
    """Strict conformance: every recorded storage call must be the storage effect of the model's next
    storage action, and the durable state of the model must equal the decoded real storage contents."""
    if not sample:
        return
    bycap = {}
    for evs in sample:
        bycap.setdefault(evs[0]["cfg"]["cap"], []).append(evs)
    ok_total = 0
    for cap, group in sorted(bycap.items()):
        tp = os.path.join(c.work, "strict_cap%d.ndjson" % cap)
        with open(tp, "w") as fh:
            for evs in group:
                for e in evs:
                    if e["ev"] in ("note", "await_timeout", "end", "drain_end", "shutdown_end", "start_timeout"):
                        continue
                    e = dict(e)
                    if e["ev"] == "reset":
                        e = dict(ev="reset", script=e["script"], cap=e["cfg"]["cap"])
                    if e.get("after") is not None:
                        a = e["after"]
                        keys = sorted(int(k) for k in a["items"])
                        e["after"] = dict(ri=max(a["ri"], 0), wi=max(a["wi"], 0), di=a["di"] or [],
                                          keys=keys, vals=[a["items"][str(k)] for k in keys])
                    for k in ("ops", "cfg", "pushed", "calls"):
                        e.pop(k, None)
                    fh.write(json.dumps(e, separators=(",", ":")) + "\n")
        cfg = """SPECIFICATION TSpec
CONSTANTS
  Reqs = {"a","b","c","d"}
  Capacity = %d
  NumConsumers = 1
  MaxCrashes = 50
  Fixed = TRUE
  AllowShutdown = TRUE
CONSTRAINT HighWater
INVARIANT TraceInvNoLoss
POSTCONDITION Accepted
CHECK_DEADLOCK FALSE
""" % cap
        r = c.tlc(SPEC, "PQTrace", cfg_text=cfg, workers=1, dfs=True, files={"observed.ndjson": tp}, timeout=1200,
                  count=False, label="strict_cap%d" % cap, heap="12g")
        if r.ok:
            ok_total += len(group)
        else:
            hw = [l for l in r.out.splitlines() if "REJECTED_AT" in l]
            at = None
            if hw:
                at = int(hw[0].replace(">>", "").split(",")[1])
            ctx = open(tp).read().splitlines()[max(0, (at or 1) - 3):(at or 1) + 1] if at else []
            c.model_drift("recorded storage calls are not a behaviour of PersistentQueue.tla (Fixed=TRUE), cap=%d: %s %s near %s" % (
                cap, r.error, hw[:1], ctx))
    c.extra["strict_traces_conform"] = ok_total
    c.traces_validated += ok_total
    c.log("strict conformance: %d of %d sampled traces follow PersistentQueue.tla" % (ok_total, len(sample)))
