"""E03 (extra specification, not a listed property) -- the CONTEXT an exporter's export function sees.

{"id": "E03",
 "title": "The context handed to an exporter's export function: batch links, per-attempt timeout, no cancellation
           through the sending queue",
 "statement": "Every batch handed to the export function of an exporter built with exporterhelper is connected (as the
   parent span context or through a trace link) to the span context of every request whose data it holds -- a batch merged
   from several requests carries a link to each of them -- and is connected to nothing but span contexts of requests that
   were handed to the exporter.  With timeout T > 0 every export ATTEMPT (the first one and every retry) gets a context
   whose deadline is at most T after the start of that attempt and not earlier than T after the end of the previous attempt
   on the same batch (a fresh timeout per attempt), never later than the caller's own deadline when the export runs in the
   caller's context (no queue); with timeout 0 no deadline is added.  With a sending queue (not wait_for_result) neither the
   cancellation nor the deadline of the producer's context reaches the export: a context cancelled before or after the
   enqueue does not cancel the export.  TimeoutConfig.Validate rejects exactly the negative timeouts.",
 "quantifier": "for every sequence of requests (each with its own trace/span context: sampled, unsampled or none; optional
   caller deadline, earlier or later than T; optional cancellation before / after the enqueue; also requests whose context is
   the one an UPSTREAM exporter helper handed to its export function for a merged batch -- no span context, the links to the
   upstream requests registered in it --, as happens when an exporter feeds other exporters and traces level is none), every
   configuration (queue
   none / memory / memory+wait_for_result / persistent, batching off / on with sizes that merge, split, merge+split, the
   deprecated WithBatcher option, timeout 0 / T, retry on / off with failing attempts, no-op or SDK tracer), every attempt",
 "anchors": {"files": ["exporter/exporterhelper/internal/queuebatch/batch_context.go",
                       "exporter/exporterhelper/internal/queuebatch/default_batcher.go",
                       "exporter/exporterhelper/internal/queuebatch/memory_queue.go",
                       "exporter/exporterhelper/internal/timeout_sender.go", "exporter/exporterhelper/internal/retry_sender.go",
                       "exporter/exporterhelper/internal/obs_report_sender.go", "exporter/exporterhelper/internal/base_exporter.go"],
             "mechanisms": ["contextWithMergedLinks / LinksFromContext", "defaultBatcher.Consume / flush ctx",
                            "context.WithoutCancel in memoryQueue.add", "timeoutSender.Send inside retrySender.Send",
                            "trace.WithLinks in obsReportSender.startOp"]}}

Sources of the statement (documentation, doc comments, tests -- not incidental behaviour): CHANGELOG "exporterhelper: Link
batcher context to all batched request's span contexts (#12212)"; batch_context.go LinksFromContext + TestBatchContextLink;
TimeoutConfig ("The timeout applies to individual attempts ...", "A zero timeout means no timeout", Validate) and README
"timeout: Time to wait per individual attempt"; timeoutSender.Send comment (deadline must be renewed on retries);
memoryQueue.add comment "Prevent cancellation and deadline to propagate to the context stored in the queue" +
TestQueueBatchDoNotPreserveCancellation.

SILENT points of the documentation (the clauses allow every behaviour there; the model says what the code does, a deviation
from the model with the clauses intact is reported as MODEL-DRIFT, never as a finding):
  S1 a batch made of ONE request: span context kept as PARENT (code) or as a link -- both accepted;
  S2 a link to a request merged into the batch but none of whose data it holds (impossible with the items sizer) -- accepted,
     only links to something that is not the span context of a request handed in are refused;
  S3 order / multiplicity of links;  S4 wait_for_result: deadline may be bounded by any producer in the batch, cancellation
  open;  S5 persistent queue: nothing documented about context propagation (code: context.Background()), link clauses do
  not apply;  S6 no queue: a cancelled caller context is simply passed on.

FINDING E03-links-alias (open, extras/known_findings.json, proposed repair extras/fixes/E03-links-alias.patch): for requests
whose context carries the links of an upstream batch, contextWithMergedLinks appends INTO the array of the links slice stored
in the held batch's context; a second merge that starts from the same upstream context overwrites the link the first merge
registered -- also in a batch that is already being exported.  TLC finds it as a counterexample of the design with the model
of the tree as it is (Variant "alias"); those counterexamples are replayed on the real code (directed scripts).

Spec: specs/ExportContext (ExportContextObs = clauses, ExportContext = implementation-shaped model reusing
specs/Batcher/BatcherSplit.tla, ExportContextMC, ExportContextGen, ExportContextTrace).
Binding: harness/exportctx (real exporterhelper.NewLogs + WithQueue / WithBatcher / WithTimeout / WithRetry; the export
function reads queuebatch.LinksFromContext, the span context / exporter span, ctx.Deadline(), ctx.Err()).
  1. TLC exhaustive design check (ExportContextMC) of the four clauses + two model facts; three deliberately wrong model
     variants (no detach, shared deadline, merge drops the held batch's links) must be REFUTED with the expected clause; the
     model of the tree as it is for contexts that carry links (Variant "alias") must satisfy everything with LinksComplete
     in the form Inv \/ KnownAlias and be REFUTED with strict LinksComplete.
  2. TLC generates scripts (behaviours of the model, -simulate, seeded) per configuration, and -- exhaustively, Variant
     "alias" -- the behaviours that break LinksComplete (directed scripts); driver-level variants (SDK tracer, WithBatcher,
     hold time, driver-placed failing attempts) are derived; every script runs on the real code.
  3. ExportContextTrace: every recorded trace is judged against the clauses (VIOL lines) and TLC searches for an
     explanation as a behaviour of the model (timer / consumer steps are not logged).  Deadline clauses are exact
     inequalities between monotonic clock readings (no slack), so they do not depend on the load of the machine.
     A clause verdict is re-confirmed by running the script alone before it is reported.
"""
import json, os, subprocess
from concurrent.futures import ThreadPoolExecutor
import vlib

SPEC = "ExportContext"
SPLIT = os.path.join(vlib.VERIF, "specs", "Batcher", "BatcherSplit.tla")
T_MODEL, T_MS = 3, 30000                       # model ticks -> real timeout
DL_MS = {0: 0, 2: 10000, 8: 100000}            # caller deadline classes: none, earlier than T, later than T


def rec(d):
    def v(x):
        if isinstance(x, (list, tuple)):
            return "<<" + ", ".join(v(y) for y in x) + ">>"
        if isinstance(x, bool):
            return "TRUE" if x else "FALSE"
        if isinstance(x, int):
            return str(x)
        return '"%s"' % x
    return "[" + ", ".join("%s |-> %s" % (k, v(x)) for k, x in d.items()) + "]"


def mcfg(queue, batch=False, mn=0, mx=0, timeout=T_MODEL, retry=False, enq=False):
    return dict(queue=queue, batch=batch, min=mn, max=mx, timeout=timeout, retry=retry, enq=enq)


UP = ["u1", "u2", "u3"]      # the requests an upstream exporter merged into the batch whose context "chain" requests carry


def attrs(ns, scs, dls, cancels):
    return [dict(n=n, sc=sc, dl=dl, cancel=ca, up=UP if sc == "chain" else []) for n in ns for sc in scs for dl in dls for ca in cancels]


def params(reqs, cfgs, atts, maxnow=0, outs=("ok", "transient")):
    return """------------------------- MODULE ExportContextParams -------------------------
ParamReqs   == <<%s>>
ParamCfgs   == {%s}
ParamAttrs  == {%s}
ParamMaxNow == %d
ParamOuts   == {%s}
=============================================================================
""" % (", ".join('"%s"' % r for r in reqs), ",\n                ".join(rec(x) for x in cfgs),
       ",\n                ".join(rec(a) for a in atts), maxnow, ", ".join('"%s"' % o for o in outs))


MC_CFG = """SPECIFICATION MCSpec
CONSTANTS
  MaxAttempts = %d
  Variant = "%s"
INVARIANT InvLinksComplete
INVARIANT InvLinksSound
INVARIANT InvDeadlineOK
INVARIANT InvNotCancelled
%sCHECK_DEADLOCK FALSE
"""
FACTS = "INVARIANT ExactOrigins\nINVARIANT SingleKeepsParent\n"
MENU3 = [dict(n=1, sc="span", dl=0, cancel="post", up=[]), dict(n=2, sc="none", dl=2, cancel="no", up=[]), dict(n=3, sc="unsampled", dl=8, cancel="pre", up=[])]
MENU_CHAIN = [dict(n=1, sc="span", dl=0, cancel="post", up=[]), dict(n=2, sc="unsampled", dl=2, cancel="no", up=[]), dict(n=2, sc="none", dl=0, cancel="no", up=[])]
MENU2 = [dict(n=2, sc="span", dl=2, cancel="post", up=[]), dict(n=3, sc="unsampled", dl=0, cancel="pre", up=[])]
# contexts that carry the links of an upstream batch (finding E03-links-alias)
MENU_UP = [dict(n=1, sc="chain", dl=0, cancel="no", up=UP), dict(n=1, sc="span", dl=0, cancel="no", up=[]), dict(n=2, sc="chain", dl=2, cancel="post", up=UP)]


def design(c):
    q = c.quick()
    R2, R3 = ["r1", "r2"], ["r1", "r2", "r3"]
    runs = [  # label, requests, configurations, attribute menu, clock bound, attempts
        ("mem_batch+sync", R2, [mcfg("memory", True, 2, 3, T_MODEL, True), mcfg("none", False, 0, 0, T_MODEL, True)], MENU3, 2, 2),
        ("wfr+nobatch+persistent+t0", R2, [mcfg("wfr", True, 2, 3, T_MODEL, True), mcfg("memory", False, 0, 0, 0, True),
                                           mcfg("persistent", True, 3, 0, T_MODEL, False), mcfg("none", False, 0, 0, 0, False),
                                           mcfg("wfr", False, 0, 0, 0, False), mcfg("memory", True, 2, 3, 0, False, True)], MENU3, 1, 2),
        ("three_requests", R3, [mcfg("memory", True, 3, 4, T_MODEL, False), mcfg("memory", True, 2, 0, 0, False)], MENU2, 0, 1),
        # chains of merges: links accumulate over three and more merges (a merged context is merged again)
        ("four_requests_chain", R3 + ["r4"], [mcfg("memory", True, 6, 0, T_MODEL, False), mcfg("memory", True, 3, 4, T_MODEL, False)], MENU_CHAIN, 0, 1),
    ]
    if not q:
        runs += [("three_requests_mem", R3, [mcfg("memory", True, 2, 3, T_MODEL, True)], MENU3, 1, 2),
                 ("three_requests_wfr", R3, [mcfg("wfr", True, 3, 4, T_MODEL, True), mcfg("memory", True, 2, 0, 0, True, True)], MENU3, 1, 2),
                 ("three_requests_sync", R3, [mcfg("none", False, 0, 0, T_MODEL, True), mcfg("memory", False, 0, 0, T_MODEL, True)], MENU3, 1, 2)]
    # request contexts that carry the links of an upstream batch ("chain"): the documented behaviour (Variant "code") satisfies
    # everything; the tree as it is (Variant "alias", finding E03-links-alias) satisfies everything but LinksComplete, which holds
    # in the form Inv \/ KnownAlias -- and is REFUTED in its strict form (last entry of `wrong`)
    chain_cfgs = [mcfg("memory", True, 2, 0, T_MODEL, True), mcfg("memory", True, 2, 3, 0, False)]
    chain_reqs = R3 if q else R3 + ["r4"]
    runs.append(("chain_code", chain_reqs, chain_cfgs, MENU_UP, 0, 2))
    runs.append(("chain_alias_known", chain_reqs, chain_cfgs, MENU_UP, 0, 2))
    # the clauses bite: wrong models must be refuted, each by the clause it is meant to break
    wrong = [("nodetach", {"InvNotCancelled", "InvDeadlineOK"}), ("shared_deadline", {"InvDeadlineOK"}), ("drop_first", {"InvLinksComplete"}),
             ("alias", {"InvLinksComplete"})]

    def good(arg):
        i, (label, reqs, cfgs, menu, maxnow, ma) = arg
        outs = ("ok",) if ma == 1 else ("ok", "transient")
        cfg_text = MC_CFG % (ma, "code", FACTS)
        if label == "chain_alias_known":
            cfg_text = MC_CFG.replace("INVARIANT InvLinksComplete\n", "INVARIANT InvLinksCompleteOrKnown\n") % (ma, "alias", "")
        return c.tlc_must_pass(SPEC, "ExportContextMC", cfg_text=cfg_text, timeout=1500, coverage=(i == 0), heap="6g",
                               workers=max(2, vlib.NCPU // 3), label="design_" + label,
                               files={"BatcherSplit.tla": SPLIT, "ExportContextParams.tla": params(reqs, cfgs, menu, maxnow, outs)})

    def bad(arg):
        variant, expect = arg
        par = params(R2, runs[0][2], MENU3, 2)
        if variant == "alias":
            par = params(R3 + ["r4"], chain_cfgs[:1], MENU_UP[:2], 0)
        r = c.tlc(SPEC, "ExportContextMC", cfg_text=MC_CFG % (2, variant, ""), timeout=600, count=False, heap="2g", workers=2,
                  files={"BatcherSplit.tla": SPLIT, "ExportContextParams.tla": par}, label="wrong_" + variant)
        if not (r.error and r.error[0] == "invariant" and r.error[1] in expect):
            raise vlib.Inconclusive("wrong model variant %s was not refuted by %s: %s" % (variant, sorted(expect), r.error))
        return variant, r.error[1]
    with ThreadPoolExecutor(max_workers=8) as ex:
        fg = [ex.submit(good, a) for a in enumerate(runs)]
        fb = [ex.submit(bad, a) for a in wrong]
        for f in fg:
            f.result()
        c.extra["wrong_model_variants_refuted"] = dict(f.result() for f in fb)


GEN_CFG = """SPECIFICATION GSpec
CONSTANTS
  MaxAttempts = 3
  Variant = "code"
INVARIANT Emit
CHECK_DEADLOCK FALSE
"""
FULL_MENU = attrs((1, 2, 3, 5), ("span", "unsampled", "none"), (0, 2, 8), ("no", "pre", "post"))


def plans(c):
    T = T_MODEL
    p = [mcfg("memory", True, 2, 3, T, True), mcfg("memory", True, 3, 4, T, False), mcfg("memory", True, 2, 0, T, True),
         mcfg("memory", True, 4, 4, 0, False), mcfg("memory", True, 1, 2, T, True), mcfg("memory", True, 6, 0, 0, True),
         mcfg("memory", False, 0, 0, T, True), mcfg("memory", False, 0, 0, 0, False),
         mcfg("none", False, 0, 0, T, True), mcfg("none", False, 0, 0, 0, True), mcfg("none", False, 0, 0, T, False),
         mcfg("wfr", True, 2, 3, T, True), mcfg("wfr", True, 3, 0, 0, False), mcfg("wfr", False, 0, 0, T, True),
         mcfg("persistent", False, 0, 0, T, True), mcfg("persistent", True, 2, 3, T, False)]
    return p


CHAIN_MENU = attrs((1, 2), ("chain", "chain", "span", "none"), (0, 2), ("no", "post"))


def chain_plans():
    T = T_MODEL
    return [mcfg("memory", True, 2, 0, T, True), mcfg("memory", True, 2, 3, T, True), mcfg("memory", True, 3, 0, 0, False),
            mcfg("wfr", True, 2, 0, T, False), mcfg("none", False, 0, 0, T, False), mcfg("memory", False, 0, 0, T, True)]


def generate(c, num):
    """num behaviours per configuration; the configurations are spread over a few TLC runs (-simulate draws the initial state,
    i.e. the configuration, at random for every behaviour)"""
    reqs = ["r1", "r2", "r3", "r4"]
    ngroups = c.pick(3, 8)
    full = plans(c)
    groups = [(full[i::ngroups], FULL_MENU) for i in range(ngroups)] + [(chain_plans(), CHAIN_MENU)]

    def one(arg):
        k, (cfgs, menu) = arg
        r = c.tlc(SPEC, "ExportContextGen", cfg_text=GEN_CFG, workers=1, simulate="num=%d" % (num * len(cfgs)), depth=80, seed=c.seed * 101 + k,
                  timeout=900, count=False, heap="2g", label="gen%02d" % k,
                  files={"BatcherSplit.tla": SPLIT, "ExportContextParams.tla": params(reqs, cfgs, menu, 0, ("ok", "transient", "perm"))})
        if not r.ok:
            raise vlib.Inconclusive("script generator failed: %s %s" % (r.error, r.out[-1500:]))
        return r.printed
    with ThreadPoolExecutor(max_workers=9) as ex:
        res = list(ex.map(one, list(enumerate(groups))))
    scripts, seen = [], set()
    for printed in res:
        for b in printed:
            key = json.dumps([b["cfg"], b["steps"], b["outs"]], sort_keys=True)
            if key in seen:
                continue
            seen.add(key)
            scripts.append(to_script(b["cfg"], b["steps"], b["outs"], {}))
    return scripts


DIRECTED_CFG = """SPECIFICATION GSpec
CONSTANTS
  MaxAttempts = 2
  Variant = "alias"
INVARIANT EmitDefect
CHECK_DEADLOCK FALSE
"""


def directed(c):
    """counterexamples of the design for the tree AS IT IS (Variant "alias": contextWithMergedLinks appends into a shared array):
    TLC enumerates the generator spec exhaustively and prints only the behaviours in which LinksComplete breaks"""
    menu = [dict(n=1, sc="chain", dl=0, cancel="no", up=UP), dict(n=1, sc="span", dl=0, cancel="no", up=[])]
    cfgs = [mcfg("memory", True, 2, 0, T_MODEL, True), mcfg("memory", True, 2, 3, 0, True)]
    if not c.quick():
        menu.append(dict(n=2, sc="unsampled", dl=0, cancel="no", up=[]))
        cfgs.append(mcfg("wfr", True, 2, 0, 0, True))
    r = c.tlc(SPEC, "ExportContextGen", cfg_text=DIRECTED_CFG, timeout=900, heap="4g", workers=1, count=False, label="gen_directed_alias",
              files={"BatcherSplit.tla": SPLIT, "ExportContextParams.tla": params(["r1", "r2", "r3", "r4"], cfgs, menu, 0)})
    if not r.ok:
        raise vlib.Inconclusive("directed generator failed: %s %s" % (r.error, r.out[-1500:]))
    out, seen = [], set()
    for b in r.printed:
        key = json.dumps([b["cfg"], b["steps"], b["outs"]], sort_keys=True)
        if key not in seen:
            seen.add(key)
            out.append(to_script(b["cfg"], b["steps"], b["outs"], {}))
    if not out:
        raise vlib.Inconclusive("the model of the tree as it is (Variant alias) yields no behaviour that breaks LinksComplete")
    return out


def to_script(mc, steps, outs, drv):
    cfg = dict(queue=mc["queue"], batch=mc["batch"], min=mc["min"], max=mc["max"], timeout_ms=T_MS if mc["timeout"] else 0,
               retry=mc["retry"], tracer="noop", legacy=False, hold_us=1200, flush_ms=40)
    cfg.update(drv)
    st = []
    for s in steps:
        s = dict(s)
        if s["op"] == "send":
            s["dl_ms"] = DL_MS[s["dl"]]
        st.append(s)
    return dict(cfg=cfg, steps=st, outs=list(outs), model=mc)


def variants(scripts, rng):
    """driver-level variants the model does not distinguish: SDK tracer (the exporter span and its links are real), batching
    configured through the deprecated WithBatcher option, no hold time"""
    out = []
    for s in scripts:
        out.append(s)
        if any(x.get("sc") == "chain" for x in s["steps"]):
            # contexts of an upstream batch: the no-op tracer only (with a recording tracer the queue gives every request a
            # span of its own, which then stands for the request)
            if s["cfg"]["batch"] and rng.random() < 0.3:
                out.append(dict(s, cfg=dict(s["cfg"], legacy=True)))
            continue
        x = rng.random()
        if x < 0.45:
            out.append(dict(s, cfg=dict(s["cfg"], tracer="sdk")))
        if s["cfg"]["batch"] and s["cfg"]["queue"] != "persistent" and rng.random() < 0.3:
            out.append(dict(s, cfg=dict(s["cfg"], legacy=True, tracer=rng.choice(["noop", "sdk"]))))
        if rng.random() < 0.15:
            out.append(dict(s, cfg=dict(s["cfg"], hold_us=0)))
        if s["cfg"]["retry"] and rng.random() < 0.5:
            # failing attempts placed by the driver (the model does not predict outcomes: the log carries them)
            outs, k = [], 0
            for _ in range(12):
                o = rng.choice(["transient", "transient", "ok", "perm"]) if k < 2 else "ok"
                k = k + 1 if o == "transient" else 0
                outs.append(o)
            out.append(dict(s, outs=outs, cfg=dict(s["cfg"], tracer=rng.choice(["noop", "sdk"]))))
    for i, s in enumerate(out):
        s["id"] = "x%d" % i
    # pseudo-script: what TimeoutConfig.Validate says about negative / zero / positive timeouts (judged by ValidTimeout)
    out.append(dict(id="x%d" % len(out), cfg=dict(queue="validate", batch=False, min=0, max=0, timeout_ms=0, retry=False, tracer="noop",
                                                  legacy=False, hold_us=0, flush_ms=40), steps=[], outs=[], model={}))
    return out


def execute(c, binp, scripts, tag, nproc=8, par=6):
    nsh = min(nproc, max(1, len(scripts)))
    procs = []
    for k in range(nsh):
        sp = os.path.join(c.work, "es_%s_%d.ndjson" % (tag, k))
        tp = os.path.join(c.work, "et_%s_%d.ndjson" % (tag, k))
        vlib.write_ndjson(sp, scripts[k::nsh])
        procs.append((subprocess.Popen([binp, "run", sp, tp, str(par)], stdout=subprocess.PIPE, stderr=subprocess.PIPE, text=True), tp, k))
    traces = {}
    for p, tp, k in procs:
        try:
            out, err = p.communicate(timeout=1500)
        except subprocess.TimeoutExpired:
            p.kill()
            raise vlib.Inconclusive("exportctx driver timed out")
        if p.returncode != 0:
            head = vlib.code_panic(err)
            if head:
                raise vlib.CodePanic(head, [os.path.basename(binp), "run"])
            raise vlib.Inconclusive("exportctx driver failed rc=%s: %s" % (p.returncode, err[-3000:]))
        cur = None
        for l in open(tp).read().splitlines():
            e = json.loads(l)
            if e["ev"] == "reset":
                cur = traces.setdefault(e["sid"], [])
            cur.append(l)
    if len(traces) != len(scripts):
        raise vlib.Inconclusive("driver returned %d traces for %d scripts" % (len(traces), len(scripts)))
    return traces


def ended(ls):
    evs = [json.loads(l)["ev"] for l in ls]
    return "stopped" in evs and "hang" not in evs and "note" not in evs


def execute_all(c, binp, scripts, tag):
    """execute(); a script that did not run to its end (Shutdown did not return within 20 s, set-up refused) is run once more
    alone; if that does not help it is left out (termination is not this statement's subject) and counted"""
    traces = execute(c, binp, scripts, tag)
    byid = {s["id"]: s for s in scripts}
    bad = [sid for sid, ls in traces.items() if not ended(ls)]
    for sid in bad[:10]:
        t2 = execute(c, binp, [byid[sid]], tag + "_again_" + sid, nproc=1, par=1)
        if ended(t2[sid]):
            traces[sid] = t2[sid]
    left = [sid for sid in bad if not ended(traces[sid])]
    if len(left) > max(2, len(scripts) // 100):
        raise vlib.Inconclusive("%d scripts did not run to their end, e.g. %s" % (len(left), traces[left[0]][-3:]))
    for sid in left:
        del traces[sid]
    c.extra["scripts_not_ended"] = c.extra.get("scripts_not_ended", 0) + len(left)
    return traces


def validate(c, traces, tag, chunk=400):
    """TLC: clauses (VIOL lines) + explanation by the model (EXPL lines), several TLC runs in parallel"""
    sids = list(traces)
    chunks = [sids[i:i + chunk] for i in range(0, len(sids), chunk)]

    def one(arg):
        k, ids = arg
        mp = os.path.join(c.work, "obs_%s_%d.ndjson" % (tag, k))
        with open(mp, "w") as fh:
            for sid in ids:
                fh.write("\n".join(traces[sid]) + "\n")
        r = c.tlc(SPEC, "ExportContextTrace", cfg="ExportContextTrace.cfg", workers=1, timeout=1500, count=False, heap="3g",
                  files={"BatcherSplit.tla": SPLIT, "observed.ndjson": mp}, label="trace_%s_%d" % (tag, k), tag="VIOL")
        if not r.ok:
            raise vlib.Inconclusive("trace validation run failed: %s\n%s" % (r.error, r.out[-2500:]))
        expl = set()
        for line in r.out.splitlines():
            if line.startswith('<<"EXPL", "') and line.endswith('">>'):
                expl.add(line[len('<<"EXPL", "'):-3])
        return r.printed, expl, r.distinct
    with ThreadPoolExecutor(max_workers=6) as ex:
        res = list(ex.map(one, list(enumerate(chunks))))
    viol, expl, states = {}, set(), 0
    for printed, e, n in res:
        expl |= e
        states += n
        for v in printed:
            viol.setdefault(v["sid"], {}).setdefault(v["clause"], v)
    return viol, expl, states


def fmt(s):
    if s["cfg"]["queue"] == "validate":
        return "TimeoutConfig.Validate on timeouts -1s, -1ns, 0, 1ns, 1s, default"

    def st(x):
        if x["op"] == "send":
            return "send %s(n=%d,%s,dl=%s,cancel=%s)" % (x["r"], x["n"], x["sc"] + ("[%s]" % ",".join(x["up"]) if x.get("up") else ""), x["dl"], x["cancel"])
        return x["op"] + (" " + x["r"] if x.get("r") else "")
    cf = s["cfg"]
    return "%s | outs=%s | queue=%s batch=%s timeout_ms=%d retry=%s tracer=%s legacy=%s" % (
        "; ".join(st(x) for x in s["steps"]), ",".join(s["outs"]), cf["queue"],
        "%d..%d" % (cf["min"], cf["max"]) if cf["batch"] else "off", cf["timeout_ms"], cf["retry"], cf["tracer"], cf["legacy"])


def describe(v):
    d = v["detail"]
    cc = d["c"]
    if v["clause"] == "TimeoutValidate":
        return "TimeoutValidate violated: TimeoutConfig{Timeout: %s ns}.Validate() %s" % (d["timeout"], "failed" if cc["err"] else "succeeded")
    return "%s violated at export call %d: items=%s parent=%s links=%s span_links=%s deadline=%s entered_at=%s lo=%s timeout_us=%s ctx_err=%s queue=%s" % (
        v["clause"], v["call"], cc["items"], cc["parent"], cc["links"], cc["sl"], cc["d"] if cc["hasdl"] else "none", cc["e"], d["lo"],
        d["timeout"], cc["err"], d["queue"])


KNOWN_ALIAS = ("E03|links-alias|a batch that holds a request whose context carried the links of an upstream batch has the upstream links "
               "intact but the links registered after them lost or replaced (contextWithMergedLinks appends into the shared array)")


def signature(v, s):
    """narrow signature of a clause verdict: clause + configuration class + what is wrong (no times)"""
    cc = v["detail"]["c"]
    chain = {x["r"]: x["up"] for x in s["steps"] if x.get("sc") == "chain"}
    if (v["clause"] in ("LinksComplete", "LinksSound") and len(chain) >= 2 and s["cfg"]["tracer"] == "noop"
            and any(i[0] in chain and cc["links"][:len(chain[i[0]])] == chain[i[0]] for i in cc["items"])):
        return KNOWN_ALIAS
    if v["clause"] == "TimeoutValidate":
        return "E03|TimeoutValidate|t=%s" % v["detail"]["timeout"]
    contrib = sorted({i[0] for i in cc["items"]})
    return "E03|%s|queue=%s|batch=%s|tracer=%s|legacy=%s|contrib=%d|origins=%d" % (
        v["clause"], s["cfg"]["queue"], s["cfg"]["batch"], s["cfg"]["tracer"], s["cfg"]["legacy"], len(contrib),
        len(set(cc["links"]) | ({cc["parent"]} - {"none"})))


def run(c):
    q = c.quick()
    if not c.replay:
        design(c)
    binp = c.go_build("exportctx", pkg="./cmd")
    if c.replay:
        rp = json.load(open(c.replay))["replay"]
        scripts = [dict(rp["script"], id="replay")]
    else:
        with ThreadPoolExecutor(max_workers=2) as ex:
            fd, fg = ex.submit(directed, c), ex.submit(generate, c, c.pick(16, 300))
            dscripts, gscripts = fd.result(), fg.result()
        c.extra["directed_scripts_from_design_counterexamples"] = len(dscripts)
        scripts = variants(dscripts + gscripts, c.rng)
    c.log("%d scripts" % len(scripts))
    traces = execute_all(c, binp, scripts, "main")
    if not traces:
        raise vlib.Inconclusive("no script ran to its end")
    viol, expl, tstates = validate(c, traces, "main")
    byid = {s["id"]: s for s in scripts}
    c.traces_validated += len(traces)
    c.extra["trace_states"] = tstates
    c.extra["scripts_explained_by_model"] = len(expl)
    ncalls = sum(sum(1 for l in ls if '"ev":"exp"' in l) for ls in traces.values())
    c.extra["export_attempts_observed"] = ncalls
    c.extra["merged_batches_observed"] = sum(sum(1 for l in ls if '"ev":"exp"' in l and len(json.loads(l)["c"]["links"]) >= 2) for ls in traces.values())
    c.extra["retry_attempts_observed"] = ncalls - sum(len({json.dumps(json.loads(l)["c"]["items"]) for l in ls if '"ev":"exp"' in l}) for ls in traces.values())
    # a clause verdict must reproduce when the script runs ALONE (one after the other, one driver process) before it is reported
    cand = sorted(viol, key=lambda x: int(x[1:]) if x[1:].isdigit() else 0)[:24]
    v2 = {}
    if cand:
        again = [dict(byid[sid], id="c" + sid) for sid in cand]
        t2 = execute(c, binp, again, "confirm", nproc=1, par=1)
        v2, _, _ = validate(c, {k: ls for k, ls in t2.items() if ended(ls)}, "confirm")
    reported = 0
    for sid in cand:
        s = byid[sid]
        for clause, v in viol[sid].items():
            if clause not in v2.get("c" + sid, {}):
                c.extra["unconfirmed"] = c.extra.get("unconfirmed", 0) + 1
                continue
            if reported >= 8:
                continue
            if c.violation("%s; script: %s" % (describe(v), fmt(s)), signature=signature(v, s),
                           replay_obj=dict(script={k: s[k] for k in ("cfg", "steps", "outs", "model")}, clause=clause,
                                           trace=[json.loads(l) for l in traces[sid]])):
                reported += 1
    c.extra["scripts_with_clause_verdicts"] = len(viol)
    # scripts the clauses accept but the implementation-shaped model cannot explain: model drift
    drift = [sid for sid in traces if sid not in expl and sid not in viol]
    for sid in drift[:5]:
        c.model_drift("trace of script %s is not a behaviour of ExportContext.tla although every clause holds: %s; exports: %s" % (
            sid, fmt(byid[sid]), [(json.loads(l)["c"]["items"], json.loads(l)["c"]["parent"], json.loads(l)["c"]["links"])
                                  for l in traces[sid] if '"ev":"exp"' in l][:6]))
    c.extra["unexplained_scripts"] = len(drift)
    ex = byid[sorted(traces)[len(traces) // 2]]
    c.sample(dict(script=fmt(ex)))
    c.sample(dict(kind="recorded events of one script", events=[json.loads(l) for l in traces[ex["id"]][:14]]))
    c.evaluations = ncalls
    c.assumptions += ["one queue consumer and one flush worker (the helper forces num_consumers = 1 with batching; the driver configures 1 otherwise)",
                      "time.Now / context deadlines carry monotonic clock readings; all deadline clauses are exact inequalities between them",
                      "request identity of a span context = its trace id (every request has its own)"]
    c.finish_args = dict(rule="scripts = behaviours of ExportContext.tla sampled by TLC (-simulate, seeded) per configuration and projected to "
                              "sends (items, span context kind, caller deadline class, cancellation) / cancels / timer waits / outcome per "
                              "export call, plus driver-level variants (SDK tracer, WithBatcher, no hold); distinct by (cfg, steps, outs)",
                         distinct_nontrivial=sum(1 for s in scripts if len([x for x in s["steps"] if x["op"] == "send"]) >= 2))
