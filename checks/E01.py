"""E01 -- scraper controller: lifecycle, one scrape per tick, one merged payload per scrape.        (EXTRA specification)

Record in the form of properties.jsonl (no listed property is concerned; derived from the doc comments of
scraper/scraperhelper/controller.go + config.go, scraper/scrapererror, scraper/*.go and the component.Component contract):

  title       Scraper controller: lifecycle, one scrape per tick, one merged payload per scrape
  statement   A scraper controller (scraperhelper.NewMetricsController / NewLogsController) starts every scraper once on Start
              and returns the Start error of a scraper that fails; on Shutdown it shuts every scraper down exactly once (also
              when a scraper's Shutdown fails), returns only when no scraper / consumer call is in progress, makes no call after
              it returned, and is safe to call again on a controller that is already shut down and on one that was never
              started (component.Component: "must be safe to call without Start() having been called / if the component is in
              a shutdown state already").  After a successful Start the first scrape begins once initial_delay has elapsed
              (immediately for a non-positive delay) and afterwards one scrape begins per tick of the collection-interval
              ticker; scrapes never overlap.  Every scrape calls every scraper, merges what they return into ONE payload and
              hands it to the next consumer once: a scraper returning a PartialScrapeError contributes the data it returned, a
              scraper returning any other error contributes nothing, the others still contribute; a consumer error does not
              stop later scrapes.  With timeout > 0 the context of every scraper call carries a deadline `timeout` after the
              beginning of the scrape / call and is cancelled then; with timeout = 0 it is not cancelled while the scrape runs.
              ControllerConfig.Validate rejects a non-positive collection_interval and a negative timeout, nothing else.
  quantifier  number of scrapers 1..3; signal metrics / logs; outcome of every scraper call (ok / partial / failed / blocked
              until the context is cancelled, 0..2 items returned -- a failed call returns items too); consumer ok / error;
              Start and Shutdown outcome of every scraper; tick sequences through WithTickerChannel (capacity 1, like
              time.Ticker); initial_delay negative / 0 / 60 ms; timeout 0 / 40 ms; Shutdown requested at every point (during
              the delay, inside every scraper call, inside the consumer call, idle, right after a tick); a second Shutdown;
              Shutdown without Start; ticks before Start and after Shutdown
  anchors     scraper/scraperhelper/controller.go (controller.Start, Shutdown, startScraping, scrapeMetrics, scrapeLogs,
              withScrapeContext, WithTickerChannel, AddFactoryWithConfig), scraper/scraperhelper/config.go (Validate),
              scraper/scraperhelper/obs_metrics.go + obs_logs.go (wrappers around every scraper), scraper/scrapererror/
              partialscrapeerror.go, scraper/{scraper,metrics,logs}.go, component/component.go (lifecycle contract)

Left OPEN because the documentation is silent (the monitor accepts every behaviour there; the implementation-shaped model does
what the code does, a divergence would be reported as MODEL-DRIFT, not as a finding):
  * order / parallelism of the scraper calls inside one scrape, order of the items in the merged payload;
  * whether the consumer is called for a scrape that collected nothing (the code calls it with an empty payload);
  * whether scrapers after one whose Start failed are started, which scrapers a Shutdown after a failed Start shuts down,
    whether a scrape may happen after a failed Start, what error Shutdown returns;
  * whether a scrape in progress is completed or aborted by Shutdown (the code completes it, its context is not cancelled);
  * whether a tick that is pending when Shutdown is requested is still served before Shutdown returns;
  * the deadline is per scrape (code) or per scraper call; for timeout = 0 the comment on CollectionInterval ("used as the
    context timeout") and withScrapeContext ("no deadline if timeout is 0") contradict each other: no deadline and a deadline
    one interval ahead are both accepted;
  * self-telemetry of the controller and the obs wrappers (C19's business; known oddity of the logs controller not compared).

Technique (BUILDER-GUIDE): specs/ScraperController
  1. TLC exhaustive design check (ScraperControllerMC): every interleaving of caller, scraping goroutine, scrapers/consumer and
     ticker inside the bounds keeps the history of observable events inside the statement (clauses of ScraperObs.tla).
  2. TLC generates scripts (ScraperControllerGen: exhaustive for small bounds + random simulation for big ones); they are run
     against REAL controllers by harness/scraperctl, which records what happened.
  3. Every observation is judged by TLC: ScraperControllerMonitor (the statement's clauses -> findings) and
     ScraperControllerTrace (is it a behaviour of the implementation-shaped model? -> model drift otherwise).
  4. Config.Validate: the table printed by ScraperConfigGen against the real Validate.
"""
import json, os
import vlib

SPEC = "ScraperController"
TO_US, DLY_US = 40000, 60000          # "small" timeout / initial delay used in real runs
STALL_MS, SETTLE_MS = 10000, 15


def mc_cfg(outcomes, nrange, ticks, cyc, maxlen, second, restrict):
    return """SPECIFICATION Spec
CONSTANTS
  Outcomes <- %s
  AllowPanic = FALSE
  NRange = {%s}
  MaxTicks = %d
  MaxCyc = %d
  MaxLen = %d
  WithSecond = %s
CONSTRAINT Bound
%s
INVARIANT TypeOK
INVARIANT GoroutineLifetime
INVARIANT StatementHolds
INVARIANT ScrapesCompleted
CHECK_DEADLOCK FALSE
""" % (outcomes, ", ".join(map(str, nrange)), ticks, cyc, maxlen, "TRUE" if second else "FALSE",
       "\n".join("ACTION_CONSTRAINT " + r for r in restrict))


def gen_cfg(outcomes, nrange, to, dly, ticks, cyc, second, failures):
    b = lambda s: "{%s}" % ", ".join("TRUE" if x else "FALSE" for x in s)
    return """SPECIFICATION GSpec
CONSTANTS
  Outcomes <- %s
  AllowPanic = FALSE
  NRange = {%s}
  TimeoutRange = %s
  DelayRange = %s
  MaxTicks = %d
  MaxCyc = %d
  WithSecond = %s
  Failures = %s
INVARIANT Emit
CHECK_DEADLOCK FALSE
""" % (outcomes, ", ".join(map(str, nrange)), b(to), b(dly), ticks, cyc, "TRUE" if second else "FALSE",
       "TRUE" if failures else "FALSE")


def to_ops(beh):
    """environment events of a generated history -> driver script (the goroutine's events are what the driver waits for)"""
    n, h = beh["cfg"]["n"], beh["h"]
    ops = []
    for k, ev in enumerate(h):
        e = ev["e"]
        if e == "startcall":
            so = [True] * n
            for x in h[k + 1:]:
                if x["e"] == "startret":
                    break
                if x["e"] == "sstart":
                    so[x["i"] - 1] = x["ok"]
            ops.append(dict(op="start", so=so))
        elif e == "tick":
            ops.append(dict(op="tick", want=ev["res"]))      # pacing hint only
        elif e == "rel":
            ops.append(dict(op="rel", out=ev["out"], pts=ev["pts"]))
        elif e == "consret":
            ops.append(dict(op="cons", ok=ev["ok"]))
        elif e in ("sdcall", "sdcall2"):
            sd = [True] * n
            for x in h[k + 1:]:
                if x["e"] in ("sdret", "sdret2"):
                    break
                if x["e"] == "sshut":
                    sd[x["i"] - 1] = x["ok"]
            ops.append(dict(op="sdcall" if e == "sdcall" else "sd2", sd=sd))
        elif e == "sdret":
            ops.append(dict(op="sdret"))
    return ops


def with_settles(ops, rng):
    """driver-level variant: let the goroutine come to rest after the consumer returned before the next tick / Shutdown is
    injected (both orders are behaviours of the specification; without the pause the injection races with the goroutine)"""
    out = []
    for k, op in enumerate(ops):
        out.append(op)
        if op["op"] == "cons" and k + 1 < len(ops) and ops[k + 1]["op"] in ("tick", "sdcall") and rng.random() < 0.6:
            out.append(dict(op="settle"))
    return out


def make_scripts(c, behs, start_id):
    scripts, seen = [], set()
    for b in behs:
        ops = to_ops(b)
        cf = b["cfg"]
        key = json.dumps([cf, ops], sort_keys=True)
        if key in seen:
            continue
        seen.add(key)
        sid = start_id + len(scripts)
        dly = DLY_US if cf["dly"] else (0 if c.rng.random() < 0.5 else -1000000)
        scripts.append(dict(id=sid, sig="metrics" if c.rng.random() < 0.5 else "logs", n=cf["n"], to_us=TO_US if cf["to"] else 0,
                            dly_us=dly, stall_ms=STALL_MS, settle_ms=SETTLE_MS, ops=with_settles(ops, c.rng)))
    return scripts


def fmt(s):
    def one(o):
        if o["op"] == "rel":
            return "rel(%s,%d)" % (o["out"], o.get("pts", 0))
        if o["op"] == "cons":
            return "cons(%s)" % ("ok" if o.get("ok") else "err")
        if o["op"] in ("start",):
            return "start%s" % ("" if all(o["so"]) else str(["ok" if x else "err" for x in o["so"]]))
        if o["op"] in ("sdcall", "sd2"):
            return "%s%s" % (o["op"], "" if all(o["sd"]) else str(["ok" if x else "err" for x in o["sd"]]))
        return o["op"]
    return "%s n=%d timeout=%dus delay=%dus: %s" % (s["sig"], s["n"], s["to_us"], s["dly_us"], " ".join(one(o) for o in s["ops"]))


def slim(ev):
    return {k: v for k, v in ev.items() if k not in ("t",)}


def judge(c, binp, scripts, label):
    """run the scripts on the real code, have TLC judge the observations; returns (observations by id, verdicts, rejected ids)"""
    sf = os.path.join(c.work, "scripts_%s.ndjson" % label)
    of = os.path.join(c.work, "observed_%s.ndjson" % label)
    vlib.write_ndjson(sf, scripts)
    c.run([binp, "run", sf, of, "400"], timeout=900)
    obs = {o["id"]: o for o in vlib.read_ndjson(of)}
    if len(obs) != len(scripts):
        raise vlib.Inconclusive("driver returned %d observations for %d scripts" % (len(obs), len(scripts)))
    r = c.tlc(SPEC, "ScraperControllerMonitor", workers=1, files={"observed.ndjson": of}, timeout=900, count=False,
              label="monitor_" + label, heap="8g")
    if not r.ok:
        raise vlib.Inconclusive("monitor failed: %s %s" % (r.error, r.out[-2000:]))
    verdicts = r.printed
    t = c.tlc(SPEC, "ScraperControllerTrace", workers=1, files={"observed.ndjson": of}, timeout=900, count=False,
              label="trace_" + label, heap="8g")
    if not t.ok:
        raise vlib.Inconclusive("trace validation failed: %s %s" % (t.error, t.out[-2000:]))
    accepted = {p["acc"] for p in t.printed if "acc" in p}
    rejected = [i for i in obs if i not in accepted]
    return obs, verdicts, rejected


def locate(c, o):
    """first event of a rejected observation that the model cannot explain"""
    f = os.path.join(c.work, "one_%d.ndjson" % o["id"])
    vlib.write_ndjson(f, [o])
    r = c.tlc(SPEC, "ScraperControllerTrace", cfg="ScraperControllerTraceHW.cfg", workers=1, dfs=True,
              files={"observed.ndjson": f}, timeout=300, count=False, label="locate")
    hw = [p["hw"] for p in r.printed if "hw" in p]
    return hw[-1] if hw else None


KNOWN = {
    # a second Shutdown of a controller that is already shut down panics (close of closed channel)
    "E01-second-shutdown-panics": lambda o, at, clauses: clauses == ["ShutdownSafe"] and o["ev"][at - 1]["e"] == "sdret2",
}


def run(c):
    q = c.quick()
    if c.replay:
        os.environ["VERIF_NO_EVIDENCE"] = "1"      # a replay runs one script: it is not the tier's evidence
    # ------------------------------------------------------------------ 1. design
    designs = []
    if not c.replay:
        T = ["TicksWhileRunning"]
        NF = ["NoLifecycleFailure", "TicksWhileRunning"]
        designs = [("life", mc_cfg("OutcomesSmall", [1, 2], 1, 1, 14, True, T)),
                   ("scrape", mc_cfg("OutcomesSmall", [1], 1, 2, 15, False, NF))] if q else \
                  [("life", mc_cfg("OutcomesSmall", [1, 2], 1, 1, 17, True, [])),
                   ("scrape1", mc_cfg("OutcomesMid", [1], 2, 3, 17, False, NF)),
                   ("scrape2", mc_cfg("OutcomesSmall", [2], 1, 2, 21, False, NF)),
                   ("scrape3", mc_cfg("OutcomesSmall", [3], 1, 1, 20, False, ["NoLifecycleFailure"]))]
    from concurrent.futures import ThreadPoolExecutor
    ex = ThreadPoolExecutor(8)      # TLC runs that do not depend on each other go on side by side
    dfuts = []
    if not c.replay:
        sem = __import__("threading").Semaphore(2)

        def design(name, cfg):
            with sem:
                # coverage (every action of the model taken, else INCONCLUSIVE) on the runs that can afford it
                cov = q or name == "life"
                return c.tlc_must_pass(SPEC, "ScraperControllerMC", cfg_text=cfg, timeout=c.pick(120, 1200), label="design_" + name,
                                       heap="6g", workers=max(2, vlib.NCPU // 2 - 2), coverage=cov,
                                       vacuous_ok=() if "WithSecond = TRUE" in cfg else ("ASShut2", "ASdRet2"))
        dfuts = [(name, ex.submit(design, name, cfg)) for name, cfg in designs]
        # the model of the code AS IT IS (AllowPanic: the second Shutdown panics) must violate the statement: the open finding
        # E01-second-shutdown-panics is visible at model level too, and ShutdownSafe is not vacuous
        asis = ex.submit(c.tlc, SPEC, "ScraperControllerMC", workers=2, timeout=120, count=False, label="design_code_as_is",
                         cfg_text=mc_cfg("OutcomesOne", [1], 0, 1, 8, True, T).replace("AllowPanic = FALSE", "AllowPanic = TRUE"))

    # ------------------------------------------------------------------ 2. scripts
    if c.replay:
        rp = json.load(open(c.replay))["replay"]
        if rp.get("kind") == "config":
            scripts = []
        else:
            scripts = [dict(rp["script"], id=1)]
    else:
        plans = [  # (label, generator configuration, number of random behaviours or None = exhaustive)
            ("tiny", gen_cfg("OutcomesSmall", [1], [False], [False], 1, 2, False, False), None),
            ("life", gen_cfg("OutcomesOne", [1, 2], [False], [True, False], 0, 1, True, True), None),
            ("sim", gen_cfg("OutcomesFull", [1, 2, 3], [True, False], [True, False], 3, 3, False, True), c.pick(1500, 30000)),
            ("sim2", gen_cfg("OutcomesMid", [1, 2], [True, False], [True, False], 2, 2, True, True), c.pick(600, 6000)),
        ]
        if not q:
            plans.append(("n1", gen_cfg("OutcomesSmall", [1], [False], [False], 2, 2, False, False), None))

        def gen(label, cfg, sim):
            kw = dict(simulate="num=%d" % sim, depth=120, seed=c.seed) if sim else {}
            return c.tlc(SPEC, "ScraperControllerGen", cfg_text=cfg, workers=1, timeout=900, count=False, label="gen_" + label,
                         heap="6g", **kw)
        gfuts = [(label, ex.submit(gen, label, cfg, sim)) for label, cfg, sim in plans]
    binp = c.go_build("scraperctl", pkg="./cmd")
    if not c.replay:
        behs = []
        for label, f in gfuts:
            r = f.result()
            if r.timed_out or r.error or not r.printed:
                raise vlib.Inconclusive("generator %s failed: %s %s" % (label, r.error, r.out[-1500:]))
            c.log("generator %s: %d histories" % (label, len(r.printed)))
            behs += r.printed
        scripts = make_scripts(c, behs, 1)
        c.log("%d distinct scripts" % len(scripts))
    for name, f in dfuts:       # the real-code runs below are not disturbed by the design runs
        r = f.result()
        c.log("design %s: %d states, %d distinct, depth %d, %.1fs" % (name, r.generated, r.distinct, r.depth, r.wall))
    if not c.replay:
        r = asis.result()
        if r.error != ("invariant", "StatementHolds"):
            raise vlib.Inconclusive("the model with the panic of the second Shutdown was expected to violate StatementHolds: %s" % (r.error,))
        c.extra["model_of_code_as_is"] = "violates StatementHolds (ShutdownSafe) as expected: second Shutdown panics"
    ex.shutdown()

    # ------------------------------------------------------------------ 3. run + judge
    nontrivial = 0
    if scripts:
        byid = {s["id"]: s for s in scripts}
        obs, verdicts, rejected = judge(c, binp, scripts, "main")
        flagged = {}
        for v in verdicts:
            flagged.setdefault(v["id"], []).append(v)
        # timing / liveness verdicts are re-confirmed by running the script once more, alone
        confirm = [i for i, vs in flagged.items() if any(set(v["clauses"]) & {"Progress", "Timeout", "InitialDelay"} for v in vs)]
        if confirm and not c.replay:
            obs2, verdicts2, _ = judge(c, binp, [byid[i] for i in confirm[:20]], "confirm")
            again = {v["id"] for v in verdicts2 if set(v["clauses"]) & {"Progress", "Timeout", "InitialDelay"}}
            for i in confirm:
                if i not in again:
                    kept = [v for v in flagged[i] if not set(v["clauses"]) & {"Progress", "Timeout", "InitialDelay"}]
                    if i in confirm[:20]:
                        c.log("script %d: timing verdict not reproduced when run alone, dropped" % i)
                    if kept:
                        flagged[i] = kept
                    else:
                        del flagged[i]
        reported = 0
        for i in sorted(flagged):
            o, s = obs[i], byid[i]
            for v in flagged[i][:2]:
                at, clauses = v["at"], sorted(v["clauses"])
                sig = next((k for k, f in KNOWN.items() if f(o, at, clauses)), None)
                if reported >= 6 and c.match_finding(sig) is None:
                    continue
                what = "clause %s of the statement does not hold at event %d %s of what the real controller did; script: %s; events: %s" % (
                    "+".join(clauses), at, json.dumps(slim(o["ev"][at - 1])), fmt(s), json.dumps([slim(e) for e in o["ev"][:at]]))
                if c.violation(what[:3000], replay_obj=dict(kind="script", script={k: s[k] for k in s if k != "id"}, clauses=clauses,
                                                            at=at, events=o["ev"]), signature=sig):
                    reported += 1
        drift = [i for i in rejected if i not in flagged]
        for i in drift[:3]:
            at = locate(c, obs[i])
            ev = obs[i]["ev"]
            c.model_drift("observation of script [%s] is not a behaviour of ScraperController.tla (statement intact): first unexplained event %s: %s"
                          % (fmt(byid[i]), at, json.dumps([slim(e) for e in ev[:at or len(ev)]])[:1500]))
        unfollowed = sum(1 for o in obs.values() if any(e["e"] in ("unfollowed", "stall") for e in o["ev"]))
        nontrivial = sum(1 for o in obs.values() if sum(1 for e in o["ev"] if e["e"] == "consume") >= 1)
        c.traces_validated += len(scripts)
        c.evaluations += sum(len(o["ev"]) for o in obs.values())
        c.extra["scripts"] = len(scripts)
        c.extra["observations_rejected_by_model"] = len(rejected)
        c.extra["observations_flagged_by_monitor"] = len(flagged)
        c.extra["scripts_not_followed_to_the_end"] = unfollowed
        c.log("%d scripts run: monitor flagged %d, model rejected %d, %d not followed to the end" % (len(scripts), len(flagged), len(rejected), unfollowed))
        if not c.replay and unfollowed > len(scripts) // 10 and not c.violations:
            raise vlib.Inconclusive("%d of %d scripts could not be followed to their end" % (unfollowed, len(scripts)))
        mid = scripts[len(scripts) // 2]
        c.sample(dict(kind="script", script=fmt(mid)))
        c.sample(dict(kind="observation", events=[slim(e) for e in obs[mid["id"]]["ev"]][:30]))

    # ------------------------------------------------------------------ 4. Config.Validate
    if not c.replay or json.load(open(c.replay))["replay"].get("kind") == "config":
        r = c.tlc(SPEC, "ScraperConfigGen", workers=1, timeout=120, count=False, label="configgen")
        if not r.ok or not r.printed:
            raise vlib.Inconclusive("config table generator failed: %s" % (r.error,))
        rows = []
        for unit in (1, 10 ** 9, 3600 * 10 ** 9):
            rows += [dict(ci=p["ci"] * unit, to=p["to"] * unit, dly=p["dly"] * unit, valid=p["valid"]) for p in r.printed]
        cf, rf = os.path.join(c.work, "configs.ndjson"), os.path.join(c.work, "configs_out.ndjson")
        vlib.write_ndjson(cf, rows)
        c.run([binp, "validate", cf, rf], timeout=120)
        got = vlib.read_ndjson(rf)
        if len(got) != len(rows):
            raise vlib.Inconclusive("validate returned %d rows for %d" % (len(got), len(rows)))
        bad = [(w, g) for w, g in zip(rows, got) if w["valid"] != g["valid"]]
        for w, g in bad[:3]:
            c.violation("ControllerConfig.Validate: collection_interval=%dns timeout=%dns initial_delay=%dns is %s, the statement says %s (%s)"
                        % (w["ci"], w["to"], w["dly"], "accepted" if g["valid"] else "rejected",
                           "valid" if w["valid"] else "invalid", g.get("msg", "")), replay_obj=dict(kind="config", row=w, got=g))
        c.traces_validated += len(rows)
        c.evaluations += len(rows)
        c.sample(dict(kind="config rows", rows=got[:3]))
        c.log("Config.Validate: %d configurations, %d disagree" % (len(rows), len(bad)))

    c.exhaustive = False
    c.assumptions += ["the recorder's mutex orders the recorded events consistently with real time; a tick is offered and its fate "
                      "(kept / dropped by the channel) recorded under that mutex",
                      "ticker channel of capacity 1 injected with WithTickerChannel (same shape as time.Ticker.C); collection_interval 1 h",
                      "a call expected by a script that does not arrive within 10 s counts as not happening (re-run alone before it is reported)"]
    c.finish_args = dict(rule="scripts = environment projections of ScraperControllerGen histories (exhaustive for n=1 small bounds and for "
                              "the lifecycle outcomes, TLC -simulate for n<=3 / 3 ticks / 12 call outcomes), de-duplicated; non-trivial = at "
                              "least one consumer call observed", distinct_nontrivial=nontrivial)
