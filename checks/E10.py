"""E10 -- TLSReload: config/configtls (TLS settings, certificate and client CA reloading).          (EXTRA specification)

Record in the form of properties.jsonl (no listed property is concerned; derived from config/configtls/README.md and the doc
comments of configtls.go; the full text with the clause names is the header of specs/TLSReload/TLSObs.tla):

  title       TLS settings: accepted / rejected combinations, what the resulting tls.Config does, certificate and client CA
              reloading
  statement   Validate fails exactly for ca_file + ca_pem together, a version string outside "1.0".."1.3", min_version >
              max_version [Validate].  LoadTLSConfig gives a client with insecure = true no TLS configuration; otherwise it fails
              for: both alternatives of CA / certificate / key, unreadable or empty CA or client CA, certificate without key or
              key without certificate, certificate and key that cannot be read or are not a pair (eager load), unknown version /
              cipher suite / curve name; everything else is accepted [Load].  Handshakes of the resulting configuration: only at a
              version within [min_version (default 1.2), max_version (default 1.3)] shared with the peer, the highest such
              [VersionRange]; below TLS 1.3 only with a suite of cipher_suites when given [CipherSuites]; a client verifies the
              server against ca_file / ca_pem (+ system pool with include_system_ca_certs_pool, system pool alone without CA) and
              server_name_override, unless insecure_skip_verify [ServerTrust]; a server with client_ca_file requires a client
              certificate issued by a CA of that file (+ system pool when included), without it none [ClientAuth]; the endpoint
              presents the configured certificate; with reload_interval R > 0 and files, a handshake less than R after the last
              (re)load presents the loaded certificate whatever is on disk, one more than R after it presents what is on disk
              now (racing handshakes included); R = 0 or in-memory pair: never reloaded [ServedCertificate]; with
              client_ca_file_reload the content of the rewritten / atomically replaced file decides once the watcher has seen
              it, never a CA that was in no content, without it the loaded CAs stay; all other settings keep applying
              [ClientCAReload]; a handshake no clause forbids succeeds [Availability].
  quantifier  client and server configurations over all 17 settings (groups of full products: trust 384, identity 320, versions
              72, suites 120, client auth 60, curves 10; thorough: + 1.9k crossed), peers over versions x suites x identity
              presented; histories of {rewrite certificate files (valid / other identity / garbage / not a pair / removed), let R
              elapse, client CA file rewrite / atomic replace / remove / create / chmod (valid, other CA, garbage), settle,
              1..3 simultaneous handshakes, handshakes racing with a client CA file operation} up to 12 operations
  anchors     config/configtls/configtls.go, config/configtls/clientcasfilereloader.go, config/configtls/README.md

OPEN points O1..O9 (documentation silent / inconsistent; every behaviour admitted) and what is NOT covered: see TLSObs.tla.

Open findings (extras/known_findings.json, repairs in extras/fixes/, both repairs verified with VERIF_REPO=<patched tree>
VERIF_E10_MODEL=fixed ./check E10: no EXTRA-KNOWN line, no drift):
  E10-reload-drops-cipher-suites          client_ca_file_reload: true makes the server ignore cipher_suites / curve_preferences
  E10-client-ca-watch-lost-after-removal  after the client CA file was removed once, a file created again and all later changes
                                          are never reloaded

Technique: TLSObs.tla = the statement as a fold over histories (Judge); TLSReload.tla = implementation-shaped model (certReloader
check / reload steps, watcher event queue and goroutine, getClientConfig snapshot), exhaustively checked by TLC against the
statement (JsOK; variants pinnedsuites / pinnedwatch = the two open findings, eager / stale = controls must be refuted); TLC generates the static cases (TLSStaticGen) and random
behaviours of the model (TLSReloadMC, -simulate); harness/tlsreload realises them on REAL configtls endpoints with real TLS
handshakes over loopback against probe peers; TLSReloadMonitor.tla (TLC) judges what was recorded.
"""
import json, os, sys, threading
from concurrent.futures import ThreadPoolExecutor
import vlib

SPEC = "TLSReload"
R_MS, MARGIN_MS, SETTLE_MS = 500, 100, 300
SIG_CCAR_SUITES = "E10-cipher-suites-not-applied-with-client-ca-file-reload"
SIG_WATCH_LOST = "E10-client-ca-file-changes-unnoticed-after-removal"
MAX_WATCHERS = 40          # servers with client_ca_file_reload per driver process (their inotify instance is never released)


def mc_cfg(shape, depth, variant, emit=False):
    return """SPECIFICATION %s
CONSTANTS
  Shape = "%s"
  Depth = "%s"
  Variant = "%s"
  Configs <- MCConfigs
  Probes <- MCProbes
  BatchSizes <- MCBatch
  Threads <- MCThreads
  PairPool <- MCPairs
  CAWrites <- MCCAWrites
  Races <- MCRaces
  MaxOps <- MCMaxOps
%s
CHECK_DEADLOCK FALSE
""" % ("GenSpec" if emit else "Spec", shape, depth, variant, "INVARIANT Emit" if emit else "VIEW view\nINVARIANT JsOK\nINVARIANT TypeOK")


def refuted_clause(res):
    """clause named by the statement state in the last state of TLC's counterexample"""
    import re
    m = re.findall(r'bad \|-> "(\w*)"', res.out)
    return m[-1] if m else None


EV_DEFAULT = dict(pmin="", pmax="", psuites=[], pid="none", pair="", how="", cac="", res="", r=[])


def script_of_case(i, case):
    """static case [c, probes] -> script"""
    c = dict(case["c"])
    role = c.pop("role")
    # "missing" is a state of a FILE: in-memory alternatives always have a text (what the driver does too)
    if c["pair"] == "missing" and c["cert"] not in ("file", "both") and c["key"] not in ("file", "both"):
        c["pair"] = "L1a"
    if c["cac"] == "missing" and c["ca"] == "pem":
        c["cac"] = "CA1"
    ops = [{"op": "validate"}, {"op": "load"}]
    for p in case["probes"]:
        ops.append(dict(op="hs", n=1, pmin=p["pmin"], pmax=p["pmax"], psuites=list(p["psuites"]), pid=p["pid"]))
    return dict(id="st%d" % i, role=role, cfg=c, ops=ops, kind="static")


def script_of_behaviour(i, shape, beh):
    """behaviour of the model [c, evs] -> script (the model's observations are kept as `model` for drift only)"""
    c = dict(beh["c"])
    role = c.pop("role")
    ops, model = [], []
    prev = None
    for e in beh["evs"]:
        o = dict(op=e["op"])
        if e["op"] in ("hs", "race"):
            o.update(n=len(e["r"]), pmin=e["pmin"], pmax=e["pmax"], psuites=list(e["psuites"]), pid=e["pid"])
            if e["op"] == "race":
                o.update(how=e["how"], cac=e["cac"])
            elif prev == "settle" and len(e["r"]) == 1:
                o["want"] = bool(e["r"][0]["ok"])          # pacing hint only (the watcher may need longer than the settle time)
        elif e["op"] == "wcert":
            o["pair"] = e["pair"]
        elif e["op"] == "wca":
            o.update(how=e["how"], cac=e["cac"])
        ops.append(o)
        model.append([dict(ok=r["ok"], seen=r["seen"]) for r in e["r"]])
        prev = e["op"]
    return dict(id="%s%d" % (shape, i), role=role, cfg=c, ops=ops, kind=shape, model=model)


def watcher_cost(s):
    c = s["cfg"]
    return 1 if (s["role"] == "server" and c["ccar"] and c["cca"] in ("CA1", "CA2", "SYS")) else 0


def chunks_of(scripts):
    """chunks with at most MAX_WATCHERS leaking watchers each"""
    out, cur, w = [], [], 0
    for s in scripts:
        k = watcher_cost(s)
        if cur and (w + k > MAX_WATCHERS or len(cur) >= 400):
            out.append(cur)
            cur, w = [], 0
        cur.append(s)
        w += k
    if cur:
        out.append(cur)
    return out


def join(s, o):
    evs = []
    for op, ob in zip(s["ops"], o["obs"]):
        if ob["op"] == "skip":
            continue
        e = dict(EV_DEFAULT, op=op["op"])
        for k in ("pmin", "pmax", "psuites", "pid", "pair", "how", "cac"):
            if k in op:
                e[k] = op[k]
        if op["op"] == "validate":
            e["res"] = "err" if ob.get("err") else "ok"
        elif op["op"] == "load":
            e["res"] = ob["res"]
        elif op["op"] in ("hs", "race"):
            e["r"] = [dict(ok=bool(r["ok"]), ver=r.get("ver", ""), suite=r.get("suite", ""), seen=r.get("seen", "")) for r in ob["r"]]
        evs.append(e)
    c = dict(s["cfg"], role=s["role"])
    return dict(id=s["id"], c=c, evs=evs)


def run_scripts(c, binp, scripts, label, par):
    """driver (several processes, see MAX_WATCHERS) -> {id: observation line}"""
    obs = {}
    lock = threading.Lock()

    def one(k, chunk):
        sp = os.path.join(c.work, "%s_scripts_%d.ndjson" % (label, k))
        op = os.path.join(c.work, "%s_obs_%d.ndjson" % (label, k))
        vlib.write_ndjson(sp, [{k2: v for k2, v in s.items() if k2 not in ("model", "kind")} for s in chunk])
        c.run([binp, "run", sp, op, "-par", str(par), "-r_ms", str(R_MS), "-margin_ms", str(MARGIN_MS), "-settle_ms",
               str(SETTLE_MS)], timeout=900)
        with lock:
            for o in vlib.read_ndjson(op):
                obs[o["id"]] = o
    with ThreadPoolExecutor(2) as ex:
        for f in [ex.submit(one, k, ch) for k, ch in enumerate(chunks_of(scripts))]:
            f.result()
    return obs


def judge(c, lines, label):
    """TLSReloadMonitor on the joined lines -> {id: verdict}"""
    path = os.path.join(c.work, "observed_%s.ndjson" % label)
    vlib.write_ndjson(path, lines)
    res = c.tlc(SPEC, "TLSReloadMonitor", workers=1, timeout=900, count=False, label="monitor_" + label, tag="VERDICT",
                files={"observed.ndjson": path})
    if not res.ok:
        raise vlib.Inconclusive("monitor failed (%s): %s" % (label, (res.error, res.out[-1500:])))
    v = {x["id"]: x for x in res.printed}
    if len(v) != len(lines):
        raise vlib.Inconclusive("monitor judged %d of %d lines (%s)" % (len(v), len(lines), label))
    return v


def signature_of(s, verdict):
    cfg = s["cfg"]
    if verdict["clause"] == "CipherSuites" and s["role"] == "server" and cfg["ccar"] and cfg["cca"] in ("CA1", "CA2", "SYS") \
            and cfg["suites"]:
        return SIG_CCAR_SUITES
    # the client CA file was removed earlier in the script (wca or race), later content is not honoured
    if verdict["clause"] == "ClientCAReload" and any(op.get("how") == "remove" for op in s["ops"][:max(verdict["at"] - 1, 0)]):
        return SIG_WATCH_LOST
    return None


def run(c):
    q = c.quick()
    if c.replay:
        os.environ["VERIF_NO_EVIDENCE"] = "1"
    ex = ThreadPoolExecutor(6)
    sem = threading.Semaphore(2)
    # ------------------------------------------------------------------ 1. design: the model satisfies the statement
    dfuts, nfuts = [], []
    if not c.replay:
        depth = "mc" if q else "deep"

        def design(shape):
            with sem:
                return c.tlc_must_pass(SPEC, "TLSReloadMC", cfg_text=mc_cfg(shape, depth, "fixed"), workers=4, timeout=c.pick(240, 1500),
                                       label="design_%s" % shape, heap="6g")

        def cover(shape):          # small separate runs: -coverage is slow on big ones
            with sem:
                return c.tlc(SPEC, "TLSReloadMC", cfg_text=mc_cfg(shape, "mc", "fixed").replace("MaxOps <- MCMaxOps", "MaxOps = 4"),
                             workers=2, timeout=240, label="cover_%s" % shape, coverage=True, count=False)

        def negative(shape, variant):
            with sem:
                return c.tlc(SPEC, "TLSReloadMC", cfg_text=mc_cfg(shape, "mc", variant), workers=2, timeout=300, count=False,
                             label="negative_%s" % variant)
        dfuts = [ex.submit(design, "cert"), ex.submit(design, "ca")]
        cfuts = [ex.submit(cover, "ca"), ex.submit(cover, "cert")]
        nfuts = [("pinnedsuites", "CipherSuites", ex.submit(negative, "ca", "pinnedsuites")),
                 ("pinnedwatch", "ClientCAReload", ex.submit(negative, "ca", "pinnedwatch")),
                 ("eager", "ServedCertificate", ex.submit(negative, "cert", "eager")),
                 ("stale", "ClientCAReload", ex.submit(negative, "ca", "stale"))]

    # ------------------------------------------------------------------ 2. scripts
    if c.replay:
        scripts = [json.load(open(c.replay))["replay"]["script"]] * 3
        scripts = [dict(s, id="rp%d" % i) for i, s in enumerate(scripts)]
    else:
        def gen_static():
            return c.tlc(SPEC, "TLSStaticGen", cfg_text="SPECIFICATION Spec\nCONSTANT Wide = %s\nCHECK_DEADLOCK FALSE\n" %
                         ("FALSE" if q else "TRUE"), workers=1, timeout=300, count=False, label="gen_static")

        def gen_beh(shape, num):
            return c.tlc(SPEC, "TLSReloadMC", cfg_text=mc_cfg(shape, "gen", os.environ.get("VERIF_E10_MODEL", "pinned"), emit=True), workers=1, timeout=600,
                         count=False, label="gen_%s" % shape, simulate="num=%d" % num, depth=150, seed=c.seed, heap="3g")
        gs = ex.submit(gen_static)
        gb = [(sh, ex.submit(gen_beh, sh, n)) for sh, n in (("cert", c.pick(80, 900)), ("ca", c.pick(90, 900)))]
    binp = c.go_build("tlsreload", pkg="./cmd")
    if not c.replay:
        r = gs.result()
        if not r.ok or len(r.printed) < 900:
            raise vlib.Inconclusive("static case generator failed: %s %s" % (r.error, r.out[-800:]))
        scripts = [script_of_case(i, case) for i, case in enumerate(sorted(r.printed, key=lambda x: json.dumps(x, sort_keys=True)))]
        for sh, f in gb:
            r = f.result()
            if r.timed_out or r.error:
                raise vlib.Inconclusive("behaviour generator %s failed: %s %s" % (sh, r.error, r.out[-800:]))
            seen, n0 = set(), len(scripts)
            for b in r.printed:
                k = json.dumps(b, sort_keys=True)
                if k in seen or not any(e["op"] in ("hs", "race") for e in b["evs"]):
                    continue
                seen.add(k)
                scripts.append(script_of_behaviour(len(scripts), sh, b))
            c.log("generator %s: %d behaviours, %d distinct scripts" % (sh, len(r.printed), len(scripts) - n0))
            if len(scripts) - n0 < 50:
                raise vlib.Inconclusive("behaviour generator %s produced only %d scripts" % (sh, len(scripts) - n0))
    byid = {s["id"]: s for s in scripts}

    # ------------------------------------------------------------------ 3. the real code
    obs = run_scripts(c, binp, scripts, "main", par=24)
    lines, slow, failed = [], 0, 0
    for s in scripts:
        o = obs.get(s["id"])
        if o is None or o.get("fail"):
            failed += 1
            continue
        if o["timing"] != "ok":
            slow += 1
            continue
        lines.append(join(s, o))
    c.log("scripts %d: judged %d, slow (discarded) %d, not run %d" % (len(scripts), len(lines), slow, failed))
    if failed or slow > 0.25 * len(scripts) or not lines:
        raise vlib.Inconclusive("driver could not follow the scripts: %d failed, %d of %d too slow" % (failed, slow, len(scripts)))
    verdicts = judge(c, lines, "main")
    bad = [v for v in verdicts.values() if not v["ok"]]
    if any(v["clause"] in ("MalformedLine", "script") for v in bad):
        raise vlib.Inconclusive("monitor could not read a line: %s" % bad[:3])

    # a contradicted clause is reported only when it is reproduced: the script is run again twice (racing scripts need not
    # take the same course: one reproduction is enough)
    confirmed = []
    if bad and not c.replay:
        # contradictions that carry the signature of a known finding: three per signature are enough
        nk, keep = {}, []
        for v in bad:
            sig = signature_of(byid[v["id"]], v)
            nk[sig] = nk.get(sig, 0) + 1
            if sig is None or nk[sig] <= 3:
                keep.append(v)
        c.extra["contradictions_by_signature"] = {str(k): n for k, n in nk.items()}
        bad_all, bad = bad, keep
        again = []
        for v in bad:
            for k in range(2):
                again.append(dict(byid[v["id"]], id="%s#%d" % (v["id"], k)))
        obs2 = run_scripts(c, binp, again, "again", par=8)
        lines2 = [join(s, obs2[s["id"]]) for s in again if s["id"] in obs2 and obs2[s["id"]]["timing"] == "ok" and not obs2[s["id"]].get("fail")]
        v2 = judge(c, lines2, "again") if lines2 else {}
        for v in bad:
            reps = [v2.get("%s#%d" % (v["id"], k)) for k in range(2)]
            if any(x is not None and not x["ok"] and x["clause"] == v["clause"] for x in reps):
                confirmed.append(v)
            else:
                c.log("not reproduced (no finding): %s %s -> %s" % (v["id"], v["clause"], reps))
    elif bad:
        confirmed = bad

    linesby = {l["id"]: l for l in lines}
    nsig = {}
    for v in confirmed:
        s = byid[v["id"]]
        sig = signature_of(s, v)
        line = linesby[v["id"]]
        ev = line["evs"][v["at"] - 1] if v["at"] else None
        what = "clause %s of the statement contradicted at event %d of script %s (%s %s): event %s" % (
            v["clause"], v["at"], v["id"], s["role"], json.dumps(s["cfg"], sort_keys=True), json.dumps(ev, sort_keys=True))
        nsig[sig] = nsig.get(sig, 0) + 1
        if sig is None and nsig[sig] > 8:
            continue
        c.violation(what, replay_obj=dict(kind="script", script={k: x for k, x in s.items() if k != "model"}, verdict=v,
                                          observed=line), signature=sig)

    # ------------------------------------------------------------------ 4. drift of the implementation-shaped model
    drift = 0
    for s in scripts:
        if "model" not in s or s["id"] not in linesby or not verdicts[s["id"]]["ok"]:
            continue
        o = obs[s["id"]]["obs"]
        pend = False
        for op, ob, mo in zip(s["ops"], o, s["model"]):
            if op["op"] == "race" or op.get("how") == "remove":
                break                                   # from here on the course depends on the interleaving
            if op["op"] == "wca":
                if pend:
                    break                               # two operations the watcher may see in either order of its own steps
                pend = True
            elif op["op"] == "settle":
                pend = False
            elif op["op"] == "hs" and not pend and len(mo) == len(ob.get("r", [])):
                if any(m["ok"] != r["ok"] or (m["ok"] and m["seen"] != r["seen"]) for m, r in zip(mo, ob["r"])):
                    drift += 1
                    if drift <= 3:
                        c.model_drift("script %s: handshake %s: model %s, code %s" % (s["id"], json.dumps(op), mo, ob["r"]))
                    break

    # ------------------------------------------------------------------ 5. design results, evidence
    if not c.replay:
        for f in dfuts:
            f.result()
        cov = {}
        for f in cfuts:
            r = f.result()
            if not r.ok:
                raise vlib.Inconclusive("coverage run failed: %s" % (r.error,))
            for a, n in r.coverage.items():
                cov[a] = cov.get(a, 0) + n
        never = [a for a in ("Validate", "Load", "StartBatch", "HsBegin", "GCCheck", "GCReload", "HsFin", "EndBatch", "RaceWrite",
                             "WCert", "Wait", "WCA", "Handle", "Settle") if not cov.get(a)]
        if never:
            raise vlib.Inconclusive("vacuous: actions of the model never taken: %s (%s)" % (never, cov))
        for variant, clause, f in nfuts:
            r = f.result()
            got = refuted_clause(r)
            if r.timed_out or r.error is None or r.error[0] != "invariant" or got != clause:
                raise vlib.Inconclusive("negative variant %s: expected TLC to refute clause %s, got %s / %s" % (variant, clause, r.error, got))
        c.extra["negative_variants_refuted"] = {v: cl for v, cl, _ in nfuts}
    nhs = sum(len(e["r"]) for l in lines for e in l["evs"])
    c.traces_validated += len(lines)
    c.evaluations = nhs
    kinds = {}
    for l in lines:
        k = byid[l["id"]].get("kind", "replay")
        kinds[k] = kinds.get(k, 0) + 1
    c.extra.update(scripts_by_kind=kinds, handshakes=nhs, slow_discarded=slow, reload_interval_ms=R_MS,
                   clause_verdicts={cl: sum(1 for v in verdicts.values() if v["clause"] == cl)
                                    for cl in set(v["clause"] for v in verdicts.values() if not v["ok"])},
                   model_drift_scripts=drift)
    for l in lines[:1] + [l for l in lines if l["id"].startswith("cert")][:1] + [l for l in lines if l["id"].startswith("ca")][:1]:
        c.sample(dict(id=l["id"], c=l["c"], evs=l["evs"][:6]))
    c.assumptions += [
        "certificates are opaque identities: 3 CAs (one of them is the system pool through SSL_CERT_FILE), 4 leaves, ECDSA P-256",
        "abstract time: reload_interval R = %d ms, a wait sleeps R + %d ms, everything between two waits fits into R - %d ms "
        "(scripts that do not are discarded: %d)" % (R_MS, MARGIN_MS, MARGIN_MS, slow),
        "the client CA watcher has seen a file operation %d ms after it (a handshake that disagrees with the model is repeated "
        "for up to 5 s before it is recorded)" % SETTLE_MS,
        "crypto/tls default cipher suites contain A (ECDHE-ECDSA-AES128-GCM), B (AES256-GCM), C (AES128-CBC-SHA)",
        "a contradicted clause is reported only if the same script contradicts the same clause again in one of two more runs",
    ]
    c.exhaustive = False      # design: all behaviours within the bounds; static cases: all of the groups; histories: a sample
    c.finish_args = dict(rule="Judge (fold of StepEv, TLSObs.tla) evaluated by TLC on every recorded history",
                         distinct_nontrivial=len(lines))


if __name__ == "__main__":
    vlib.main("E10", run)
