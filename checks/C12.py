"""C12 -- config resolution: right-biased merge; exact, escapable, terminating expansion.
Spec: specs/ConfResolve.  Binding: harness/confmap (public API: confmap.NewResolver + real envprovider/yamlprovider).

  1. ConfResolve.tla is the specification written from the statement: a nondeterministic rewriting system over one
     scalar (Rewrite any innermost unescaped reference / Finish with un-escaping / errors).  TLC explores it from
     EVERY root (all sequences of <= MaxLen chunks over an alphabet x default scheme on/off x provider table) with
     the clauses of the statement as invariants, and prints every final state: the final states of a root are the
     admissible results of that root (a set, because the statement is silent in three places, see the module).
  2. ConfResolveImpl.tla is the implementation-shaped model (one action per round of expandValueRecursively).  TLC
     checks that each of its steps is a step of the specification -- for the repaired design (Fixed=TRUE) without
     exception, for the pinned design (strings.ReplaceAll) except from texts that satisfy KnownPredicate -- and
     prints the exact result the model predicts per root (used for model-drift detection only).
  3. ConfMerge.tla: all lists of <= NSrc small source trees with the specified merge, clauses as invariants.
  4. The Go driver resolves every root / source list through the real resolver and compares: the real result
     (ToStringMap, Unmarshal into string / any / int fields, error or not) must be an admissible result.
Every expansion case is resolved twice by the driver: as the value of a top-level key (all observations), and at a
second position chosen from the case id (item of a list next to items that settle sooner / later, below nested maps and
lists): value / error must again be an admissible outcome of the specification ("EVERY reference is replaced").
That second resolution runs on a Resolver that has already resolved the same document under OTHER provider values (a
configuration reload; ConfReload.tla: a resolution depends on what the providers return at the time of that resolution).
"""
import json, os, threading
from concurrent.futures import ThreadPoolExecutor
import vlib

SIG_REPLACEALL = "escaped occurrence of a reference that also occurs unescaped in the same scalar is expanded"
SIG_LEAK = "ToStringMap exposes confmap.expandedValue nested in a container returned by a whole-value reference"
SIG_ANY = "expanded value decoded into an interface-typed field (nil value panics; nested expanded values are not unwrapped)"

ALPHA = {
    # escaping / parity / adjacency (the DESIGN alphabet): lit, $, $$, references, brace text, ${NAME}, stray }
    "esc":  ["x", "D", "DD", "rA", "rB", "bA", "nA", "c"],
    # raw pieces: nested and computed names, unbalanced braces, $ inside names, scheme text
    "nest": ["o", "on", "c", "A", "X", "D", "rX", "env"],
    # provider values: typed scalars, empty, values with references / escapes, cycles, map, list
    "val":  ["rN", "rE", "rS", "rR", "rP", "rQ", "rM", "rL", "rC", "rG", "x", "DD", "bA"],
    # typed vs text, default scheme
    "typ":  ["rN", "nN", "rE", "nE", "rO", "rT", "x", "D", "DD"],
    # invalid names, unset names, plain braces
    "inv":  ["o", "c", "dash", "x", "A", "lb", "DD", "rZ", "bnA"],
}
# (alphabet, MaxLen, tables)
PLANS = {
    "quick": [("esc", 4, ["T1"]), ("nest", 4, ["T1"]), ("val", 3, ["T1"]), ("typ", 3, ["T1"]), ("inv", 3, ["T1"]),
              ("esc", 3, ["T2"]), ("val", 2, ["T2"]), ("typ", 2, ["T2"])],
    "thorough": [("esc", 5, ["T1"]), ("nest", 5, ["T1"]), ("val", 4, ["T1"]), ("typ", 4, ["T1"]), ("inv", 4, ["T1"]),
                 ("esc", 4, ["T2"]), ("nest", 4, ["T2"]), ("val", 3, ["T2"]), ("typ", 3, ["T2"])],
}
CLAUSES = ["TypeOK", "UnchangedClause", "EscapeClause", "ProtectClause", "TypedClause", "CycleClause", "DollarClause"]
MERGE_CLAUSES = ["NeutralClause", "ReplaceClause", "SurviveClause", "KeyByKeyClause", "NoInventClause", "IdemClause"]
# (Keys, LeafNames, Depth, NSrc, Small)
MERGE_PLANS = {
    "quick": [(["a", "b"], ["i1", "nil"], 2, 2, False), (["a", "b"], ["i1"], 2, 3, True),
              (["a", "b"], ["i1", "sx", "nil", "l1", "l2", "le"], 1, 2, False)],
    "thorough": [(["a", "b"], ["i1", "nil", "l2"], 2, 2, False), (["a", "b"], ["i1", "nil", "lm"], 2, 3, True),
                 (["a"], ["i1", "nil", "le"], 3, 4, False),
                 (["a", "b"], ["i1", "sx", "nil", "l1", "l2", "le", "lm"], 1, 2, False),
                 (["a", "b", "c"], ["i1", "nil", "l1", "l2"], 1, 2, False)],
}
LEAF = {"i1": 1, "i2": 2, "sx": "x", "nil": None, "l1": [1], "l2": [2, 3], "le": [], "lm": [{"a": 1}, None]}


def consts(alpha, n, tabs, fixed=None):
    """fixed: None (specification) | list of booleans (FixedModes of the implementation-shaped model)"""
    s = "CONSTANTS\n  Chunks = {%s}\n  MaxLen = %d\n  Defs = {TRUE, FALSE}\n  Tabs = {%s}\n" % (
        ", ".join('"%s"' % a for a in ALPHA[alpha]), n, ", ".join('"%s"' % t for t in tabs))
    if fixed is not None:
        s += "  FixedModes = {%s}\n" % ", ".join("TRUE" if f else "FALSE" for f in fixed)
    return s


def spec_cfg(alpha, n, tabs):
    return "SPECIFICATION GenSpec\n" + consts(alpha, n, tabs) + "".join("INVARIANT %s\n" % i for i in CLAUSES) + \
           "INVARIANT Emit\nCHECK_DEADLOCK FALSE\n"


def impl_cfg(alpha, n, tabs, fixed=(True, False), emit=True, strict=False):
    return "SPECIFICATION ImplSpec\n" + consts(alpha, n, tabs, list(fixed)) + "INVARIANT TypeOK\n" + \
           ("INVARIANT EmitImpl\n" if emit else "") + \
           "PROPERTY %s\nCHECK_DEADLOCK FALSE\n" % ("RefinesStrict" if strict else "Refines")


def merge_cfg(keys, leaves, depth, nsrc, small):
    return "SPECIFICATION Spec\nCONSTANTS\n  Keys = {%s}\n  LeafNames = {%s}\n  Depth = %d\n  NSrc = %d\n  Small = %s\n" % (
        ", ".join('"%s"' % k for k in keys), ", ".join('"%s"' % k for k in leaves), depth, nsrc,
        "TRUE" if small else "FALSE") + "".join("INVARIANT %s\n" % i for i in MERGE_CLAUSES) + \
        "INVARIANT Emit\nCHECK_DEADLOCK FALSE\n"


def outcome(w, o):
    """(wrap, cur) of a final state -> outcome object understood by the driver."""
    t = o["t"]
    if t == "err":
        return {"t": "err"}
    res = {"t": t, "s": "".join(o["s"])}
    for wr in reversed(w or []):
        res = {"t": "map", "k": wr["k"], "v": res} if wr["w"] == "map" else {"t": "list", "e": [res]}
    return res


def tree(v):
    """tagged TLA+ value -> JSON value."""
    if isinstance(v, dict) and set(v.keys()) == {"t", "v", "m"} and v["t"] in ("leaf", "map"):
        if v["t"] == "leaf":
            return LEAF[v["v"]]
        return {k: tree(x) for k, x in (v["m"].items() if isinstance(v["m"], dict) else [])}
    if isinstance(v, dict):        # a source / the accumulator: function key -> tagged value
        return {k: tree(x) for k, x in v.items()}
    if v == []:                    # the empty function prints as an empty sequence
        return {}
    raise vlib.Inconclusive("unexpected tree value from TLC: %r" % (v,))


def run(c):
    q = c.quick()
    lock = threading.Lock()
    binp = c.go_build("confmap", pkg="./cmd")

    if c.replay:
        rp = json.load(open(c.replay))["replay"]
        lines = [json.dumps(l) for l in rp["lines"]]
        run_driver(c, binp, lines, "replay", {})
        c.tlc_must_pass("ConfResolve", "ConfResolveImpl", cfg_text=impl_cfg("esc", 3, ["T1"], emit=False),
                        label="design-replay", timeout=300, workers=4)
        c.finish_args = dict(rule="replay of one recorded case")
        return

    # ---------------------------------------------------------------- 0: histories of resolutions on one Resolver (reload)
    def reload_cfg(memo, steps):
        return ("SPECIFICATION Spec\nCONSTANTS\n  Names = {\"A\", \"B\", \"C\"}\n  Lits = {\"x\", \"y\"}\n  MaxSteps = %d\n  Memo = %s\n"
                "INVARIANTS HistoryFree TypeOK\nCHECK_DEADLOCK FALSE\n" % (steps, "TRUE" if memo else "FALSE"))
    c.tlc_must_pass("ConfResolve", "ConfReload", cfg_text=reload_cfg(False, 4 if q else 5), label="reload-histories", timeout=900,
                    workers=4)
    r = c.tlc("ConfResolve", "ConfReload", cfg_text=reload_cfg(True, 4), workers=2, timeout=600, count=False, label="reload-memo-negative")
    c.extra["memoising_resolver_refuted_by_tlc"] = bool(r.error and r.error[0] == "invariant")
    if not (r.error and r.error[0] == "invariant"):
        raise vlib.Inconclusive("TLC no longer refutes the memoising resolver: HistoryFree may be vacuous")

    # ---------------------------------------------------------------- 1+2: TLC, expansion
    plans = PLANS["quick" if q else "thorough"]
    jobs = []
    for (alpha, n, tabs) in plans:
        name = "%s%d%s" % (alpha, n, "".join(tabs))
        jobs.append((name, "spec", "ConfResolveGen", spec_cfg(alpha, n, tabs)))
        jobs.append((name, "impl", "ConfResolveImplGen", impl_cfg(alpha, n, tabs)))
    results = {}

    def tlc_job(job):
        name, kind, module, cfg = job
        r = c.tlc("ConfResolve", module, cfg_text=cfg, workers=(3 if q else 4), timeout=(240 if q else 1500),
                  label="%s_%s" % (name, kind), count=False, heap="4g")
        with lock:
            c.states += r.distinct
            c.transitions += r.generated
        return job, r

    with ThreadPoolExecutor(max_workers=(4 if q else 3)) as ex:
        for job, r in ex.map(tlc_job, jobs):
            name, kind, module, cfg = job
            if r.timed_out:
                raise vlib.Inconclusive("TLC timed out on %s/%s" % (name, kind))
            if not r.ok:
                # a failure of the model alone is never a violation (DESIGN 2.4)
                raise vlib.Inconclusive("TLC design check failed on %s/%s: %s\n%s" % (name, kind, r.error, r.trace_text[:3000]
                                                                                       or r.out[-2000:]))
            if r.out.count('<<"BEH", "') != len(r.printed):
                raise vlib.Inconclusive("TLC output of %s/%s garbled: %d BEH lines, %d parsed" % (
                    name, kind, r.out.count('<<"BEH", "'), len(r.printed)))
            results[(name, kind)] = r
            c.log("TLC %s/%s: %d states, %d final states printed, %.1fs" % (name, kind, r.distinct, len(r.printed), r.wall))

    # ---------------------------------------------------------------- cases
    tables = {}
    adm, pred, lib = {}, {}, {}
    for (name, kind), r in results.items():
        if kind == "spec":
            for t in vlib.extract_printed(r.out, "TAB"):
                for tb, ent in t.items():
                    tables[tb] = {"kind": "table", "name": tb, "env": {n: "".join(e["text"]) for n, e in ent.items()},
                                  "kinds": {n: e["kind"] for n, e in ent.items()}}
        for b in r.printed:
            key = (b["tb"], bool(b["d"]), "".join(b["r"]))
            o = json.dumps(outcome(b["w"], b["o"]), sort_keys=True)
            if kind == "spec":
                adm.setdefault(key, set()).add(o)
                lib.setdefault(key, set()).update(b.get("lib") or [])
            else:
                p = pred.setdefault(key, {"kd": False})
                p["fixed" if b["fx"] else "pinned"] = o
                p["kd"] = p["kd"] or bool(b.get("kd"))
    if not tables or not adm:
        raise vlib.Inconclusive("generator printed no tables / no final states")
    missing = [k for k in adm if "fixed" not in pred.get(k, {}) or "pinned" not in pred.get(k, {})]
    if missing or len(pred) != len(adm):
        raise vlib.Inconclusive("roots of the specification and of the implementation model differ (%d / %d), e.g. %s"
                                % (len(adm), len(pred), missing[:2]))
    # the repaired design's prediction must itself be admissible (design-level sanity, belongs to step 2)
    bad = [k for k in adm if pred[k]["fixed"] not in adm[k]]
    if bad:
        raise vlib.Inconclusive("model inconsistency: Fixed model result not admissible for %s" % (bad[:3],))
    # confluence of the specification: the result depends on the order of rewriting only where the statement is silent
    bad = [k for k in adm if len(adm[k]) > 1 and not lib[k]]
    if bad:
        raise vlib.Inconclusive("specification not confluent outside U1-U3 for %s: %s" % (bad[:3], [sorted(adm[k]) for k in bad[:3]]))
    c.extra["liberal_rules_met"] = {u: sum(1 for k in lib if u in lib[k]) for u in ("U1", "U2", "U3")}
    lines = [json.dumps(tables[t]) for t in sorted(tables)]
    nid = 0
    ndoubt = 0
    for key in sorted(adm):
        nid += 1
        tb, d, s = key
        a = [json.loads(o) for o in sorted(adm[key])]
        ndoubt += len(a) > 1
        lines.append(json.dumps({"kind": "exp", "id": nid, "tab": tb, "def": d, "s": s, "adm": a,
                                 "pred": [json.loads(pred[key]["fixed"]), json.loads(pred[key]["pinned"])],
                                 "kd": pred[key]["kd"]}))
    # reference cycles that pass through a STRUCTURED provider value (a map / list returned for a whole-value reference whose
    # leaf refers back): "resolution always terminates, reporting an error for reference cycles" leaves one admissible outcome.
    # (hand-written table TC: ConfResolve.tla's provider tables hold cycles through strings only; seeded change C12-8 gave every
    # container element a fixpoint budget of its own, so such a cycle is never reported)
    tc = {"U": "k: ${env:U}", "V": "[1, \"${env:W}\"]", "W": "${env:V}", "Y": "k:\n  j: [\"${env:Y}\"]", "Z": "plain"}
    lines.insert(0, json.dumps({"kind": "table", "name": "TC", "env": tc}))
    err = {"t": "err"}
    for s in ("${env:U}", "${env:V}", "${env:W}", "${env:Y}", "a${env:W}"):
        nid += 1
        lines.append(json.dumps({"kind": "exp", "id": nid, "tab": "TC", "def": False, "s": s, "adm": [err], "pred": [err, err], "kd": False}))
    # "... reporting an error for references whose name itself contains $": scheme-less references with a default scheme
    # whose provider does not validate names itself (table TD: served by the driver's own provider; the stock env provider
    # rejects such names on its own, which would hide a resolver that stopped checking -- seeded change C12-9)
    lines.insert(0, json.dumps({"kind": "table", "name": "TD", "env": {"Z": "plain"}}))
    for s in ("${A$B}", "${$A}", "x${A$$B}y"):
        nid += 1
        lines.append(json.dumps({"kind": "exp", "id": nid, "tab": "TD", "def": True, "s": s, "adm": [err], "pred": [err, err], "kd": False}))
    # non-vacuity of the enumeration: every kind of outcome the statement talks about occurs
    kinds = dict(error=0, typed=0, container=0, text=0, several=ndoubt, known=sum(1 for k in pred if pred[k]["kd"]))
    for key in adm:
        for o in adm[key]:
            kinds["error" if '"t": "err"' in o else "typed" if '"t": "yaml"' in o else
                  "container" if ('"t": "map"' in o or '"t": "list"' in o) else "text"] += 1
    if not q or not c.replay:
        vac = [k for k, v in kinds.items() if v == 0]
        if vac:
            raise vlib.Inconclusive("vacuous enumeration: no root with outcome kind %s" % vac)
    c.extra["admissible_outcomes_by_kind"] = kinds
    c.log("expansion cases: %d roots (%d with more than one admissible result, %d with the known-defect predicate)"
          % (nid, ndoubt, sum(1 for k in pred if pred[k]["kd"])))

    # ---------------------------------------------------------------- 3: TLC, merge
    nmerge = 0
    for i, (keys, leaves, depth, nsrc, small) in enumerate(MERGE_PLANS["quick" if q else "thorough"]):
        r = c.tlc("ConfResolve", "ConfMerge", cfg_text=merge_cfg(keys, leaves, depth, nsrc, small), workers=(4 if q else 8),
                  timeout=(240 if q else 1500), label="merge%d" % i, count=True, heap="6g")
        if r.timed_out:
            raise vlib.Inconclusive("TLC timed out on merge%d" % i)
        if not r.ok:
            raise vlib.Inconclusive("TLC design check failed on merge%d: %s\n%s" % (i, r.error, r.trace_text[:3000] or r.out[-2000:]))
        if len(r.printed) != r.distinct - 1:
            raise vlib.Inconclusive("merge%d: printed %d of %d states" % (i, len(r.printed), r.distinct - 1))
        for b in r.printed:
            nid += 1
            nmerge += 1
            lines.append(json.dumps({"kind": "merge", "id": nid, "srcs": [tree(s) for s in b["srcs"]], "want": tree(b["want"])}))
        c.log("TLC merge%d: %d source lists, %.1fs" % (i, len(r.printed), r.wall))
        del r

    # ---------------------------------------------------------------- 4: the real resolver
    res = run_driver(c, binp, lines, "all", tables)
    if res["cases"] != nid:
        raise vlib.Inconclusive("driver ran %d of %d cases" % (res["cases"], nid))
    c.exhaustive = True
    c.extra["roots"] = res["exp"]
    c.extra["merge_lists"] = res["merge"]
    c.extra["roots_with_several_admissible_results"] = ndoubt
    c.extra["real_errors"] = res["errors"]
    c.extra["real_typed_results"] = res["typed"]
    c.extra["tree_matches_model"] = res["matches"]
    c.assumptions += [
        "provider values are closed texts (no unmatched ${ or }, no trailing odd run of $): expanding a value by itself and "
        "substituting it and re-scanning coincide",
        "without a default scheme ${NAME} is not a reference (ResolverSettings.DefaultScheme documentation)",
        "statement silent, all readings admitted: references right of an escaped $${ in the same scalar (U1); scalar left as a "
        "single reference after other references expanded to the empty text (U2); ${scheme:${NAME}} without default scheme (U3)",
        "typed value of a provider text = what the YAML parser used by confmap returns for it (computed once in the driver, "
        "outside the expansion path)",
        "error classes are not compared, only error vs. value",
        "the env provider's ':-' default syntax is not generated"]
    c.finish_args = dict(
        rule="every scalar built from <= MaxLen chunks of each alphabet (checks/C12.py ALPHA/PLANS) x default scheme on/off x "
             "provider table, and every list of <= NSrc source trees of each merge plan, enumerated by TLC; non-trivial = the real "
             "resolver changed the scalar / reported an error, or a merge of >= 2 sources",
        distinct_nontrivial=res["changed"] + res["errors"] + res["merge_multi"])


def run_driver(c, binp, lines, name, tables):
    """Runs the cases through the Go driver, sharded over several processes (the environment of the real
    envprovider is process-global, so parallelism is by process)."""
    head = [l for l in lines if '"kind": "table"' in l[:40]]
    body = [l for l in lines if '"kind": "table"' not in l[:40]]
    k = max(1, min(8, len(body) // 2000))
    shards = [body[i::k] for i in range(k)]

    def one(i):
        f = os.path.join(c.work, "cases_%s_%d.ndjson" % (name, i))
        with open(f, "w") as fh:
            fh.write("\n".join(head + shards[i]) + "\n")
        out = os.path.join(c.work, "res_%s_%d.json" % (name, i))
        c.run([binp, "run", f, out], timeout=1800)
        return json.load(open(out))

    with ThreadPoolExecutor(max_workers=k) as ex:
        parts = list(ex.map(one, range(k)))
    res = {}
    for p in parts:
        for key, v in p.items():
            if isinstance(v, bool) or isinstance(v, str):
                continue
            if isinstance(v, (int, float)):
                res[key] = res.get(key, 0) + v
            elif isinstance(v, list):
                res.setdefault(key, []).extend(v)
    res["matches"] = ("fixed+pinned" if res["match_fixed"] == res["exp"] == res["match_pinned"] else
                      "fixed" if res["match_fixed"] == res["exp"] else
                      "pinned" if res["match_pinned"] == res["exp"] else "neither")
    c.traces_validated += res["cases"]
    c.evaluations += res["cases"]
    for s in (res.get("samples") or [])[:6]:
        c.sample(s)
    seen = {}
    for m in res["mismatches"]:
        case = m.get("case")
        if not case or not case.get("kind"):
            seen[("(not detailed)", m["what"])] = seen.get(("(not detailed)", m["what"]), 0) + 1
            continue
        got = m["got"]
        sig = None
        if case["kind"] == "exp":
            if m["what"] in ("value", "error", "noerror") and case.get("kd") and m.get("pinned"):
                sig = SIG_REPLACEALL
            elif m["what"] == "value" and "confmap.expandedValue" in got.get("value", ""):
                sig = SIG_LEAK
            elif m["what"] == "anyfield" and ((got.get("value") == "nil" and "panic" in got.get("any", ""))
                                              or "confmap.expandedValue" in got.get("any", "")):
                sig = SIG_ANY
        k = (sig, m["what"])
        seen[k] = seen.get(k, 0) + 1
        if seen[k] > 3:
            continue
        if case["kind"] == "exp":
            what = "%s: %r (default scheme %s, table %s) resolves to %s; admissible: %s" % (
                m["what"], case["s"], "env" if case.get("def") else "none", case["tab"],
                ("error " + got.get("errtext", "")) if got.get("err") else
                (got.get("value") if m["what"] in ("value", "noerror") else json.dumps(got)), m["want"])
            rl = [tables.get(case["tab"]) or json.loads(lines[0]), case]
            if not tables:
                rl = [json.loads(l) for l in lines if json.loads(l)["kind"] == "table" and json.loads(l)["name"] == case["tab"]] + [case]
        else:
            what = "merge of %s yields %s, specified %s" % (json.dumps(case["srcs"]), got.get("errtext") or got.get("value"), m["want"])
            rl = [case]
        c.violation(what, replay_obj=dict(lines=rl, got=got, want=m["want"]), signature=sig)
    for k, n in sorted(seen.items(), key=str):
        c.log("mismatch class %s: %d cases" % (k, n))
    if res.get("drift"):
        c.model_drift("%d roots: real result admissible but different from both implementation-shaped models (Fixed / pinned), "
                      "e.g. %s" % (res["drift"], json.dumps(res.get("driftex"))[:400]))
    c.log("driver: %d cases (%d expansion, %d merge), %d errors, %d typed, %d changed, %d mismatches; tree matches model: %s"
          % (res["cases"], res["exp"], res["merge"], res["errors"], res["typed"], res["changed"], len(res["mismatches"]),
             res.get("matches")))
    return res
