"""C19, helper clauses: TLC-enumerated operation sequences with the specified ledger (ObsHelpers.tla) replayed into the real
receiver / scraper / processor helpers (harness/obsreport)."""
import json, os
import vlib


def run_helpers(c):
    n = c.pick(2, 3)
    cfg = """SPECIFICATION Spec
CONSTANTS
  N = %d
  Signals = {"traces", "metrics", "logs"}
INVARIANT Emit
INVARIANT ReceiverBalance
INVARIANT ProcessorInOut
CHECK_DEADLOCK FALSE
""" % n
    r = c.tlc("ObsHelpers", "ObsHelpers", cfg_text=cfg, workers=1, timeout=1200, count=True, label="obs_gen_n%d" % n, heap="8g")
    if not r.ok or not r.printed:
        raise vlib.Inconclusive("helper generator failed: %s %s" % (r.error, r.out[-1200:]))
    behs = r.printed
    if c.replay:
        rp = json.load(open(c.replay))["replay"]
        if rp.get("kind") != "helpers":
            return 0
        behs = [rp["steps"]]
    binp = c.go_build("obsreport", pkg="./cmd")
    f = os.path.join(c.work, "obs_beh.ndjson")
    vlib.write_ndjson(f, behs)
    out = os.path.join(c.work, "obs_res.json")
    c.run([binp, "replay", f, out], timeout=1800)
    res = json.load(open(out))
    if res["behaviours"] != len(behs):
        raise vlib.Inconclusive("helper driver replayed %d of %d" % (res["behaviours"], len(behs)))
    seen = set()
    for m in (res.get("mismatches") or []):
        st = m["steps"][m["step"]] if m["step"] >= 0 else {}
        key = (st.get("op"), st.get("sig"), st.get("mode"), st.get("ok"))
        if key in seen or len(seen) >= 12:
            continue
        seen.add(key)
        sig = None
        w, g = m["want"], m["got"]
        if st.get("op") == "ctl" and st.get("sig") == "logs" and g.get("led"):
            # narrow signature of the open finding: the ONLY difference is that the items of this logs-controller tick
            # were booked under the metric-point counter of the same kind (accepted/refused)
            exp = json.loads(json.dumps(w))       # (per-step deltas)
            fwd = 0 if st["mode"] == "fail" else st["n"]
            kind = "accepted" if st["ok"] else "refused"
            exp["led"][kind]["logs"] -= fwd
            exp["led"][kind]["metrics"] += fwd
            if exp == g:
                sig = "C19-logs-scraper-controller-records-under-metric-point-counters"
        c.violation("helper ledger: step %d (%s) should add %s, the real counters moved by %s" % (
            m["step"], {k: st.get(k) for k in ("op", "sig", "n", "ok", "mode", "m")}, m["want"], m["got"]),
            replay_obj=dict(kind="helpers", steps=m["steps"]), signature=sig)
    c.traces_validated += len(behs)
    c.sample(dict(kind="helper operation sequence with specified ledger", steps=behs[len(behs) // 3]))
    c.log("helpers: %d sequences replayed, %d mismatches" % (len(behs), len(res.get("mismatches") or [])))
    return len(behs)
