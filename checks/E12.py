"""E12 -- ResolverLifecycle: resource lifecycle of confmap.Resolver, its providers / converters and watch notifications.  (EXTRA)

Record in the form of properties.jsonl (no listed property is concerned; derived from the doc comments of confmap/provider.go
(Provider.Retrieve / Shutdown, Retrieved.Close, WatcherFunc, ChangeEvent), confmap/resolver.go (NewResolver, Resolve, Watch,
Shutdown), confmap/converter.go, confmap/README.md (Configuration Resolving, Watching for Updates)):

  title       confmap.Resolver: resource lifecycle of retrieved values, providers, converters and watch notifications
  statement   Across any history of Resolve / watcher notifications / Watch receives / Shutdown on a confmap.Resolver built from
              provider and converter factories: every factory is used once; every Retrieved value a provider hands out during a
              Resolve -- for the configured URIs and for every ${scheme:...} reference expanded anywhere in the tree, nested,
              repeated or found inside another provider's result -- has its Close function called exactly once: never while it
              is (part of) the current configuration, i.e. only inside the next Resolve before that Resolve's first Retrieve, or
              inside Resolver.Shutdown; all of them have been closed when Shutdown returns, also those of a Resolve that failed
              half-way (failing Retrieve, unusable value, failing converter) and also when a Close or a Provider.Shutdown fails;
              Shutdown calls every provider's Shutdown exactly once, after the Close calls of that provider's values; the
              Resolver never has two provider / converter calls in progress at once.  A Resolve that returns a configuration has
              called every converter exactly once, in the configured order, after its last Retrieve, none of them (and no
              retrieval of a configured URI) having failed.  Every change notification (watcher call, with or without error)
              raised by a retrieval of the current resolution is captured: a receive on Watch() obtains it (at least one event as
              long as one such notification has not been followed by a receive, whatever Resolve calls came in between; all of
              them as long as no Resolve was called since); every event received was raised (an error exactly once); Shutdown
              terminates the Watch channel.  A watcher call never panics and has returned at the latest when Shutdown has
              returned, whichever retrieval it belongs to (current, closed by an earlier Resolve, after Shutdown); Resolve and
              Shutdown return (they wait for nothing but the provider / converter calls they make).
  quantifier  1..2 providers, 0..2 converters, 1..2 configured URIs; per Resolve a reference tree (none, one, siblings, chain
              through provider results, the same URI twice, two top-level documents with references), one node failing (Retrieve
              error / value unusable where it stands), a failing converter, failing Close functions, failing Provider.Shutdown;
              1..3 Resolves; 0..3 notifications with / without error from any retrieval made so far (current, closed, during a
              Resolve or Shutdown at every provider-call boundary, after Shutdown); receives at every idle point; providers whose
              Close waits for their in-flight watcher calls (cw) and providers whose Close does not
  anchors     confmap/resolver.go (NewResolver, Resolve, Watch, Shutdown, onChange, closeIfNeeded, retrieveValue), confmap/expand.go
              (expandValueRecursively, expandValue, findAndExpandURI, expandURI), confmap/provider.go (Provider, Retrieved.Close,
              WithRetrievedClose, WatcherFunc), confmap/converter.go, confmap/README.md, docs/rfcs/configuring-confmap-providers.md

Left OPEN because the documentation is silent (the monitor accepts every behaviour there; the model does what the code does, a
divergence would be MODEL-DRIFT): O1 when the values of a FAILED Resolve are closed (before it returns / next Resolve / Shutdown);
O2 whether converters run after a failing converter / retrieval; O3 what Resolve returns when closing the previous values fails,
which errors Resolve / Shutdown return; O4 anything after Shutdown except notifications and receives (a second Shutdown panics,
a Resolve after Shutdown calls Retrieve on providers already shut down: not scripted); O5 order of Provider.Shutdown calls, of
Close calls, of sibling retrievals; O6 whether notifications of superseded resolutions are delivered or dropped, whether a
failing NESTED retrieval fails the Resolve.

Technique (BUILDER-GUIDE): specs/ResolverLifecycle
  1. TLC exhaustive design check (ResolverLifecycleMC): every interleaving of caller, notifier goroutines and watch reader inside
     the bounds keeps the statement (clauses of ResolverObs.tla on the history) and the state invariants (NoStuck, NoPanic,
     LeakFree).  Variant "gen" (proposed repair) passes; "asis" (the code) violates NoStuck = open finding
     E12-resolve-blocks-on-blocked-notifier; "prefix" (the code before b2e5190c1) violates NoPanic (negative variant).
  2. TLC generates histories (ResolverLifecycleGen, random simulation seeded by VERIF_SEED + a small exhaustive run); their
     environment events become scripts run against REAL Resolvers by harness/resolverlife, which records what happened.
  3. Every observation is judged by TLC: ResolverLifecycleMonitor (statement -> findings) and ResolverLifecycleTrace (is it a
     behaviour of the model of the code as it is? -> model drift otherwise).
"""
import json, os
import vlib

SPEC = "ResolverLifecycle"
STALL_MS = 10000
SIG_STUCK = "E12|resolve-blocks|Resolve does not return: it waits in the Close function of a retrieved value whose watcher call is blocked in Resolver.onChange on the full watch channel"


def mc_cfg(variant, nps, ncs, ntops, cws, pool, failures, maxres, maxnt, maxrecv, maxlen, view, invs):
    S = lambda xs: "{%s}" % ", ".join(str(x).upper() if isinstance(x, bool) else str(x) for x in xs)
    return """SPECIFICATION Spec
CONSTANTS
  Variant = "%s"
  NPs = %s
  NCs = %s
  NTops = %s
  CWs = %s
  Pool = "%s"
  Failures = %s
  MaxRes = %d
  MaxNt = %d
  MaxRecv = %d
  MaxLen = %d
CONSTRAINT Bound
%s
%s
CHECK_DEADLOCK FALSE
""" % (variant, S(nps), S(ncs), S(ntops), S(cws), pool, "TRUE" if failures else "FALSE", maxres, maxnt, maxrecv, maxlen,
       "VIEW View" if view else "", "\n".join("INVARIANT " + i for i in invs))


ALLINV = ["TypeOK", "NoStuck", "NoPanic", "LeakFree", "StatementHolds"]


def gen_cfg(nps, ncs, ntops, cws, pool, failures, maxres, maxnt, maxrecv, variant="asis"):
    return mc_cfg(variant, nps, ncs, ntops, cws, pool, failures, maxres, maxnt, maxrecv, 400, False, []) \
        .replace("SPECIFICATION Spec", "SPECIFICATION GSpec").replace("CONSTRAINT Bound", "INVARIANT Emit")


# ---------------------------------------------------------------------------------------------- trees -> provider documents
def uri(t, nd):
    return "%s:%s" % (t["prov"][nd - 1], t["nm"][nd - 1])


def render(t):
    """the provider documents that show reference tree t to a Resolve (uri -> {out, val})"""
    docs = {}
    tops = set(t["tops"])

    def expr(k):
        if t["out"][k - 1] == "bad" and k not in tops:
            return "x-${%s}-y" % uri(t, k)       # a list inside a string: no unambiguous string form -> Resolve fails
        return "${%s}" % uri(t, k)

    for nd in range(1, len(t["out"]) + 1):
        out, kids = t["out"][nd - 1], t["kids"][nd - 1]
        body = "v%d" % nd if not kids else (expr(kids[0]) if len(kids) == 1 else [expr(k) for k in kids])
        if nd in tops:
            d = dict(out="fail") if out == "fail" else dict(out="ok", val="not a map" if out == "bad" else {"k%d" % nd: body})
        else:
            d = dict(out="fail") if out == "fail" else dict(out="ok", val=["v"] if out == "bad" else body)
        u = uri(t, nd)
        if u in docs and docs[u]["out"] == "ok" and d["out"] == "ok" and docs[u].get("val") == ["v"]:
            continue                                  # the same URI twice, one of the two is "bad": the document is the bad one
        if u in docs and docs[u]["out"] == "fail":
            continue
        docs[u] = d
    return docs


PROVIDER_EVENTS = {"retr", "retrret", "close", "closeret", "conv", "convret", "pshut", "pshutret"}


def to_script(beh):
    """environment events of a generated history -> driver script"""
    cf, h = beh["cfg"], beh["h"]
    p2 = "pa" if cf["np"] == 1 else "pb"
    tops = ["pa:t1"] + (["%s:t2" % p2] if beh["ntop"] == 2 else [])
    ops, cur, evno = [dict(op="new")], None, 0
    retrs = []                       # model retrieval number -> (res, uri, occ)
    curtree = None
    inflight = {}
    for ev in h:
        e = ev["e"]
        if e == "rcall":
            curtree = ev["tree"]
            cur = dict(op="resolve", docs=render(curtree), convfail=ev["cfl"], tree=curtree, inject=[])
            ops.append(cur)
            evno = 0
            inflight = {}
        elif e == "sdcall":
            cur = dict(op="shutdown", inject=[])
            ops.append(cur)
            evno = 0
        elif e in ("rret", "sdret"):
            cur = None
        elif e in PROVIDER_EVENTS:
            evno += 1
            if e == "retr":
                # which node? the model does not say it in the event: reconstruct from provider + order is not needed,
                # the reference is (res, uri, occ) and the URI is found through the node the model retrieved: see below
                pass
        elif e == "notify":
            ref = retr_ref(h, ev["r"])
            o = dict(op="notify", x=ev["x"], ref=ref, err=ev["err"])
            if cur is None:
                ops.append(o)
            elif evno == 0:
                ops.insert(len(ops) - 1, o)
            else:
                cur["inject"].append(dict(at=evno, ops=[o]))
        elif e == "recv":
            ops.append(dict(op="recv", long=ev["got"] != -1))
    return dict(provs=cf["provs"], tops=tops, nconv=cf["nc"], cw=cf["cw"], cfail=sorted(cf["cfail"]), pfail=sorted(cf["pfail"]),
                stall_ms=STALL_MS, settle_us=3000, ops=ops)


def retr_ref(h, r):
    """(res, uri, occ) of the model's r-th retrieval (the model's retr events say which tree node they serve)"""
    tree, seen, k = None, {}, 0
    for ev in h:
        if ev["e"] == "rcall":
            tree = ev["tree"]
        elif ev["e"] == "retr":
            k += 1
            u = uri(tree, ev["nd"])
            seen[(ev["res"], u)] = seen.get((ev["res"], u), 0) + 1
            if k == r:
                return dict(res=ev["res"], uri=u, occ=seen[(ev["res"], u)])
    raise vlib.Inconclusive("retrieval %d not found in a generated history" % r)


def fmt(s):
    def one(o):
        if o["op"] == "resolve":
            t = o.get("tree") or {}
            inj = "".join(" @%d:%s" % (i["at"], "+".join(one(x) for x in i["ops"])) for i in o.get("inject", []))
            return "resolve(kids=%s out=%s convfail=%d%s)" % (json.dumps(t.get("kids")), json.dumps(t.get("out")), o.get("convfail", 0), inj)
        if o["op"] == "notify":
            return "notify(res%d %s#%d%s)" % (o["ref"]["res"], o["ref"]["uri"], o["ref"]["occ"], " err" if o["err"] else "")
        if o["op"] == "recv":
            return "recv(%s)" % ("long" if o.get("long") else "short")
        if o["op"] == "shutdown":
            return "shutdown(%s)" % "".join(" @%d:%s" % (i["at"], "+".join(one(x) for x in i["ops"])) for i in o.get("inject", []))
        return o["op"]
    return "provs=%s tops=%s nconv=%d cw=%s cfail=%s pfail=%s: %s" % (s["provs"], s["tops"], s["nconv"], s["cw"], s["cfail"], s["pfail"],
                                                                  " ".join(one(o) for o in s["ops"]))


def slim(ev):
    return {k: v for k, v in ev.items() if k not in ("t", "tree", "haswatcher", "sx")}


def chunks(xs, n):
    k = max(1, (len(xs) + n - 1) // n)
    return [xs[i:i + k] for i in range(0, len(xs), k)]


def judge(c, ex, binp, scripts, label, variant="asis", par=400):
    sf = os.path.join(c.work, "scripts_%s.ndjson" % label)
    of = os.path.join(c.work, "observed_%s.ndjson" % label)
    vlib.write_ndjson(sf, scripts)
    c.run([binp, "run", sf, of, str(par)], timeout=1200)
    olist = vlib.read_ndjson(of)
    obs = {o["id"]: o for o in olist}
    if len(obs) != len(scripts):
        raise vlib.Inconclusive("driver returned %d observations for %d scripts" % (len(obs), len(scripts)))
    parts = chunks(olist, (12 if len(olist) > 4000 else 6) if len(olist) > 200 else 1)
    futs = []
    for i, part in enumerate(parts):
        pf = os.path.join(c.work, "observed_%s_%d.ndjson" % (label, i))
        vlib.write_ndjson(pf, part)
        futs.append(("mon", ex.submit(c.tlc, SPEC, "ResolverLifecycleMonitor", workers=1, files={"observed.ndjson": pf}, timeout=1500,
                                      count=False, label="monitor_%s_%d" % (label, i), heap="4g")))
        tcfg = open(os.path.join(vlib.VERIF, "specs", SPEC, "ResolverLifecycleTrace.cfg")).read().replace('"asis"', '"%s"' % variant)
        futs.append(("trace", ex.submit(c.tlc, SPEC, "ResolverLifecycleTrace", cfg_text=tcfg, workers=1, files={"observed.ndjson": pf},
                                        timeout=1500, count=False, label="trace_%s_%d" % (label, i), heap="4g")))
    verdicts, accepted = [], set()
    for kind, f in futs:
        r = f.result()
        if not r.ok:
            raise vlib.Inconclusive("%s failed: %s %s" % (kind, r.error, r.out[-2000:]))
        if kind == "mon":
            verdicts += r.printed
        else:
            accepted |= {p["acc"] for p in r.printed if "acc" in p}
    rejected = [i for i in obs if i not in accepted]
    return obs, verdicts, rejected


def locate(c, o, variant):
    f = os.path.join(c.work, "one_%d.ndjson" % o["id"])
    vlib.write_ndjson(f, [o])
    tcfg = open(os.path.join(vlib.VERIF, "specs", SPEC, "ResolverLifecycleTraceHW.cfg")).read().replace('"asis"', '"%s"' % variant)
    r = c.tlc(SPEC, "ResolverLifecycleTrace", cfg_text=tcfg, workers=1, dfs=True, files={"observed.ndjson": f}, timeout=300,
              count=False, label="locate")
    hw = [p["hw"] for p in r.printed if "hw" in p]
    return hw[-1] if hw else None


def stuck_shape(o, at, clauses):
    """the narrow shape of the open finding: Resolve stalls inside the Close (which waits for its watcher calls: cw) of a retrieval
    that has a watcher call in flight, raised before that Close began, while an earlier notification is still undelivered"""
    ev = o["ev"]
    st = ev[at - 1]
    if clauses != ["Progress"] or st.get("what") != "resolve" or not o["cfg"]["cw"]:
        return False
    before = ev[:at - 1]
    calls = [e for e in before if e["e"] in PROVIDER_EVENTS]
    if not calls or calls[-1]["e"] != "close":
        return False
    r = calls[-1]["r"]
    returned = {e["x"] for e in before if e["e"] == "notifyret"}
    blocked = [e for e in before if e["e"] == "notify" and e["r"] == r and e["x"] not in returned]
    raised = sum(1 for e in before if e["e"] == "notify")
    received = sum(1 for e in before if e["e"] == "recv" and e["got"] >= 0)
    return bool(blocked) and raised - received >= 2


def run(c):
    q = c.quick()
    if c.replay:
        os.environ["VERIF_NO_EVIDENCE"] = "1"
    from concurrent.futures import ThreadPoolExecutor
    import threading
    ex = ThreadPoolExecutor(10)
    sem = threading.Semaphore(3)
    variant = os.environ.get("E12_VARIANT", "asis")          # "gen" when run against a tree with the proposed repair

    # ------------------------------------------------------------------ 1. design
    dfuts, negs = [], []
    # the design runs do not depend on the Go tree: they are skipped when the check runs against a mutated copy of the
    # anchored files (tools/selftest.py sets VERIF_OVERLAY), where only the binding to the code is exercised
    nodesign = c.replay or (os.environ.get("VERIF_OVERLAY") and not os.environ.get("E12_FULL"))
    if not nodesign:
        W = 3
        designs = [
            # (label, cfg)                                    variant nps ncs ntops cws pool fail res nt recv len view
            ("view_core", mc_cfg("gen", [2], [1], [1], [True], "small", False, 2, 2, 1, 80, True, ALLINV)),
            ("view_fail", mc_cfg("gen", [1], [1], [1], [True, False], "small", True, 2, 1, 1, 80, True, ALLINV)),
            ("hist_small", mc_cfg("gen", [1], [1], [1], [True], "small", False, 2, 1, 1, 34, False, ALLINV)),
        ] if q else [
            ("view_core", mc_cfg("gen", [2], [1], [1], [True, False], "small", False, 2, 2, 2, 90, True, ALLINV)),
            ("view_mid", mc_cfg("gen", [2], [1], [1], [True], "mid", False, 2, 1, 1, 90, True, ALLINV)),
            ("view_fail", mc_cfg("gen", [1], [2], [2], [True], "small", True, 2, 1, 1, 80, True, ALLINV)),
            ("view_fail2", mc_cfg("gen", [1], [1], [1], [True, False], "small", True, 2, 1, 1, 90, True, ALLINV)),
            ("hist_small", mc_cfg("gen", [1], [1], [1], [True], "small", False, 2, 1, 1, 34, False, ALLINV)),
        ]

        def design(name, cfg):
            with sem:
                return c.tlc_must_pass(SPEC, "ResolverLifecycleMC", cfg_text=cfg, timeout=c.pick(500, 1500), label="design_" + name,
                                       heap="5g", workers=W, coverage=False)
        dfuts = [(name, ex.submit(design, name, cfg)) for name, cfg in designs]
        # the code AS IT IS and the code BEFORE commit b2e5190c1 must be refuted by the design check (clauses not vacuous)
        negs = [("asis", "NoStuck", ex.submit(c.tlc, SPEC, "ResolverLifecycleMC", workers=2, timeout=500, count=False, label="design_asis",
                                               cfg_text=mc_cfg("asis", [2], [1], [1], [True], "small", False, 2, 2, 1, 80, True, ALLINV))),
                ("prefix", "NoPanic", ex.submit(c.tlc, SPEC, "ResolverLifecycleMC", workers=2, timeout=500, count=False, label="design_prefix",
                                                 cfg_text=mc_cfg("prefix", [2], [1], [1], [True], "small", False, 2, 2, 1, 80, True, ALLINV)))]

    # ------------------------------------------------------------------ 2. scripts
    if c.replay:
        rp = json.load(open(c.replay))["replay"]
        scripts = [dict(rp["script"], id=1)]
    else:
        full = ([1, 2], [0, 1, 2], [1, 2], [True, False], "full", True)
        # "asis": histories of the model of the code as it is (no Resolve of theirs waits for ever); "gen": histories of the
        # documented behaviour, on some of which the real code stalls (open finding): few of them, every stall costs 10 s
        plans = [("sim", gen_cfg(*full, 3, 3, 3), c.pick(500, 6000), 150),
                 ("watch", gen_cfg([2], [1], [1], [True, False], "mid", False, 3, 3, 3), c.pick(300, 3000), 150),
                 ("doc", gen_cfg([1, 2], [1], [1, 2], [True], "mid", False, 3, 3, 2, "gen"), c.pick(60, 250), 150),
                 ("tiny", gen_cfg([1], [1], [1], [True], "small", False, 1, 1, 1, "gen"), None, None)]

        def gen(label, cfg, sim, depth):
            kw = dict(simulate="num=%d" % sim, depth=depth, seed=c.seed) if sim else {}
            return c.tlc(SPEC, "ResolverLifecycleGen", cfg_text=cfg, workers=1, timeout=900, count=False, label="gen_" + label, heap="4g", **kw)
        gfuts = [(label, ex.submit(gen, label, cfg, sim, depth)) for label, cfg, sim, depth in plans]
    binp = c.go_build("resolverlife", pkg="./cmd")
    if not c.replay:
        scripts, seen = [], set()
        for label, f in gfuts:
            r = f.result()
            if r.timed_out or r.error or not r.printed:
                raise vlib.Inconclusive("generator %s failed: %s %s" % (label, r.error, r.out[-1500:]))
            n0 = len(scripts)
            for b in r.printed:
                s = to_script(b)
                key = json.dumps(s, sort_keys=True)
                if key not in seen:
                    seen.add(key)
                    scripts.append(dict(s, id=len(scripts) + 1))
            c.log("generator %s: %d histories, %d new scripts" % (label, len(r.printed), len(scripts) - n0))
    for name, f in dfuts:
        r = f.result()
        c.log("design %s: %d states, %d distinct, depth %d, %.1fs" % (name, r.generated, r.distinct, r.depth, r.wall))
    for name, inv, f in negs:
        r = f.result()
        if r.error != ("invariant", inv):
            raise vlib.Inconclusive("the model variant %s was expected to violate %s: %s %s" % (name, inv, r.error, r.out[-800:]))
        c.extra["model_variant_" + name] = "violates %s as expected" % inv

    # ------------------------------------------------------------------ 3. run + judge
    byid = {s["id"]: s for s in scripts}
    obs, verdicts, rejected = judge(c, ex, binp, scripts, "main", variant)
    flagged = {}
    for v in verdicts:
        flagged.setdefault(v["id"], []).append(v)
    TIMED = {"Progress", "Delivery", "AllDelivered", "WatchTerminated", "NoPanic"}
    confirm = [i for i, vs in flagged.items() if any(set(v["clauses"]) & TIMED for v in vs)]
    if confirm and not c.replay:
        # verdicts that rest on a waiting time are confirmed by running the script once more, nearly alone
        redo = confirm[:40]
        obs2, verdicts2, _ = judge(c, ex, binp, [byid[i] for i in redo], "confirm", variant, par=40)
        again = {v["id"] for v in verdicts2 if set(v["clauses"]) & TIMED}
        for i in confirm:
            if i in redo and i not in again:
                kept = [v for v in flagged[i] if not set(v["clauses"]) & TIMED]
                c.log("script %d: timing verdict not reproduced when run again, dropped" % i)
                if kept:
                    flagged[i] = kept
                else:
                    del flagged[i]
    reported = 0
    for i in sorted(flagged):
        o, s = obs[i], byid[i]
        for v in flagged[i][:2]:
            at, clauses = v["at"], sorted(v["clauses"])
            sig = SIG_STUCK if stuck_shape(o, at, clauses) else None
            if reported >= 6 and c.match_finding(sig) is None:
                continue
            what = "clause %s of the statement does not hold at event %d %s of what the real Resolver did; script: %s; events: %s" % (
                "+".join(clauses), at, json.dumps(slim(o["ev"][at - 1])), fmt(s), json.dumps([slim(e) for e in o["ev"][max(0, at - 25):at]]))
            if c.violation(what[:3500], replay_obj=dict(kind="script", script={k: s[k] for k in s if k != "id"}, clauses=clauses, at=at,
                                                        events=[slim(e) for e in o["ev"]]), signature=sig):
                reported += 1
    drift = [i for i in rejected if i not in flagged]
    for i in drift[:3]:
        at = locate(c, obs[i], variant)
        ev = obs[i]["ev"]
        c.model_drift("observation of script [%s] is not a behaviour of ResolverLifecycle.tla (Variant %s; statement intact): first "
                      "unexplained event %s: %s" % (fmt(byid[i])[:1200], variant, at, json.dumps([slim(e) for e in ev[max(0, (at or 1) - 12):at or len(ev)]])[:1500]))
    ex.shutdown()
    unfollowed = sum(1 for o in obs.values() if any(e["e"] == "unfollowed" for e in o["ev"]))
    skipped = sum(1 for o in obs.values() for e in o["ev"] if e["e"] == "skip")
    stalls = sum(1 for o in obs.values() if any(e["e"] == "stall" for e in o["ev"]))
    nontrivial = sum(1 for o in obs.values() if sum(1 for e in o["ev"] if e["e"] == "notify") >= 1 and sum(1 for e in o["ev"] if e["e"] == "rcall") >= 2)
    c.traces_validated += len(scripts)
    c.evaluations += sum(len(o["ev"]) for o in obs.values())
    c.extra.update(scripts=len(scripts), observations_rejected_by_model=len(rejected), observations_flagged_by_monitor=len(flagged),
                   scripts_with_an_unscripted_retrieve=unfollowed, notifications_without_target=skipped, scripts_with_a_stall=stalls,
                   notifications=sum(1 for o in obs.values() for e in o["ev"] if e["e"] == "notify"),
                   retrievals=sum(1 for o in obs.values() for e in o["ev"] if e["e"] == "retr"), trace_variant=variant)
    c.log("%d scripts run: monitor flagged %d (%d stalled), model rejected %d, %d with an unscripted retrieve, %d notifications without target"
          % (len(scripts), len(flagged), stalls, len(rejected), unfollowed, skipped))
    if not c.replay and unfollowed > len(scripts) // 20 and not c.violations:
        raise vlib.Inconclusive("%d of %d scripts met a retrieve the script had no document for" % (unfollowed, len(scripts)))
    if scripts:
        mid = scripts[len(scripts) // 2]
        c.sample(dict(kind="script", script=fmt(mid)))
        c.sample(dict(kind="observation", events=[slim(e) for e in obs[mid["id"]]["ev"]][:40]))
    c.exhaustive = False
    c.assumptions += ["the recorder's mutex orders the recorded events consistently with real time",
                      "instrumented providers / converters return at once, except a Close that (cw) waits for the watcher calls of its "
                      "retrieval that are in flight; so a Resolve / Shutdown that has not returned after 10 s (re-run once) waits for ever",
                      "a receive that the model expects to obtain something waits 10 s, the others 20 ms",
                      "Resolve, Watch receives and Shutdown are never called concurrently (documented requirement); notifications are"]
    c.finish_args = dict(rule="scripts = environment projections (new, Resolve + reference tree, notifications with their position among the "
                              "provider calls, receives, Shutdown) of ResolverLifecycleGen histories (TLC -simulate seeded by VERIF_SEED over "
                              "the full configuration / tree pool + exhaustive tiny bounds), de-duplicated; non-trivial = at least two "
                              "Resolves and one notification", distinct_nontrivial=nontrivial)
