"""C15 -- OTLP exporter -> OTLP receiver preserves data and the meaning of failures.
Spec: specs/OtlpHop (HopObs = statement + OtlpTables = OTLP specification tables, OtlpHop = protocol
machine with the implementation's three tables, HopMC, HopMonitor).
Binding: harness/otlphop (real otlpreceiver gRPC+HTTP with a scripted next consumer, real otlpexporter /
otlphttpexporter with retry and queue disabled, raw HTTP / gRPC clients, test authenticator extension).
  1. TLC exhaustive design check (HopMC): every clause of the statement on every finished request of the
     protocol machine.
  2. TLC prints every abstract request with the observation the machine specifies.
  3. The Go driver realises every request over loopback and records (consumer invoked?, payload equal?,
     wire status, exporter classification).
  4. TLC (HopMonitor) evaluates the clauses on every real observation: the verdict.  The observation is
     compared with the machine's: model drift.
"""
import json, os
import vlib

DEFAULT = ["identity", "gzip", "zlib", "deflate", "zstd", "snappy", "lz4"]
RESTRICTED = ["identity", "gzip"]


def mc_cfg(depth, emit=False):
    return """SPECIFICATION Spec
CONSTANTS
  Depth = "%s"
  Requests <- MCRequests
INVARIANTS %sInvSuccessIff InvDelivered InvStatusPassthrough InvPermanentIffNonRetryable InvThrottleHonoured InvRejectedNeverConsumed InvEmptyAckWithoutConsume InvConsumedOnce
CHECK_DEADLOCK FALSE
""" % (depth, "Emit " if emit else "")


def monitor_req(p):
    r = dict(p)
    r["enc"] = p["comp"]
    r["enabled"] = RESTRICTED if p["recv"] == "restricted" else DEFAULT
    r["n"], r["w"], r["max"] = 1, 1, 4
    r.pop("stub", None)
    return r


def norm_resp(r):
    if r["kind"] == "grpc":
        return ("grpc", r["code"], r["ri"])
    if r["kind"] == "http":
        return ("http", r["status"], r["code"], r["retryAfter"])
    return ("none",)


def run(c):
    q = c.quick()
    depth = "quick" if q else "full"
    vac = ("HandlerProbe",)
    c.tlc_must_pass("OtlpHop", "HopMC", cfg_text=mc_cfg(depth), coverage=True, timeout=1500, label="design",
                    vacuous_ok=vac, workers=min(8, vlib.NCPU))
    g = c.tlc("OtlpHop", "HopMC", cfg_text=mc_cfg(depth, emit=True), workers=1, timeout=1500, label="gen", count=False,
              tag="CASE")
    if not g.ok:
        raise vlib.Inconclusive("generator failed: %s\n%s" % (g.error, g.out[-1500:]))
    cases = g.printed
    if len(cases) < 1000:
        raise vlib.Inconclusive("generator produced only %d cases" % len(cases))
    # the machine is deterministic on hop requests: one finished state per request
    keys = {json.dumps(k["plan"], sort_keys=True) for k in cases}
    if len(keys) != len(cases):
        raise vlib.Inconclusive("generator: %d cases but %d distinct requests" % (len(cases), len(keys)))
    # "with any supported compression": the machine treats the compression algorithm as a name and the payload as an opaque tag,
    # so every generated request stands for its whole family of payload sizes and compression levels.  For the accepted,
    # well-formed requests sent by the real exporters the family is sampled here as well: payloads of 300-900 KiB (beyond one
    # block / the smallest window of every compressor) x the levels each algorithm accepts (seeded change C15-5: a decoder
    # window smaller than what the exporter's encoder announces at level >= 3).  Same expected observation as the base case.
    LEVELS = {"gzip": [1, 9], "zlib": [1, 9], "deflate": [6], "zstd": [1, 3, 6, 11]}
    fam = []
    seen = set()
    for k in cases:
        p = k["plan"]
        if not (p["via"] == "exporter" and p["wellformed"] and p["method"] == "POST" and p["items"] != "zero" and p["auth"] != "bad"
                and p["recv"] in ("off", "auth") and p["outcome"]["kind"] == "nil" and p["media"] in ("proto", "json")):
            continue
        sig = (p["transport"], p["media"], p["comp"], p["signal"] if not q else "")
        if sig in seen:
            continue
        seen.add(sig)
        fam.append(dict(k, plan=dict(p, big=True)))
        if p["transport"] == "http":
            for lv in LEVELS.get(p["comp"], []):
                fam.append(dict(k, plan=dict(p, big=True, clevel=lv)))
    c.extra["big_payload_level_family"] = len(fam)
    cases = cases + fam
    c.rng.shuffle(cases)

    binp = c.go_build("otlphop", pkg="./cmd")
    if c.replay:
        rp = json.load(open(c.replay))["replay"]
        want = json.dumps(rp["plan"], sort_keys=True)
        cases = [k for k in cases if json.dumps(k["plan"], sort_keys=True) == want] or [dict(plan=rp["plan"], exp=None, silent=False)]
    ok = 0
    nviol = {}
    ndrift = 0
    eq_by = {}
    nontrivial = set()
    total = 0
    unattributed = 0
    sample_src = []
    # payload seeds: the requests are the same in every pass, the concrete payloads differ
    for pseed in ([c.seed] if (q or c.replay) else [c.seed, c.seed + 1000]):
        plan = []
        for i, k in enumerate(cases):
            p = dict(k["plan"])
            p["id"] = i + 1
            plan.append(p)
        planf = os.path.join(c.work, "plan.ndjson")
        vlib.write_ndjson(planf, plan)
        obsf = os.path.join(c.work, "observed.ndjson")
        pr = c.run([binp, "run", planf, obsf, str(pseed), "8"], timeout=1500)
        obs = vlib.read_ndjson(obsf)
        if len(obs) != len(plan):
            raise vlib.Inconclusive("driver produced %d observations for %d requests" % (len(obs), len(plan)))
        drv = json.loads(pr.stdout.strip().splitlines()[-1])
        c.log("driver ran %d requests (%s)" % (len(obs), drv))
        total += len(obs)
        unattributed += drv.get("unattributed_consumer_invocations", 0)

        byid = {p["id"]: p for p in plan}
        monf = os.path.join(c.work, "monitor_in.ndjson")
        vlib.write_ndjson(monf, [dict(id=o["id"], req=monitor_req({k: v for k, v in byid[o["id"]].items() if k != "id"}), obs=o["obs"]) for o in obs])
        m = c.tlc("OtlpHop", "HopMonitor", workers=1, files={"observed.ndjson": monf}, timeout=1500, label="monitor",
                  count=False, tag="VERDICT")
        if not m.ok or len(m.printed) != len(obs):
            raise vlib.Inconclusive("monitor failed (%d verdicts for %d observations): %s" % (len(m.printed), len(obs), m.out[-1500:]))
        verdict = {v["id"]: v for v in m.printed}
        expof = {i + 1: k for i, k in enumerate(cases)}
        for o in obs:
            p = byid[o["id"]]
            ob = o["obs"]
            failed = verdict[o["id"]]["failed"]
            pk = {k: v for k, v in p.items() if k != "id"}
            if failed:
                key = ",".join(sorted(failed))
                nviol[key] = nviol.get(key, 0) + 1
                if nviol[key] > 5:
                    continue
                oc = p["outcome"]
                what = ("clause %s violated: %s/%s comp=%s signal=%s via=%s auth=%s method=%s wellformed=%s items=%s receiver=%s consumer-outcome=%s -> "
                        "consumer invoked %d times, payload-equal=%s, wire=%s, exporter classification=%s %s" % (
                            key, p["transport"], p["media"], p["comp"], p["signal"], p["via"], p["auth"], p["method"], p["wellformed"], p["items"], p["recv"],
                            (oc["kind"], oc["code"], oc["ri"], oc["wrap"]), ob["consumed"], ob["eq"], norm_resp(ob["resp"]), ob["cls"],
                            {k: v for k, v in o["extra"].items() if k in ("err", "eq_hint", "status_message", "body")}))
                c.violation(what, replay_obj=dict(plan=pk, observed=o, failed=failed))
                continue
            ok += 1
            if ob["consumed"] == 1:
                k2 = "%s/%s/%s" % (p["transport"], p["media"], p["signal"])
                eq_by[k2] = eq_by.get(k2, 0) + (1 if ob["eq"] else 0)
            if p["outcome"]["kind"] != "nil" or not p["wellformed"] or p["auth"] == "bad" or p["items"] == "zero" or p["method"] != "POST" or p["media"] == "other":
                nontrivial.add(json.dumps(pk, sort_keys=True))
            e = expof[o["id"]].get("exp")
            if e is not None:
                got = (ob["consumed"], norm_resp(ob["resp"]), (ob["cls"]["class"], ob["cls"]["delay"]) if p["via"] == "exporter" else None)
                want = (e["consumed"], norm_resp(e["resp"]), (e["cls"]["class"], e["cls"]["delay"]) if p["via"] == "exporter" else None)
                if got != want:
                    ndrift += 1
                    if ndrift <= 10:
                        c.model_drift("request %s: machine specifies %s, real code gave %s" % (pk, want, got))
    if nviol:
        c.log("observations violating a clause: %s" % nviol)
        c.extra["violating_observations"] = nviol
    if unattributed:
        # the consumer was handed something that carries no case id: cannot be attributed, so no verdict
        raise vlib.Inconclusive("%d consumer invocations could not be attributed to a request" % unattributed)
    c.traces_validated += ok
    c.evaluations = total
    c.exhaustive = not c.replay
    for o in obs[:: max(1, len(obs) // 4)][:4]:
        c.sample(dict(kind="observed request", plan={k: v for k, v in byid[o["id"]].items() if k != "id"}, obs=o["obs"],
                      clauses_failed=verdict[o["id"]]["failed"]))
    c.extra["requests"] = total
    c.extra["drifting_requests"] = ndrift
    c.extra["payload_equal_at_consumer_sampled"] = eq_by
    c.assumptions += [
        "payload equality is sampled: seeded payloads of the four signals (attributes of every value type, nested maps, extreme integers/doubles) compared as proto bytes at the scripted consumer; the model carries the payload only as an opaque tag",
        "the exporter's classification is read off the error returned by ConsumeX with retry and queue disabled (consumererror.IsPermanent, exporterhelper throttle-retry error found by type name, its delay read by reflection)",
        "wire responses are recorded by a client middleware extension (extensionmiddleware) of the exporter under test; TLS off; loopback",
        "RESOURCE_EXHAUSTED without RetryInfo over HTTP is left open (429 is retryable by the HTTP table, the code is not by the gRPC table); a malformed gRPC body is answered by grpc-go itself (INTERNAL): only 'failure, non-retryable, not consumed' is required there",
        "throttling delays are whole seconds (Retry-After has second granularity)"]
    c.finish_args = dict(rule="requests enumerated by TLC (HopMC, Depth=%s): channels x signals x authenticator x every consumer outcome through the real exporters, "
                              "rejected/empty/not-enabled requests through the exporters, and every combination of credential x method x media type x well-formedness x items "
                              "by hand-made requests; each realised once over loopback; non-trivial = distinct requests that are not a plain accepted nil-outcome export" % depth,
                         distinct_nontrivial=len(nontrivial))
