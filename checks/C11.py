"""C11 -- component status events follow the documented state machine.
Spec: specs/StatusFSM.  Binding: harness/service/c11 (real status.NewReporter).
  1. TLC exhaustive design check (StatusMC): all clauses of the property on every report history.
  2. TLC generates ALL report sequences of length N (1 instance) / M (2 instances) with the specified
     delivered event per step; they are replayed into the real reporter and compared step by step.
  3. Real concurrent reporters -> recorded linearisation order of delivered events -> TLC searches
     for an interleaving of the goroutines' programs that explains it (StatusTrace).
"""
import json, os
import vlib


def gen_cfg(insts, n):
    return """SPECIFICATION GenSpec
CONSTANTS
  Inst = {%s}
  N = %d
INVARIANT Emit
INVARIANT FsmInvariant
CHECK_DEADLOCK FALSE
""" % (", ".join('"%s"' % i for i in insts), n)


def run(c):
    q = c.quick()
    # 1. design
    c.tlc_must_pass("StatusFSM", "StatusMC", coverage=True, timeout=300, label="design")
    # 1b. unbounded design safety with Apalache (thorough): FsmInvariant is inductive (base + step from any state with
    #     histories of up to 4 events per instance, which contain every pattern the invariant looks at)
    if not q and not c.replay:
        import shutil, subprocess
        ad = c.scratch("apalache")
        for f in ("StatusFSM.tla", "StatusInd.tla", "StatusInd.cfg"):
            shutil.copy(os.path.join(vlib.VERIF, "specs", "StatusFSM", f), ad)
        res = []
        for init, length in (("FsmInit", 0), ("IndInit", 1)):
            try:
                p = subprocess.run(["apalache-mc", "check", "--config=StatusInd.cfg", "--init=" + init, "--inv=FsmInvariant",
                                    "--length=%d" % length, "StatusInd.tla"], cwd=ad, stdout=subprocess.PIPE, stderr=subprocess.STDOUT,
                                   text=True, timeout=900)
                res.append("The outcome is: NoError" in p.stdout)
            except Exception as e:      # tool not available / timeout: the bounded TLC result stands, say so
                res.append(None)
        c.extra["apalache_inductive_invariant"] = dict(base=res[0], step=res[1])
        if False in res:
            raise vlib.Inconclusive("Apalache refutes the inductiveness of FsmInvariant: %s" % res)
        c.log("Apalache: FsmInvariant inductive (base %s, step %s)" % tuple(res))
        shutil.rmtree(ad, ignore_errors=True)
    binp = c.go_build("service", pkg="./c11")

    # 2. replay-compare, bounded exhaustive
    if c.replay:
        beh_sets = [("replay", [json.load(open(c.replay))["replay"]["ops"]])]
    else:
        beh_sets = []
        for insts, n in ([(["i1"], 5), (["i1", "i2"], 3)] if q else [(["i1"], 6), (["i1", "i2"], 4)]):
            r = c.tlc("StatusFSM", "StatusGen", cfg_text=gen_cfg(insts, n), workers=1, timeout=900,
                      label="gen%dx%d" % (len(insts), n), count=False, heap="8g")
            if not r.ok:
                raise vlib.Inconclusive("generator failed: %s" % (r.error,))
            expect = (9 * len(insts)) ** n
            if len(r.printed) != expect:
                raise vlib.Inconclusive("generator printed %d behaviours, expected %d" % (len(r.printed), expect))
            beh_sets.append(("%dx%d" % (len(insts), n), r.printed))
    total = 0
    nontrivial = 0
    for name, behs in beh_sets:
        f = os.path.join(c.work, "beh_%s.ndjson" % name)
        with open(f, "w") as fh:
            for b in behs:
                fh.write(json.dumps(b, separators=(",", ":")) + "\n")
        out = os.path.join(c.work, "res_%s.json" % name)
        c.run([binp, "replay", f, out], timeout=600)
        res = json.load(open(out))
        res["mismatches"] = res.get("mismatches") or []
        if res["behaviours"] != len(behs):
            raise vlib.Inconclusive("driver replayed %d of %d behaviours" % (res["behaviours"], len(behs)))
        total += len(behs)
        nontrivial += sum(1 for b in behs if sum(1 for s in b if s["ev"] != "none") >= 2)
        c.sample(dict(kind="replayed behaviour", steps=behs[len(behs) // 2]))
        for m in res["mismatches"][:5]:
            c.violation("delivered event differs from the state machine at step %d: want %s got %s; ops=%s"
                        % (m["step"], m["want"], m["got"], [(s["i"], s["w"]) for s in m["ops"][:m["step"] + 1]]),
                        replay_obj=dict(ops=m["ops"], step=m["step"], want=m["want"], got=m["got"]))
        c.log("replayed %d behaviours (%s): %d mismatches" % (len(behs), name, len(res["mismatches"])))
    c.traces_validated += total
    c.exhaustive = True

    # 3. concurrent reporters, TLC explains the linearisation
    if not c.replay:
        rounds, G, P, M = (5200, 3, 6, 2) if q else (8000, 3, 7, 3)   # 3 of 4 rounds are focused (8 prefixes x 9 x 9 report pairs, repeated)
        nbatches = 1 if q else 4
        for bno in range(nbatches):
            tr = os.path.join(c.work, "conc%d.ndjson" % bno)
            c.run([binp, "conc", str(c.seed * 1000 + bno), str(rounds), str(G), str(P), str(M), tr], timeout=300)
            r = c.tlc("StatusFSM", "StatusTrace", workers=1, dfs=True, files={"observed.ndjson": tr},
                      timeout=900, label="trace%d" % bno, count=False, heap="8g")
            if r.timed_out:
                raise vlib.Inconclusive("trace validation timed out")
            if r.ok:
                c.traces_validated += rounds
                continue
            # locate the rejected round: the high-water mark is printed by the postcondition
            lines = open(tr).read().splitlines()
            hw = None
            for pr in r.out.splitlines():
                if "REJECTED_AT" in pr:
                    hw = int(pr.replace(">>", "").split(",")[1])
            if r.error and r.error[0] == "invariant" or hw is not None:
                at = hw if hw is not None else 1
                start = max(i for i in range(min(at, len(lines))) if '"reset"' in lines[i])
                end = next((i for i in range(start + 1, len(lines)) if '"reset"' in lines[i] or '"end"' in lines[i]), len(lines))
                c.violation("concurrent run not explainable by the status state machine (trace line %d): %s"
                            % (at, lines[start:end][:12]), replay_obj=dict(trace=lines[start:end], at=at - start))
            else:
                raise vlib.Inconclusive("trace validation failed without a verdict: %s" % r.out[-1500:])
        if rounds:
            c.sample(dict(kind="concurrent trace (first round)", lines=open(os.path.join(c.work, "conc0.ndjson")).read().splitlines()[:6]))

    # 4. shared component: TLC-enumerated start / report / stop scripts over two logical instances, replayed through the
    #    real sharedcomponent wrapper feeding the real status reporter; delivered events per instance compared per step
    if not c.replay:
        n = c.pick(5, 6)
        cfg = """SPECIFICATION SSpec
CONSTANTS
  Inst = {"i1", "i2"}
  NSteps = %d
INVARIANT EmitShared
INVARIANT SharedPath
INVARIANT SharedDeliversToAll
CHECK_DEADLOCK FALSE
""" % n
        r = c.tlc("StatusFSM", "SharedComponent", cfg_text=cfg, workers=1, timeout=900, label="shared_gen_n%d" % n, heap="8g")
        if not r.ok or not r.printed:
            raise vlib.Inconclusive("shared component spec/generator failed: %s %s" % (r.error, (r.trace_text or r.out)[-1500:]))
        f = os.path.join(c.work, "shared.ndjson")
        with open(f, "w") as fh:
            for b in r.printed:
                fh.write(json.dumps(b, separators=(",", ":")) + "\n")
        out = os.path.join(c.work, "shared_res.json")
        c.run([binp, "shared", f, out], timeout=600)
        res = json.load(open(out))
        if res["behaviours"] != len(r.printed):
            raise vlib.Inconclusive("shared driver replayed %d of %d" % (res["behaviours"], len(r.printed)))
        for m in (res.get("mismatches") or [])[:5]:
            c.violation("shared component: delivered events differ after step %d: specified %s, real %s; steps=%s" % (
                m["step"], m["want"], m["got"], [(s["op"], s["inst"] or s["st"], s["fails"]) for s in m["steps"][:m["step"] + 1]]),
                replay_obj=dict(kind="shared", steps=m["steps"]))
        c.traces_validated += len(r.printed)
        total += len(r.printed)
        c.sample(dict(kind="shared component script", steps=r.printed[len(r.printed) // 2]))
        c.log("shared component: %d scripts replayed, %d mismatches" % (len(r.printed), len(res.get("mismatches") or [])))

    # 4b. shared component under concurrency: the component reports from its own goroutine while a second instance attaches
    if not c.replay:
        rounds = c.pick(20000, 100000)
        tr = os.path.join(c.work, "sharedconc.ndjson")
        c.run([binp, "sharedconc", str(c.seed), str(rounds), tr], timeout=900)
        r = c.tlc("StatusFSM", "SharedConcTrace", cfg="SharedConcTrace.cfg", workers=1, files={"observed.ndjson": tr}, timeout=900,
                  count=False, label="sharedconc", heap="8g")
        if not r.ok:
            raise vlib.Inconclusive("shared-component concurrency monitor failed: %s %s" % (r.error, r.out[-1500:]))
        for v in r.printed[:3]:
            c.violation("shared component under concurrency: the late-attached instance was not handed the history up to one point of the "
                        "report sequence followed by every later report in order: reported %s, first instance got %s, late instance got %s"
                        % (v["r"], v["q1"], v["q2"]), replay_obj=dict(kind="sharedconc", round=v))
        c.extra["sharedconc_unexplained_rounds"] = len(r.printed)
        c.traces_validated += rounds
        total += rounds
        c.log("shared component, concurrent attach: %d rounds, %d unexplained" % (rounds, len(r.printed)))

    # 5. service level: a real service (graph.go, host.go, extensions.go) with components reporting from their own goroutines;
    #    every event delivered to a StatusWatcher extension must be a legal step of its instance's state machine
    if not c.replay:
        rounds = c.pick(300, 3000)
        tr = os.path.join(c.work, "svc.ndjson")
        c.run([binp, "svc", str(c.seed), str(rounds), tr], timeout=900)
        r = c.tlc("StatusFSM", "StatusSvcTrace", cfg="StatusSvcTrace.cfg", workers=1, files={"observed.ndjson": tr}, timeout=900,
                  count=False, label="svc_trace", heap="8g")
        if r.timed_out:
            raise vlib.Inconclusive("service-level trace validation timed out")
        if r.ok:
            c.traces_validated += rounds
            total += rounds
            c.log("service level: %d lifetimes, every delivered event a legal step" % rounds)
        else:
            lines = open(tr).read().splitlines()
            hw = [l for l in r.out.splitlines() if "REJECTED_AT" in l]
            if not hw and not (r.error and r.error[0] == "invariant"):
                raise vlib.Inconclusive("service-level trace validation failed: %s %s" % (r.error, r.out[-1500:]))
            at = int(hw[0].replace(">>", "").split(",")[1]) if hw else 1
            start = max(i for i in range(min(at, len(lines))) if '"reset"' in lines[i])
            c.violation("service-level status events are not a path of the state machine: round starting at line %d, offending event %s; "
                        "events so far %s" % (start + 1, lines[min(at - 1, len(lines) - 1)], lines[start + 1:at][-12:]),
                        replay_obj=dict(kind="svc", trace=lines[start:at + 1]))
        c.sample(dict(kind="service-level events (first round)", lines=open(tr).read().splitlines()[:12]))

    c.evaluations = total
    c.assumptions += ["Go sync.Mutex serialises reports (callbacks run under the reporter mutex)",
                      "transition relation = docs/component-status.md as implemented; deviations named in StatusFSM.tla"]
    c.finish_args = dict(rule="every report sequence of the stated length over 9 report kinds (8 statuses + okIfStarting) "
                              "and the stated instances, enumerated by TLC; non-trivial = at least 2 delivered events",
                         distinct_nontrivial=nontrivial)
