"""E04 (extra specification, beyond the listed properties) -- what a service tells its extensions, and when.

title      Extension capability callbacks follow the documented service life cycle
statement  PipelineWatcher.Ready is delivered to an extension only after every pipeline component (in particular every
           receiver) has been started, at most once, and -- when service.Start succeeds -- to every extension that
           implements it; NotReady is delivered before any receiver is shut down, at most once, and to every extension
           that had been told Ready before service.Shutdown returns.  ConfigWatcher.NotifyConfig hands every watcher,
           once, a configuration whose content equals the collector configuration the service was given and that the
           extension owns (what it does to it is seen by nobody else).  No method of an extension -- Ready, NotReady,
           NotifyConfig, ComponentStatusChanged -- is called after its Shutdown has returned.
quantifier for every set of extensions with every combination of capabilities (PipelineWatcher, ConfigWatcher, status
           Watcher), every acyclic dependency declaration, with and without a collector configuration, and every choice of
           failing calls (Start / Shutdown of extensions and pipeline components, Ready, NotReady, NotifyConfig)
anchors    service/service.go Start, Shutdown; service/extensions/extensions.go Start, Shutdown, NotifyPipelineReady,
           NotifyPipelineNotReady, NotifyConfig, NotifyComponentStatusChange; service/host.go;
           extension/extensioncapabilities/interfaces.go (the documentation the statement is written from);
           component/component.go ("No other methods of the component are called after [Shutdown returns]")
left open  (documentation silent, nothing is reported): order of notification among extensions; NotReady without Ready
           (sent after a failed start-up); callbacks reaching an extension whose Start was never called or failed;
           what an error returned by a callback does.

Spec: specs/ServiceNotify (ServiceNotifyObs = observable layer + the statement, ServiceNotify = implementation-shaped
model, ServiceNotifyMC, ServiceNotifyGen, ServiceNotifyTrace = monitor).  Binding: harness/svcnotify (real service.New /
Start / Shutdown through the public API, instrumented extensions of all eight capability combinations).
  1. TLC exhaustive design check: the repaired design (NotifyStopped = FALSE) satisfies every clause; the pinned design
     (NotifyStopped = TRUE) is expected to break NoCallAfterShutdown (recorded; never a verdict by itself).
  2. TLC prints every configuration part (initial states) of the bounded space; a seeded sample is run on the real
     service; every call the service makes on an extension or pipeline component is logged under one mutex.
  3. TLC (ServiceNotifyTrace) evaluates the clauses on every recorded lifetime.  That is the verdict.
"""
import json, os
import vlib

SIG_LATE = "E04-status-event-delivered-to-extension-after-its-shutdown"


def mc_cfg(exts, seq, maxfail, notify_stopped, invs="NothingBroken NoStuck DepsFirst", spec="Spec"):
    return """SPECIFICATION %s
CONSTANTS
  Exts = {%s}
  ExtSeq <- %s
  Rcvs = {"r1", "r2"}
  MaxFail = %d
  NotifyStopped = %s
INVARIANTS %s
CHECK_DEADLOCK FALSE
""" % (spec, ", ".join('"%s"' % x for x in exts), seq, maxfail, "TRUE" if notify_stopped else "FALSE", invs)


def normalise(e):
    return dict(ev=e["ev"], id=e.get("id", ""), n=e.get("n", ""), ok=bool(e.get("ok")), equal=bool(e.get("equal")),
                own=bool(e.get("own")), conf=bool(e.get("conf")), exts=e.get("exts") or [], rcvs=e.get("rcvs") or [],
                comps=e.get("comps") or [], pw=e.get("pw") or [], cw=e.get("cw") or [], sw=e.get("sw") or [])


def describe(sc):
    return "exts=%s pw=%s cw=%s sw=%s deps=%s conf=%s fail=%s" % (
        sc["exts"], sc["pw"], sc["cw"], sc["sw"], {k: v for k, v in sc["deps"].items() if v}, sc["conf"], sc["fail"])


def run(c):
    q = c.quick()
    # 1. design: every clause for the repaired forwarding; action coverage (vacuity) on the one-extension universe
    c.tlc_must_pass("ServiceNotify", "ServiceNotifyMC", cfg_text=mc_cfg(["x1"], "Seq1", 2, False), coverage=True,
                    timeout=900, label="design_1ext_2fail", workers=min(8, vlib.NCPU))
    c.tlc_must_pass("ServiceNotify", "ServiceNotifyMC", cfg_text=mc_cfg(["x1", "x2"], "Seq2", 1, False),
                    timeout=900, label="design_2ext", workers=min(12, vlib.NCPU))
    if not q:
        c.tlc_must_pass("ServiceNotify", "ServiceNotifyMC", cfg_text=mc_cfg(["x1", "x2"], "Seq2", 2, False),
                        timeout=2400, label="design_2ext_2fail", workers=min(12, vlib.NCPU))
    rp = c.tlc("ServiceNotify", "ServiceNotifyMC", cfg_text=mc_cfg(["x1"], "Seq1", 0, True), timeout=600,
               label="design_pinned", workers=4, count=False)
    c.extra["model_of_pinned_status_forwarding"] = "counterexample: %s" % (rp.error,) if rp.error else "no counterexample"
    if not (rp.error and rp.error[0] == "invariant" and rp.error[1] == "NothingBroken"):
        raise vlib.Inconclusive("the model of the pinned status forwarding no longer shows the late call: %s" % (rp.error,))

    binp = c.go_build("svcnotify", pkg="./cmd")
    # 2. scripts
    if c.replay:
        scripts = [json.load(open(c.replay))["replay"]["script"]]
    else:
        scripts = []
        for exts, seq, mf in ([(["x1", "x2"], "Seq2", 1)] if q else [(["x1", "x2"], "Seq2", 2), (["x1", "x2", "x3"], "Seq3", 0)]):
            r = c.tlc("ServiceNotify", "ServiceNotifyGen", cfg_text=mc_cfg(exts, seq, mf, False, invs="Emit", spec="GenSpec"),
                      workers=1, timeout=1500, label="gen_%dext" % len(exts), count=False, heap="8g")
            if not r.ok or not r.printed:
                raise vlib.Inconclusive("generator failed: %s\n%s" % (r.error, r.out[-1200:]))
            pool = r.printed
            c.log("generator: %d configurations with %d extensions" % (len(pool), len(exts)))
            cap = 1800 if q else 20000
            if len(pool) > cap:
                pool = c.rng.sample(pool, cap)
            for b in pool:
                scripts.append(dict(exts=exts, pw=sorted(b["pw"]), cw=sorted(b["cw"]), sw=sorted(b["sw"]),
                                    deps={x: sorted(b["deps"].get(x, [])) for x in exts} if isinstance(b["deps"], dict) else {x: [] for x in exts},
                                    conf=b["conf"], fail=[list(f) for f in b["fail"]]))
    for k, sc in enumerate(scripts):
        sc["id"] = "s%d" % k
    # 3. run + monitor
    sf, tf = os.path.join(c.work, "scripts.ndjson"), os.path.join(c.work, "events.ndjson")
    vlib.write_ndjson(sf, scripts)
    c.run([binp, "run", sf, tf], timeout=1500)
    events = vlib.read_ndjson(tf)
    bad_h = [e for e in events if e["ev"] == "harness_error"]
    if bad_h:
        raise vlib.Inconclusive("driver could not run a script: %s" % bad_h[0])
    nres = sum(1 for e in events if e["ev"] == "reset")
    if nres != len(scripts):
        raise vlib.Inconclusive("driver recorded %d lifetimes for %d scripts" % (nres, len(scripts)))
    byid = {sc["id"]: sc for sc in scripts}
    # batches of <= 40000 lines (one state per line; TLC handles behaviours of up to 65535 states)
    batches, cur = [], []
    for e in events:
        if e["ev"] == "reset" and len(cur) > 40000:
            batches.append(cur)
            cur = []
        cur.append(normalise(e))
    batches.append(cur)
    viol = []
    for k, lines in enumerate(batches):
        f = os.path.join(c.work, "observed_%d.ndjson" % k)
        vlib.write_ndjson(f, lines)
        r = c.tlc("ServiceNotify", "ServiceNotifyTrace", workers=1, files={"observed.ndjson": f}, timeout=1800,
                  label="monitor_%d" % k, count=False, heap="4g", tag="VERDICT")
        if r.timed_out or r.error or len(r.printed) != 1 or r.printed[0]["lines"] != len(lines):
            raise vlib.Inconclusive("monitor failed: %s\n%s" % (r.error, r.out[-1500:]))
        viol += r.printed[0]["viol"]
        c.evaluations += len(lines)
    per = {}
    for v in viol:
        per.setdefault(v["c"], []).append(v)
    for clause, vs in sorted(per.items()):
        c.log("broken: %-28s in %d lifetimes" % (clause, len(vs)))
        for v in vs[:3]:
            sc = byid[v["t"]]
            c.violation("%s broken by the real service: %s" % (clause, describe(sc)), replay_obj=dict(script=sc, clause=clause),
                        signature=SIG_LATE if clause == "NoCallAfterShutdown" else None)
    c.extra["broken_clauses"] = {k: len(v) for k, v in per.items()}
    c.traces_validated += len(scripts) - len({v["t"] for v in viol})
    nontrivial = sum(1 for sc in scripts if sc["fail"] and (sc["pw"] or sc["cw"] or sc["sw"]))
    ex = scripts[len(scripts) // 2]
    c.sample(dict(kind="script", script=ex))
    c.sample(dict(kind="recorded calls of the first lifetime", events=["%s %s%s" % (e["ev"], e.get("n", ""), "" if e["ev"] not in ("xstart_end", "cstart_end", "svc_start_end", "svc_stop_end") else (" ok" if e.get("ok") else " FAILED"))
                                                                        for e in events[1:40] if e["ev"] != "status"][:30]))
    c.exhaustive = len(scripts) < 2500 if q else False
    c.assumptions += ["the pipeline is fixed (r1, r2 -> p1 -> e1, logs); the order inside StartAll / ShutdownAll is C10's subject",
                      "calls are sequential (service.Start / Shutdown run on one goroutine); the log order is the call order",
                      "`owned` is decided at the end of the lifetime: every ConfigWatcher merges a key of its own into what it was given; "
                      "no other watcher's copy and not the service's collector configuration may show it"]
    c.finish_args = dict(rule="every configuration part of ServiceNotify.tla in the bounds (capability sets x dependencies x conf x "
                              "<= MaxFail failing calls), sampled with the seed above the cap; non-trivial = a failing call and at "
                              "least one capability", distinct_nontrivial=nontrivial)
