"""C20 -- collector run loop: one live service at a time, orderly reload, ends Closed.
Spec: specs/Collector (CollectorObs = the property, Collector = run loop model, CollectorMC / Gen / Trace).
Binding: harness/collector/c20 (real otelcol.Collector, public API, no hook).

  1. TLC exhaustive design check of Collector.tla with the fatal error handed over asynchronously
     (Blocking = FALSE: the repaired design): every clause of CollectorObs is an invariant.
  2. TLC explores the same model for both ways of handing the error over (Blocking = TRUE is the pinned
     tree) and prints the environment history of every behaviour that ended, with the clauses that
     are broken in its last state.  Behaviours are projected to scripts: external events + the callback
     of the run loop at which they happened + scripted failures.  Counterexamples of the model are
     scripts like all others: nothing is reported unless the real collector misbehaves.
  3. The scripts are run against the real collector (several driver processes, one collector at a
     time per process); every run is logged under one mutex.
  4. TLC evaluates the clauses of CollectorObs on every log (CollectorTrace.tla).  That is the verdict.
     A watchdog expiry (>= 20 s, with a goroutine dump) is re-run before it is reported.
"""
import hashlib, json, os, re, subprocess, time
import vlib

WATCHDOG = 20


# ---------------------------------------------------------------------- helpers
def cfg(seq, maxgen, maxenv, maxfail, blocking, invariants, view=True, safewatch=None, watch=False):
    if safewatch is None:
        safewatch = not blocking        # pinned tree: blocking send + unsafe close; repaired: neither
    n = {2: ("Seq2", "Set2"), 3: ("Seq3", "Set3"), 4: ("Seq4", "Set4")}[seq]
    t = ["SPECIFICATION Spec", "CONSTANTS", "  CompSeq <- %s" % n[0], "  Comps <- %s" % n[1],
         "  MaxGen = %d" % maxgen, "  MaxEnv = %d" % maxenv, "  MaxFail = %d" % maxfail,
         "  Blocking = %s" % ("TRUE" if blocking else "FALSE"),
         "  SafeWatch = %s" % ("TRUE" if safewatch else "FALSE"), "  Nobody = Nobody"]
    if watch:       # directed: only the configuration watch talks to the collector; every history is kept
        t.append("  EnvNext <- WatchEnvNext")
    elif view:
        t.append("VIEW view")
    else:       # random simulation: bias the choice of actions (see CollectorGen.tla)
        t += ["  EnvGate <- SimEnvGate", "  FailGate <- SimFailGate", "  TimeoutGate <- SimTimeoutGate"]
    t += ["INVARIANT " + i for i in invariants]
    t.append("CHECK_DEADLOCK FALSE")
    return "\n".join(t) + "\n"


CLAUSES = ["InvStateOrder", "InvEndsClosed", "InvServiceShutdownOnce", "InvProvidersShutdownOnce", "InvNoOverlap",
           "InvFailedBringUpCleansUp", "InvShutdownIdempotent", "InvRunReturns", "InvNotifySafe"]
COMPS = {2: ["e1", "r1"], 3: ["x", "e1", "r1"], 4: ["x", "e1", "r1", "r2"]}


def build(c):
    return c.go_build("collector", pkg="./c20")


def project(beh, comps, salt=0):
    """environment history of a model behaviour -> script for the driver"""
    fail, steps = [], []
    for e in beh["h"]:
        if e["k"] == "fail":
            fail.append(e["c"])
            continue
        if e["at"] == "post":
            continue            # the driver always calls Shutdown() again after Run returned
        inj = {"k": e["k"]}
        if e["k"] == "sigterm" and (len(steps) + salt) % 2:
            inj["k"] = "sigint"         # the model has one termination signal; the code treats both alike
        if e["k"] == "fatal":
            inj["c"] = e["c"]
        if e["k"] == "shutdown":
            # Shutdown() from 4..8 goroutines that the driver releases together through a spin barrier
            inj["n"] = 4 + (len(steps) + len(fail) + salt) % 5
        key = (e["at"], e["v"])
        if steps and steps[-1]["key"] == key:
            steps[-1]["ev"].append(inj)
        else:
            steps.append({"at": e["at"], "key": key, "ev": [inj]})
    out = []
    for s in steps:
        out.append({"at": s["at"], "conc": s["at"] == "idle" and len(s["ev"]) > 1, "ev": s["ev"]})
    sc = {"comps": comps, "fail": fail, "steps": out}
    sc["id"] = hashlib.sha1(json.dumps(sc, sort_keys=True).encode()).hexdigest()[:12]
    return sc


def generate(c, label, seq, maxgen, maxenv, maxfail, blocking, simulate=None, depth=None, timeout=600, watch=False):
    r = c.tlc("Collector", "CollectorGen", cfg_text=cfg(seq, maxgen, maxenv, maxfail, blocking, ["Emit"],
                                                        view=simulate is None, watch=watch),
              workers=1, timeout=timeout, label=label, count=False, simulate=simulate, depth=depth,
              seed=c.seed if simulate else None, heap="6g")
    if r.timed_out or (r.error and not simulate):
        raise vlib.Inconclusive("generator %s failed: %s %s" % (label, r.error, r.out[-800:]))
    if not r.printed:
        raise vlib.Inconclusive("generator %s printed nothing\n%s" % (label, r.out[-800:]))
    return r.printed


def run_scripts(c, binp, scripts, label, shards, watchdog=WATCHDOG):
    """run the scripts in `shards` driver processes; returns list of (script, [events])"""
    shards = max(1, min(shards, len(scripts)))
    procs = []
    for k in range(shards):
        part = scripts[k::shards]
        sf = os.path.join(c.work, "%s_scripts_%d.ndjson" % (label, k))
        tf = os.path.join(c.work, "%s_trace_%d.ndjson" % (label, k))
        vlib.write_ndjson(sf, part)
        p = subprocess.Popen([binp, "run", sf, tf, str(watchdog)], stdout=subprocess.PIPE, stderr=subprocess.PIPE,
                             text=True, cwd=c.work)
        procs.append((p, part, tf))
    res = []
    deadline = time.time() + 60 + 3 * watchdog + 0.3 * len(scripts)
    for p, part, tf in procs:
        try:
            out, err = p.communicate(timeout=max(5, deadline - time.time()) + 4.0 * len(part))
        except subprocess.TimeoutExpired:
            p.kill()
            raise vlib.Inconclusive("driver %s did not finish" % label)
        if p.returncode != 0:
            raise vlib.Inconclusive("driver %s failed rc=%s\n%s" % (label, p.returncode, err[-3000:]))
        traces = split_traces(vlib.read_ndjson(tf))
        if len(traces) != len(part):
            raise vlib.Inconclusive("driver %s recorded %d traces for %d scripts" % (label, len(traces), len(part)))
        for sc, tr in zip(part, traces):
            if tr[0]["id"] != sc["id"]:
                raise vlib.Inconclusive("driver %s: trace/script mismatch" % label)
            for e in tr:
                if e["ev"] == "harness_error" or (e["ev"] == "skip" and "not observed" in e.get("why", "")):
                    raise vlib.Inconclusive("driver %s could not run %s: %s" % (label, describe(sc), e))
            res.append((sc, tr))
    return res


def split_traces(events):
    out = []
    for e in events:
        if e["ev"] == "reset":
            out.append([])
        out[-1].append(e)
    return out


def normalise(tr):
    """recorder lines -> lines for CollectorTrace.tla (format only; see the module header)"""
    out, cut = [], False
    for e in tr:
        ev = e["ev"]
        if cut and ev != "end":
            continue
        n = dict(ev=ev, st=e.get("st", "Starting"), id="", comps=[], gen=e.get("gen", 0), comp=e.get("comp", ""),
                 ok=not e.get("err", False), reg=bool(e.get("reg", False)),
                 kind="sigterm" if e.get("kind") == "sigint" else e.get("kind", ""), iid=e.get("iid", 0), bad=False)
        if ev == "reset":
            n["id"], n["comps"], n["st"] = e["id"], e["script"]["comps"], "Starting"
        elif ev == "retrieve":
            n["ok"] = not e.get("broken", False)
        elif ev == "ext_done":
            n["bad"] = e.get("panics", 0) > 0 or bool(e.get("blocked"))
        elif ev == "notify_done":
            n["bad"] = bool(e.get("panic"))
        elif ev == "timeout":
            cut = True
        out.append(n)
    return out


def monitor(c, results, label):
    """TLC evaluates the clauses on every trace; returns {trace id: [(clause, line in trace)]}"""
    from concurrent.futures import ThreadPoolExecutor
    # one state per line, and TLC handles behaviours of up to 65535 states: batches of <= ~40000 lines
    nlines = sum(len(tr) for _, tr in results)
    nb = max(1, nlines // 40000 + 1)
    batches = [results[k::nb] for k in range(nb)]

    def one(k):
        lines, start = [], {}
        for sc, tr in batches[k]:
            start[sc["id"]] = len(lines)
            lines += normalise(tr)
        f = os.path.join(c.work, "%s_observed_%d.ndjson" % (label, k))
        vlib.write_ndjson(f, lines)
        r = c.tlc("Collector", "CollectorTrace", workers=1, files={"observed.ndjson": f}, timeout=1800,
                  label="%s_%d" % (label, k), count=False, heap="4g", tag="VERDICT")
        if r.timed_out or r.error or len(r.printed) != 1:
            raise vlib.Inconclusive("trace validation %s failed: %s\n%s" % (label, r.error, r.out[-1500:]))
        v = r.printed[0]
        if v["lines"] != len(lines):
            raise vlib.Inconclusive("trace validation %s read %s of %d lines" % (label, v["lines"], len(lines)))
        return len(lines), [(x["t"], x["c"], x["l"] - start[x["t"]]) for x in v["viol"]]

    with ThreadPoolExecutor(max(1, min(6, vlib.NCPU // 3))) as ex:
        outs = list(ex.map(one, range(nb)))
    bad = {}
    for n, viol in outs:
        c.evaluations += n
        for t, cl, l in viol:
            bad.setdefault(t, []).append((cl, l))
    return bad


def strict(c, results, label, limit):
    """strict conformance of a sample of the logs with Collector.tla (CollectorStrict.tla); returns the
    number of logs that the model follows; logs it cannot follow are reported as model drift"""
    from concurrent.futures import ThreadPoolExecutor
    groups = {}
    for sc, tr in results:
        if any(e["ev"] == "timeout" for e in tr):
            continue
        groups.setdefault(len(sc["comps"]), []).append((sc, tr))
    jobs = []
    for ncomp, grp in sorted(groups.items()):
        grp = grp[:max(1, limit * len(grp) // max(1, len(results)))]
        nb = max(1, len(grp) // 150)       # TLC handles behaviours of up to 65535 states
        jobs += [(ncomp, grp[k::nb], "%s_%d_%d" % (label, ncomp, k)) for k in range(nb)]

    def one(job):
        ncomp, grp, lab = job
        followed, drift = 0, []
        for attempt in range(4):
            if not grp:
                break
            lines, owner = [], []
            for sc, tr in grp:
                nl = normalise(tr)
                lines += nl
                owner += [sc["id"]] * len(nl)
            f = os.path.join(c.work, "%s_observed_%d.ndjson" % (lab, attempt))
            vlib.write_ndjson(f, lines)
            text = cfg(ncomp, 8, 60, 60, False, ["ModelProperty"], view=True).replace("SPECIFICATION Spec", "SPECIFICATION SSpec") \
                .replace("VIEW view\n", "") \
                .replace("  Nobody = Nobody", "  Nobody = Nobody\n  CreateComp <- LogComp\n  StartComp <- LogComp\n  StopComp <- LogComp\n"
                                             "  MaxBlocked <- StrictMaxBlocked") \
                + "CONSTRAINT HighWater\nPOSTCONDITION Accepted\n"
            r = c.tlc("Collector", "CollectorStrict", cfg_text=text, workers=1, files={"observed.ndjson": f},
                      timeout=1500, label="%s_%d" % (lab, attempt), count=False, heap="4g")
            if r.timed_out:
                raise vlib.Inconclusive("strict conformance %s timed out" % lab)
            if r.ok:
                followed += len(grp)
                break
            hw = None
            for pr in r.out.splitlines():
                if "REJECTED_AT" in pr:
                    hw = int(pr.replace(">>", "").split(",")[1])
            if hw is None:
                if r.error and r.error[0] == "invariant":
                    drift.append(("(model property)", "the model's own observation record breaks %s" % r.error[1]))
                    break
                raise vlib.Inconclusive("strict conformance %s failed without a position: %s" % (lab, r.out[-1200:]))
            tid = owner[min(hw, len(owner)) - 1]
            at = lines[min(hw, len(lines)) - 1]
            drift.append((tid, "line %d of its log: %s" % (hw - owner.index(tid), {k: v for k, v in at.items() if v not in ("", [], 0, False)})))
            k = [sc["id"] for sc, _ in grp].index(tid)
            followed += k                      # the logs before it were followed
            grp = grp[k + 1:]
        return followed, drift, len(job[1])

    with ThreadPoolExecutor(max(1, min(6, vlib.NCPU // 3, len(jobs)))) as ex:
        outs = list(ex.map(one, jobs))
    followed = sum(o[0] for o in outs)
    total = sum(o[2] for o in outs)
    by_id = {sc["id"]: sc for sc, _ in results}
    for _, drift, _ in outs:
        for tid, what in drift:
            c.model_drift("Collector.tla cannot follow the real run of [%s] at %s" % (describe(by_id[tid]) if tid in by_id else tid, what))
    return followed, total


def burst_class(sc):
    """where the first Shutdown() burst of a script happens (the only one that can find the channel open)"""
    for st in sc["steps"]:
        if any(i["k"] == "shutdown" for i in st["ev"]):
            a = st["at"].split(":")
            if a[0] == "pre":
                return "before Run"
            if a[0] == "idle":
                return "Running"
            if a[0] in ("get", "create", "start"):
                return "Starting" if a[1] == "1" else "Starting during a reload"
            return "Closing"
    return None


def burst_family(pool, per_class, replicas):
    """Concurrent Shutdown() calls race inside the collector: whether a burst exposes a fault is a matter of
    chance, so the simplest generated scripts of every class are run many times (replicas differ in the
    number of callers, 4..8, and in a `rep` field the driver ignores)."""
    by = {}
    for sc in pool:
        k = burst_class(sc)
        if k:
            by.setdefault(k, []).append(sc)
    out = []
    for k in sorted(by):
        for base in sorted(by[k], key=weight)[:per_class]:
            for r in range(replicas):
                sc = json.loads(json.dumps(base))
                sc["rep"] = r
                for st in sc["steps"]:
                    for i in st["ev"]:
                        if i["k"] == "shutdown":
                            i["n"] = 4 + r % 5
                sc["id"] = hashlib.sha1(json.dumps({x: sc[x] for x in ("comps", "fail", "steps", "rep")},
                                                   sort_keys=True).encode()).hexdigest()[:12]
                out.append(sc)
    return out, sorted(by)


def watch_only(sc):
    kinds = {i["k"] for st in sc["steps"] for i in st["ev"]}
    return "change_err" in kinds and kinds <= {"change", "change_err", "sighup"}


def queued_then_err(sc):
    flat = [(st["at"].split(":")[0], i["k"]) for st in sc["steps"] for i in st["ev"]]
    for a in range(len(flat)):
        if flat[a][1] in ("change", "sighup"):
            for b in range(a + 1, len(flat)):
                if flat[b][0] in ("idle", "pre", "post"):
                    break
                if flat[b][1] == "change_err" and flat[a][0] not in ("idle", "pre", "post"):
                    return True
    return False


def shape(sc, is_counterexample):
    kinds = sorted({i["k"] for st in sc["steps"] for i in st["ev"]})
    anchors = sorted({st["at"].split(":")[0] + (":g2+" if st["at"].count(":") and st["at"].split(":")[1] not in ("1",) else "")
                      for st in sc["steps"]})
    fails = sorted({f.split(":")[0] + (":g2+" if f.split(":")[1] != "1" else "") for f in sc["fail"]})
    return (tuple(kinds), tuple(anchors), tuple(fails), is_counterexample, len(sc["comps"]))


def weight(sc):
    """prefer scripts whose interleaving is pinned by callbacks (no concurrent injection), then small ones"""
    return (any(st.get("conc") for st in sc["steps"]), len(json.dumps(sc)))


def describe(sc):
    s = []
    for st in sc["steps"]:
        s.append("%s[%s]" % (st["at"], ("|" if st.get("conc") else ",").join(
            i["k"] + (":" + i["c"] if "c" in i else "") for i in st["ev"])))
    return "comps=%s fail=%s steps=%s" % ("".join(sc["comps"]), sc["fail"], " ".join(s))


def signature_of(clause, tr):
    if clause == "RunReturns":
        for e in tr:
            if e["ev"] == "timeout":
                return e.get("sig", "timeout")
    if clause == "NotifySafe":
        for e in tr:
            if e["ev"] == "notify_done" and e.get("panic"):
                return "Resolver.onChange: " + str(e.get("text", "panic"))
    return None


# ---------------------------------------------------------------------- the check
def run(c):
    q = c.quick()
    ncpu = vlib.NCPU
    shards = max(2, min(8, ncpu // 2))

    # 1. design: the repaired hand-over of fatal errors and the repaired watcher close; every clause
    seq, mg, me, mf = 3, 2, 3, 1
    c.tlc_must_pass("Collector", "CollectorMC", cfg_text=cfg(seq, mg, me, mf, False, ["TypeOK"] + CLAUSES),
                    coverage=True, timeout=1500, label="design", workers=min(12, ncpu),
                    vacuous_ok=("FatalUnlock",))        # FatalUnlock belongs to the blocking send only
    deep = []
    if not q:
        deep = [("design_6_events", (3, 3, 6, 2)), ("design_4_components", (4, 3, 5, 2)), ("design_3_reloads", (2, 4, 6, 3))]
        for label, k in deep:
            c.tlc_must_pass("Collector", "CollectorMC", cfg_text=cfg(*k, False, ["TypeOK"] + CLAUSES),
                            timeout=2400, label=label, workers=min(12, ncpu))
    # the two pinned mechanisms, one at a time: TLC is expected to find the deadlock (blocking send under
    # the reporter mutex) and the panic (watcher channel closed under a notifier).  Recorded in the
    # evidence; never a verdict by itself (their counterexamples become scripts in step 2).
    rb = c.tlc("Collector", "CollectorMC", cfg_text=cfg(3, 2, 3, 1, True, ["TypeOK"] + CLAUSES, safewatch=True),
               timeout=600, label="design_blocking_send", workers=min(12, ncpu), count=False)
    c.extra["model_with_blocking_send"] = "counterexample: %s" % (rb.error,) if rb.error else "no counterexample"
    rn = c.tlc("Collector", "CollectorMC", cfg_text=cfg(3, 2, 3, 1, False, ["TypeOK"] + CLAUSES, safewatch=False),
               timeout=600, label="design_unsafe_close", workers=min(12, ncpu), count=False)
    c.extra["model_with_unsafe_watcher_close"] = "counterexample: %s" % (rn.error,) if rn.error else "no counterexample"
    if not (rb.error and rb.error[0] == "invariant" and rb.error[1] == "InvRunReturns"):
        raise vlib.Inconclusive("the model of the blocking send no longer shows the deadlock: %s" % (rb.error,))
    if not (rn.error and rn.error[0] == "invariant" and rn.error[1] == "InvNotifySafe"):
        raise vlib.Inconclusive("the model of the unsafe watcher close no longer shows the panic: %s" % (rn.error,))

    binp = build(c)

    # 2. scripts
    if c.replay:
        scripts = [json.load(open(c.replay))["replay"]["script"]]
        counter = set()
    else:
        behs = []
        gens = [("genB", 3, 2, 3, 1, True, None, None), ("genF", 3, 2, 3, 1, False, None, None)]
        if q:
            gens += [("simB", 4, 3, 5, 2, True, "num=300", 90), ("simF", 4, 3, 5, 2, False, "num=300", 90)]
        else:
            gens += [("genB4", 4, 2, 4, 1, True, None, None), ("genF3", 3, 3, 4, 2, False, None, None),
                     ("simB", 4, 4, 7, 3, True, "num=4000", 140), ("simF", 4, 4, 7, 3, False, "num=4000", 140)]
        for label, sq, g, e, f, blocking, sim, depth in gens:
            pr = generate(c, label, sq, g, e, f, blocking, simulate=sim, depth=depth, timeout=900)
            behs += [(b, COMPS[sq]) for b in pr]
            c.log("generator %s: %d behaviours" % (label, len(pr)))
        seen, scripts, counter = {}, [], set()
        for k, (b, comps) in enumerate(behs):
            sc = project(b, comps, salt=c.seed)
            if sc["id"] not in seen:
                seen[sc["id"]] = sc
                scripts.append(sc)
            if b.get("bad"):
                counter.add(sc["id"])
        pool = list(scripts)
        limit = 1500 if q else 20000
        if len(scripts) > limit:
            # stratified sample: round-robin over the "shapes" of the scripts (kinds of events, kinds
            # of anchors, kinds of failures, counterexample of the model or not), so that no family
            # (e.g. the many ways of placing fatal errors) crowds out the others
            buckets = {}
            c.rng.shuffle(scripts)
            for sc in scripts:
                buckets.setdefault(shape(sc, sc["id"] in counter), []).append(sc)
            order = sorted(buckets, key=str)
            c.rng.shuffle(order)
            scripts = []
            while len(scripts) < limit:
                for k in order:
                    if buckets[k] and len(scripts) < limit:
                        scripts.append(buckets[k].pop())
            c.extra["script_shapes"] = len(order)
        bursts, classes = burst_family(pool, 3, 12 if q else 60)
        scripts += bursts
        # watch errors as the ONLY stop reason (nothing else can end the run and mask a lost error): a directed
        # generator run in which only the configuration watch talks to the collector, every history kept
        # (no VIEW): every placement of <= 2 (thorough: 3) notifications / SIGHUPs in the run loop
        wb = generate(c, "genW", 2, 3, 2 if q else 3, 0, False, watch=True, timeout=900)
        have = {sc["id"] for sc in scripts}
        cands = {}
        for b in wb:
            sc = project(b, COMPS[2], salt=c.seed)
            if sc["id"] not in have and watch_only(sc):
                cands[sc["id"]] = sc
        cands = sorted(cands.values(), key=weight)
        # ... first those in which the error is raised while an earlier notification cannot have been consumed yet
        # (both made while the run loop is busy bringing a configuration up or down)
        queued = [sc for sc in cands if queued_then_err(sc)]
        rest = [sc for sc in cands if not queued_then_err(sc)]
        c.rng.shuffle(queued)
        c.rng.shuffle(rest)
        watch = queued[:300 if q else 6000] + rest[:200 if q else 4000]
        scripts += watch
        c.extra["watch_only_scripts"] = dict(generated=len(cands), run=len(watch),
                                             error_behind_pending_notification=len(queued[:300 if q else 6000]))
        c.log("watch-only scripts: %d generated, %d run (%d with the error behind a pending notification)"
              % (len(cands), len(watch), len(queued[:300 if q else 6000])))
        c.rng.shuffle(scripts)
        c.extra["scripts"] = len(scripts)
        c.extra["scripts_from_model_counterexamples"] = len([s for s in scripts if s["id"] in counter])
        c.log("%d distinct scripts (%d from counterexamples of the model)" % (len(scripts), len(counter)))

    # 3. run them on the real collector, 4. monitor
    t0 = time.time()
    results = run_scripts(c, binp, scripts, "main", shards)
    c.log("%d scripts run on the real collector in %.1fs (%d driver processes)" % (len(results), time.time() - t0, shards))
    skipped = [sc for sc, tr in results if any(e["ev"] == "skipped" for e in tr)]
    results = [(sc, tr) for sc, tr in results if not any(e["ev"] == "skipped" for e in tr)]
    if skipped:
        c.log("%d scripts with fatal errors were NOT run: their driver process had already shown the same "
              "deadlock (reporter blocked in chan send under the reporter mutex) 8 times" % len(skipped))
        c.extra["scripts_skipped_after_repeated_deadlock"] = len(skipped)
    t0 = time.time()
    bad = monitor(c, results, "mon")
    c.log("monitor: %d lines evaluated by TLC in %.1fs" % (c.evaluations, time.time() - t0))
    by_id = {sc["id"]: (sc, tr) for sc, tr in results}
    # a watchdog expiry that the monitor does not count as a violation means that the driver waited for
    # something the specification does not promise: the script was not judged as intended
    unjudged = [sc for sc, tr in results if any(e["ev"] == "timeout" for e in tr)
                and not any(cl == "RunReturns" for cl, _ in bad.get(sc["id"], []))]
    c.extra["watchdog_expiries_not_counted_as_violation"] = len(unjudged)
    if unjudged:
        c.log("%d watchdog expiries were not violations according to the monitor, e.g. %s" % (len(unjudged), describe(unjudged[0])))
        if len(unjudged) > max(2, len(results) // 200):
            raise vlib.Inconclusive("%d scripts ended in a watchdog expiry that the monitor does not judge, e.g. %s"
                                    % (len(unjudged), describe(unjudged[0])))
    nontrivial = 0
    for sc, tr in results:
        if sum(1 for e in tr if e["ev"] == "ext") >= 2:
            nontrivial += 1
    # re-confirm watchdog expiries once (alone, full bound) before reporting
    # (the smallest script of every distinct blocked call site, in a fresh driver process, so that the
    # full bound applies again)
    redo = {}           # signature -> the (up to 4) smallest scripts that showed it
    for t, v in bad.items():
        if any(cl == "RunReturns" for cl, _ in v):
            sg = signature_of("RunReturns", by_id[t][1])
            redo.setdefault(sg, []).append(by_id[t][0])
    for sg in redo:
        redo[sg] = sorted(redo[sg], key=weight)[:4]
    confirmed = {}      # signature -> reproduced (by at least one of its scripts)
    if redo and not c.replay:
        sample = [sc for sg in sorted(redo, key=str)[:8] for sc in redo[sg]]
        res2 = run_scripts(c, binp, sample, "confirm", min(len(sample), 16))
        bad2 = monitor(c, res2, "mon2")
        for sc, tr in res2:
            again = any(cl == "RunReturns" for cl, _ in bad2.get(sc["id"], []))
            for sg in [k for k, v in redo.items() if any(x["id"] == sc["id"] for x in v)]:
                confirmed[sg] = confirmed.get(sg, False) or again
            c.log("re-run of %s: %s" % (describe(sc), "watchdog expired again" if again else "Run returned"))
    reported = 0
    per_sig = {}
    for tid, v in sorted(bad.items(), key=lambda kv: weight(by_id[kv[0]][0])):   # pinned, small scripts first
        sc, tr = by_id[tid]
        for clause, line in v:
            sig = signature_of(clause, tr)
            if clause == "RunReturns" and not c.replay:
                # a dump that shows the reporter/run-loop deadlock is proof by itself; anything else
                # must have expired again on the re-run
                structural = bool(sig) and sig.startswith("Host.")
                if not confirmed.get(sig) and not structural:
                    raise vlib.Inconclusive("watchdog expiry not reproduced on re-run: %s (%s)" % (describe(sc), sig))
            per_sig[(clause, sig)] = per_sig.get((clause, sig), 0) + 1
            if per_sig[(clause, sig)] > 3:
                continue        # same clause, same call site: three replay files are enough
            what = "%s broken on the real collector at trace line %d: %s" % (clause, line, describe(sc))
            if sig:
                what += " -- " + sig
            for e in tr:
                if e["ev"] == "timeout" and clause == "RunReturns":
                    what += " || state %s, nothing moved for %ss (watchdog %ss); %s" % (
                        e["st"], e.get("waited_s"), e.get("watchdog_s"), "; ".join(e.get("detail", [])))
            # the replay object is the script alone: the same script always maps to the same file
            if c.violation(what, replay_obj=dict(script=sc, clause=clause), signature=sig,
                           replay_path=c.replay if c.replay else None):
                reported += 1
    for (clause, sig), n in sorted(per_sig.items(), key=str):
        c.log("broken: %-22s x%-4d %s" % (clause, n, sig or ""))
    c.extra["broken_clauses"] = {"%s | %s" % k: n for k, n in per_sig.items()}
    # 5. strict conformance of a sample of the logs with the implementation-shaped model
    t0 = time.time()
    good = [(sc, tr) for sc, tr in results if sc["id"] not in bad]
    nfollowed, nstrict = strict(c, good, "strict", 400 if q else 5000)
    c.extra["strict_conformance"] = dict(logs=nstrict, followed_by_Collector_tla=nfollowed)
    c.log("strict conformance: Collector.tla follows %d of %d logs (%.1fs)" % (nfollowed, nstrict, time.time() - t0))
    ok_traces = len([1 for sc, tr in results if sc["id"] not in bad])
    c.traces_validated += ok_traces
    c.log("%d scripts run, %d traces satisfy every clause, %d with broken clauses" % (len(results), ok_traces, len(bad)))
    for sc, tr in results[:2]:
        c.sample(dict(kind="script + recorded trace (abridged)", script=sc,
                      trace=["%s %s %s" % (e["ev"], e.get("st"), {k: v for k, v in e.items() if k in ("gen", "comp", "kind", "err")})
                             for e in tr[1:40]]))
    c.exhaustive = False
    c.extra["constants"] = dict(design=[dict(comps=k[0], MaxGen=k[1], MaxEnv=k[2], MaxFail=k[3])
                                        for k in [(seq, mg, me, mf)] + [k for _, k in deep]], watchdog_s=WATCHDOG)
    c.extra["driver_processes"] = shards
    c.assumptions += [
        "harness components never block by themselves; the run loop's callbacks return once the injected events settled",
        "a Shutdown() request counts as a stop reason only if GetState() was Running/Starting before and after the call "
        "(a request made while a reload is in its Closing phase is dropped by the code; the statement does not decide this)",
        "signals: sent to the own process after the collector installed its handlers (5 ms after the first Running)",
        "orders of create/start/shutdown inside one service are not compared (C10)"]
    c.finish_args = dict(rule="scripts projected from TLC behaviours of Collector.tla (bounded-exhaustive over view-distinct "
                              "end states for the small constants, seeded simulation for the larger ones); non-trivial = "
                              "at least 2 external events were injected", distinct_nontrivial=nontrivial)
