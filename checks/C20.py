"""C20 -- collector run loop: one live service at a time, orderly reload, ends Closed.
Spec: specs/Collector (CollectorObs = the property, Collector = run loop model, CollectorMC / Gen / Trace).
Binding: harness/collector/c20 (real otelcol.Collector, public API, no hook).

  1. TLC exhaustive design check of Collector.tla with the fatal error handed over asynchronously
     (Blocking = FALSE: the repaired design): every clause of CollectorObs is an invariant.
  2. TLC explores the same model for both ways of handing the error over (Blocking = TRUE is the pinned
     tree) and prints the environment history of every behaviour that ended, with the clauses that
     are broken in its last state.  Behaviours are projected to scripts: external events + the callback
     of the run loop at which they happened + scripted failures.  Counterexamples of the model are
     scripts like all others: nothing is reported unless the real collector misbehaves.
  3. The scripts are run against the real collector (several driver processes, one collector at a
     time per process); every run is logged under one mutex.
  4. TLC evaluates the clauses of CollectorObs on every log (CollectorTrace.tla).  That is the verdict.
     A watchdog expiry (>= 20 s, with a goroutine dump) is re-run before it is reported.
"""
import hashlib, json, os, re, subprocess, time
import vlib

WATCHDOG = 20


# ---------------------------------------------------------------------- helpers
def cfg(seq, maxgen, maxenv, maxfail, blocking, invariants, view=True):
    n = {2: ("Seq2", "Set2"), 3: ("Seq3", "Set3"), 4: ("Seq4", "Set4")}[seq]
    t = ["SPECIFICATION Spec", "CONSTANTS", "  CompSeq <- %s" % n[0], "  Comps <- %s" % n[1],
         "  MaxGen = %d" % maxgen, "  MaxEnv = %d" % maxenv, "  MaxFail = %d" % maxfail,
         "  Blocking = %s" % ("TRUE" if blocking else "FALSE"), "  Nobody = Nobody"]
    if view:
        t.append("VIEW view")
    t += ["INVARIANT " + i for i in invariants]
    t.append("CHECK_DEADLOCK FALSE")
    return "\n".join(t) + "\n"


CLAUSES = ["InvStateOrder", "InvEndsClosed", "InvServiceShutdownOnce", "InvProvidersShutdownOnce", "InvNoOverlap",
           "InvFailedBringUpCleansUp", "InvShutdownIdempotent", "InvRunReturns"]
COMPS = {2: ["e1", "r1"], 3: ["x", "e1", "r1"], 4: ["x", "e1", "r1", "r2"]}


def build(c):
    """c.go_build + one replace line vlib does not generate: repo_modules() skips directories
    called testdata, but go.opentelemetry.io/collector/pdata/testdata is a module that
    service/internal/builders (-> processortest) needs."""
    hdir = os.path.join(vlib.VERIF, "harness", "collector")
    vlib.gen_gomod(hdir)
    gm = os.path.join(hdir, "go.mod")
    txt = open(gm).read()
    line = "replace go.opentelemetry.io/collector/pdata/testdata => %s/pdata/testdata" % vlib.REPO
    if line not in txt:
        txt = "\n".join(l for l in txt.splitlines() if "collector/pdata/testdata =>" not in l) + "\n" + line + "\n"
        open(gm, "w").write(txt)
    return c.go_build("collector", pkg="./c20")


def project(beh, comps, salt=0):
    """environment history of a model behaviour -> script for the driver"""
    fail, steps = [], []
    for e in beh["h"]:
        if e["k"] == "fail":
            fail.append(e["c"])
            continue
        if e["at"] == "post":
            continue            # the driver always calls Shutdown() again after Run returned
        inj = {"k": e["k"]}
        if e["k"] == "fatal":
            inj["c"] = e["c"]
        if e["k"] == "shutdown":
            inj["n"] = 1 + (len(steps) + len(fail) + salt) % 3      # Shutdown() from 1..3 goroutines
        key = (e["at"], e["v"])
        if steps and steps[-1]["key"] == key:
            steps[-1]["ev"].append(inj)
        else:
            steps.append({"at": e["at"], "key": key, "ev": [inj]})
    out = []
    for s in steps:
        out.append({"at": s["at"], "conc": s["at"] == "idle" and len(s["ev"]) > 1, "ev": s["ev"]})
    sc = {"comps": comps, "fail": fail, "steps": out}
    sc["id"] = hashlib.sha1(json.dumps(sc, sort_keys=True).encode()).hexdigest()[:12]
    return sc


def generate(c, label, seq, maxgen, maxenv, maxfail, blocking, simulate=None, depth=None, timeout=600):
    r = c.tlc("Collector", "CollectorGen", cfg_text=cfg(seq, maxgen, maxenv, maxfail, blocking, ["Emit"],
                                                        view=simulate is None),
              workers=1, timeout=timeout, label=label, count=False, simulate=simulate, depth=depth,
              seed=c.seed if simulate else None, heap="6g")
    if r.timed_out or (r.error and not simulate):
        raise vlib.Inconclusive("generator %s failed: %s %s" % (label, r.error, r.out[-800:]))
    if not r.printed:
        raise vlib.Inconclusive("generator %s printed nothing\n%s" % (label, r.out[-800:]))
    return r.printed


def run_scripts(c, binp, scripts, label, shards, watchdog=WATCHDOG):
    """run the scripts in `shards` driver processes; returns list of (script, [events])"""
    shards = max(1, min(shards, len(scripts)))
    procs = []
    for k in range(shards):
        part = scripts[k::shards]
        sf = os.path.join(c.work, "%s_scripts_%d.ndjson" % (label, k))
        tf = os.path.join(c.work, "%s_trace_%d.ndjson" % (label, k))
        vlib.write_ndjson(sf, part)
        p = subprocess.Popen([binp, "run", sf, tf, str(watchdog)], stdout=subprocess.PIPE, stderr=subprocess.PIPE,
                             text=True, cwd=c.work)
        procs.append((p, part, tf))
    res = []
    deadline = time.time() + 60 + 3 * watchdog + 0.3 * len(scripts)
    for p, part, tf in procs:
        try:
            out, err = p.communicate(timeout=max(5, deadline - time.time()) + 4.0 * len(part))
        except subprocess.TimeoutExpired:
            p.kill()
            raise vlib.Inconclusive("driver %s did not finish" % label)
        if p.returncode != 0:
            raise vlib.Inconclusive("driver %s failed rc=%s\n%s" % (label, p.returncode, err[-3000:]))
        traces = split_traces(vlib.read_ndjson(tf))
        if len(traces) != len(part):
            raise vlib.Inconclusive("driver %s recorded %d traces for %d scripts" % (label, len(traces), len(part)))
        for sc, tr in zip(part, traces):
            if tr[0]["id"] != sc["id"]:
                raise vlib.Inconclusive("driver %s: trace/script mismatch" % label)
            res.append((sc, tr))
    return res


def split_traces(events):
    out = []
    for e in events:
        if e["ev"] == "reset":
            out.append([])
        out[-1].append(e)
    return out


def normalise(tr):
    """recorder lines -> lines for CollectorTrace.tla (format only; see the module header)"""
    out, pend, cut = [], {}, False
    for e in tr:
        ev = e["ev"]
        if cut and ev != "end":
            continue
        n = dict(ev=ev, st=e.get("st", "Starting"), id="", comps=[], gen=e.get("gen", 0), comp=e.get("comp", ""),
                 ok=not e.get("err", False), reg=bool(e.get("reg", False)), kind=e.get("kind", ""), st0="", bad=False)
        if ev == "reset":
            n["id"], n["comps"], n["st"] = e["id"], e["script"]["comps"], "Starting"
        elif ev == "ext" and "iid" in e:
            pend[e["iid"]] = e["st"]
        elif ev == "ext_done":
            n["st0"] = pend.pop(e["iid"], e["st"])
            n["bad"] = e.get("panics", 0) > 0 or bool(e.get("blocked"))
        elif ev == "notify_done":
            n["bad"] = bool(e.get("panic"))
        elif ev == "timeout":
            cut = True
        out.append(n)
    return out


def monitor(c, results, label):
    """TLC evaluates the clauses on every trace; returns {trace id: [(clause, line in trace)]}"""
    lines, start = [], {}
    for sc, tr in results:
        start[sc["id"]] = len(lines)
        lines += normalise(tr)
    f = os.path.join(c.work, "%s_observed.ndjson" % label)
    vlib.write_ndjson(f, lines)
    r = c.tlc("Collector", "CollectorTrace", workers=1, files={"observed.ndjson": f}, timeout=1800,
              label=label, count=False, heap="8g", tag="VERDICT")
    if r.timed_out or r.error or len(r.printed) != 1:
        raise vlib.Inconclusive("trace validation %s failed: %s\n%s" % (label, r.error, r.out[-1500:]))
    v = r.printed[0]
    if v["lines"] != len(lines):
        raise vlib.Inconclusive("trace validation %s read %s of %d lines" % (label, v["lines"], len(lines)))
    c.evaluations += len(lines)
    bad = {}
    for x in v["viol"]:
        bad.setdefault(x["t"], []).append((x["c"], x["l"] - start[x["t"]]))
    return bad


def describe(sc):
    s = []
    for st in sc["steps"]:
        s.append("%s[%s]" % (st["at"], ("|" if st.get("conc") else ",").join(
            i["k"] + (":" + i["c"] if "c" in i else "") for i in st["ev"])))
    return "comps=%s fail=%s steps=%s" % ("".join(sc["comps"]), sc["fail"], " ".join(s))


def signature_of(clause, tr):
    if clause == "RunReturns":
        for e in tr:
            if e["ev"] == "timeout":
                return e.get("sig", "timeout")
    if clause == "NotifySafe":
        for e in tr:
            if e["ev"] == "notify_done" and e.get("panic"):
                return "Resolver.onChange: " + str(e.get("text", "panic"))
    return None


# ---------------------------------------------------------------------- the check
def run(c):
    q = c.quick()
    ncpu = vlib.NCPU
    shards = max(2, min(8, ncpu // 2))

    # 1. design (repaired hand-over), all clauses + NotifySafe reported separately
    seq, mg, me, mf = (3, 2, 3, 1) if q else (3, 3, 5, 2)
    c.tlc_must_pass("Collector", "CollectorMC", cfg_text=cfg(seq, mg, me, mf, False, ["TypeOK"] + CLAUSES),
                    coverage=True, timeout=1500, label="design", workers=min(12, ncpu),
                    vacuous_ok=("FatalUnlock",))
    if not q:
        c.tlc_must_pass("Collector", "CollectorMC", cfg_text=cfg(4, 2, 4, 1, False, ["TypeOK"] + CLAUSES),
                        timeout=1500, label="design4", workers=min(12, ncpu))
    # the pinned hand-over (blocking send under the reporter mutex): TLC is expected to find the
    # deadlock; recorded in the evidence, never a verdict by itself
    rb = c.tlc("Collector", "CollectorMC", cfg_text=cfg(seq, 2, 3, 1, True, ["TypeOK"] + CLAUSES), timeout=600,
               label="design_blocking_send", workers=min(12, ncpu), count=False)
    c.extra["model_of_blocking_send"] = "counterexample: %s" % (rb.error,) if rb.error else "no counterexample"
    rn = c.tlc("Collector", "CollectorMC", cfg_text=cfg(seq, 2, 3, 1, False, ["InvNotifySafe"]), timeout=600,
               label="design_notify", workers=min(12, ncpu), count=False)
    c.extra["model_of_watcher_close"] = "counterexample: %s" % (rn.error,) if rn.error else "no counterexample"

    binp = build(c)

    # 2. scripts
    if c.replay:
        scripts = [json.load(open(c.replay))["replay"]["script"]]
        counter = set()
    else:
        behs = []
        gens = [("genB", 3, 2, 3, 1, True, None, None), ("genF", 3, 2, 3, 1, False, None, None)]
        if q:
            gens += [("simB", 4, 3, 5, 2, True, "num=300", 90), ("simF", 4, 3, 5, 2, False, "num=300", 90)]
        else:
            gens += [("genB4", 4, 2, 4, 1, True, None, None), ("genF4", 3, 3, 4, 2, False, None, None),
                     ("simB", 4, 3, 6, 2, True, "num=3000", 110), ("simF", 4, 3, 6, 2, False, "num=3000", 110)]
        for label, sq, g, e, f, blocking, sim, depth in gens:
            pr = generate(c, label, sq, g, e, f, blocking, simulate=sim, depth=depth, timeout=900)
            behs += [(b, COMPS[sq]) for b in pr]
            c.log("generator %s: %d behaviours" % (label, len(pr)))
        seen, scripts, counter = {}, [], set()
        for k, (b, comps) in enumerate(behs):
            sc = project(b, comps, salt=c.seed)
            if sc["id"] not in seen:
                seen[sc["id"]] = sc
                scripts.append(sc)
            if b.get("bad"):
                counter.add(sc["id"])
        limit = 1500 if q else 12000
        if len(scripts) > limit:
            # keep every counterexample of the model, sample the rest
            keep = [s for s in scripts if s["id"] in counter]
            rest = [s for s in scripts if s["id"] not in counter]
            c.rng.shuffle(rest)
            scripts = keep[:limit // 2] + rest[:limit - min(len(keep), limit // 2)]
        c.rng.shuffle(scripts)
        c.extra["scripts"] = len(scripts)
        c.extra["scripts_from_model_counterexamples"] = len([s for s in scripts if s["id"] in counter])
        c.log("%d distinct scripts (%d from counterexamples of the model)" % (len(scripts), len(counter)))

    # 3. run them on the real collector, 4. monitor
    results = run_scripts(c, binp, scripts, "main", shards)
    bad = monitor(c, results, "mon")
    by_id = {sc["id"]: (sc, tr) for sc, tr in results}
    nontrivial = 0
    for sc, tr in results:
        if sum(1 for e in tr if e["ev"] == "ext") >= 2:
            nontrivial += 1
    # re-confirm watchdog expiries once (alone, full bound) before reporting
    redo = [by_id[t][0] for t, v in bad.items() if any(cl == "RunReturns" for cl, _ in v)]
    confirmed = {}
    if redo:
        sample = redo[:16]
        res2 = run_scripts(c, binp, sample, "confirm", min(shards, len(sample)))
        bad2 = monitor(c, res2, "mon2")
        for sc, tr in res2:
            confirmed[sc["id"]] = any(cl == "RunReturns" for cl, _ in bad2.get(sc["id"], []))
    reported = 0
    for tid, v in bad.items():
        sc, tr = by_id[tid]
        for clause, line in v:
            sig = signature_of(clause, tr)
            if clause == "RunReturns":
                structural = sig and sig.startswith("Host.")
                if tid in confirmed and not confirmed[tid] and not structural:
                    raise vlib.Inconclusive("watchdog expiry not reproduced on re-run: %s (%s)" % (describe(sc), sig))
                if tid not in confirmed and not structural and not any(confirmed.values()):
                    raise vlib.Inconclusive("watchdog expiry without confirmation: %s (%s)" % (describe(sc), sig))
            what = "%s broken on the real collector at trace line %d: %s" % (clause, line, describe(sc))
            if sig:
                what += " -- " + sig
            detail = [e for e in tr if e["ev"] in ("timeout", "notify_done", "run_return")][-2:]
            if c.violation(what, replay_obj=dict(script=sc, clause=clause, line=line, detail=detail,
                                                 trace=[json.dumps(e, separators=(",", ":")) for e in tr[:120]]),
                           signature=sig):
                reported += 1
    ok_traces = len([1 for sc, tr in results if sc["id"] not in bad])
    c.traces_validated += ok_traces
    c.log("%d scripts run, %d traces satisfy every clause, %d with broken clauses" % (len(results), ok_traces, len(bad)))
    for sc, tr in results[:2]:
        c.sample(dict(kind="script + recorded trace (abridged)", script=sc,
                      trace=["%s %s %s" % (e["ev"], e.get("st"), {k: v for k, v in e.items() if k in ("gen", "comp", "kind", "err")})
                             for e in tr[1:40]]))
    c.exhaustive = False
    c.extra["constants"] = dict(design=dict(comps=seq, MaxGen=mg, MaxEnv=me, MaxFail=mf), watchdog_s=WATCHDOG)
    c.extra["driver_processes"] = shards
    c.assumptions += [
        "harness components never block by themselves; the run loop's callbacks return once the injected events settled",
        "a Shutdown() request counts as a stop reason only if GetState() was Running/Starting before and after the call "
        "(a request made while a reload is in its Closing phase is dropped by the code; the statement does not decide this)",
        "signals: sent to the own process after the collector installed its handlers (5 ms after the first Running)",
        "orders of create/start/shutdown inside one service are not compared (C10)"]
    c.finish_args = dict(rule="scripts projected from TLC behaviours of Collector.tla (bounded-exhaustive over view-distinct "
                              "end states for the small constants, seeded simulation for the larger ones); non-trivial = "
                              "at least 2 external events were injected", distinct_nontrivial=nontrivial)
