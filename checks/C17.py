"""C17 -- batch processor: conservation, size bound, metadata isolation, timely flush.
Spec: specs/BatchProcessor.  Binding: harness/batchproc (factory-built real processor, 3 signals).
  1. TLC exhaustive design check (BatchMC): two concurrent producers, every validated configuration
     in the bounds, shutdown / timer at every moment; all clauses of the statement as invariants.
  2. TLC generates single-producer behaviours (BatchGen: payload shapes x configurations, with the
     specified batches and the quiescence bound); they are replayed into the real processor.
  3. Concurrent producers, real timers, failing / slow downstream, shutdown at scripted moments are
     recorded.
  4. Everything recorded in 2 and 3 is validated by TLC against the monitor BatchTrace.tla (the
     clauses of BatchObs.tla): verdicts come from there.  Divergence of 2 from the specified batches
     with the monitor satisfied is model drift.
"""
import json, os, re
import vlib

SIGNALS = ["logs", "traces", "metrics"]
GEN_CFG = """SPECIFICATION GenSpec
CONSTANTS
  Producers <- GProducers
  Groups <- GenGroups
  NoGroup = "-"
  ChanCap = 1
  Configs <- GConfigs
  Prog0 <- GProg0
  MaxChoose <- N
  Payloads <- GPayloads
  AllowFail = FALSE
INVARIANT Emit
INVARIANT Property
CHECK_DEADLOCK FALSE
"""


def tla_bool(b):
    return "TRUE" if b else "FALSE"


def gen_params(n, shapes, groups, confs):
    return """--------------------------- MODULE BatchGenParams ---------------------------
ParamN          == %d
ParamShapeSel   == {%s}
ParamGroups     == {%s}
ParamConfigs    == {%s}
=============================================================================
""" % (n, ", ".join(map(str, shapes)), ", ".join('"%s"' % g for g in groups),
       ", ".join("<<%d, %d, %s, %s, %d>>" % (s, m, tla_bool(t), tla_bool(k), l) for s, m, t, k, l in confs))


def valid(cf):
    s, m, t, k, l = cf
    return (m == 0 or m >= s) and (k or l == 0)


def mc_cfg(**kw):
    base = open(os.path.join(vlib.VERIF, "specs/BatchProcessor/BatchMC.cfg")).read()
    for k, v in kw.items():
        base, n = re.subn(r"(?m)^  %s = .*$" % k, "  %s = %s" % (k, v), base)
        assert n == 1, k
    return base


def shapes_lib(c):
    r = c.tlc("BatchProcessor", "TelemetryShapeLib", cfg_text="INIT LibInit\nNEXT LibNext\nCHECK_DEADLOCK FALSE\n", workers=1, timeout=120,
              count=False, label="lib", tag="LIB")
    m = re.search(r'<<\s*"LIB",\s*"([^"]*)"\s*>>', r.out)      # TLC wraps long values of the initial predicate
    if not m:
        raise vlib.Inconclusive("could not obtain the shape library from TLC: %s" % r.out[-800:])
    return json.loads(m.group(1))


def generate(c, label, n, shapes, groups, confs, simulate=None, depth=None):
    confs = [cf for cf in confs if valid(cf)]
    r = c.tlc("BatchProcessor", "BatchGen", cfg_text=GEN_CFG, workers=1, timeout=900, count=False, label=label,
              files={"BatchGenParams.tla": gen_params(n, shapes, groups, confs)}, simulate=simulate, depth=depth,
              seed=c.seed if simulate else None, heap="8g")
    if r.error or r.timed_out:
        raise vlib.Inconclusive("generator %s failed: %s %s" % (label, r.error, r.out[-1500:]))
    if not simulate:
        expect = len(confs) * (len(shapes) * len(groups)) ** n
        if len(r.printed) != expect:
            raise vlib.Inconclusive("generator %s printed %d behaviours, expected %d" % (label, len(r.printed), expect))
    return r.printed


def seq_scripts(behs, lib, signals, sid0):
    out = []
    for b in behs:
        for sig in signals:
            hist = []
            for h in b["hist"]:
                h = dict(h)
                if h["ev"] == "produce":
                    h["shape"] = lib[h["shape"] - 1]
                hist.append(h)
            out.append(dict(sid=sid0 + len(out), signal=sig, mode="seq", conf=b["conf"], pendmax=b["pendmax"], hist=hist))
    return out


def conc_scripts(c, lib, count, sid0):
    """Concurrent scripts (inputs only -- nothing expected is computed here)."""
    rng = c.rng
    out = []
    for i in range(count):
        kind = rng.choice(["race", "race", "wait", "keyed-race", "keyed-wait"])
        keyed = kind.startswith("keyed")
        size = rng.choice([0, 1, 2, 3, 5, 8])
        mx = rng.choice([0, 0, size, size + 1, size + 3]) if size else rng.choice([0, 1, 2, 4])
        timeout = rng.choice([0, 20, 40, 80]) if "wait" in kind else rng.choice([0, 30, 1000, 3600000])
        groups = rng.sample(["a", "b", "c", "d", "e", "f"], rng.choice([2, 3, 6])) if keyed else ["a", "b"]
        limit = rng.choice([0, 0, 1, 2, 3]) if keyed else 0
        nprod = rng.choice([1, 2, 3, 4])
        producers = []
        total = 0
        for p in range(nprod):
            steps = []
            for k in range(rng.choice([1, 2, 3, 5, 8])):
                steps.append(dict(shape=lib[rng.randrange(len(lib))], md=rng.choice(groups),
                                  gap_us=rng.choice([0, 0, 0, 50, 500, 3000])))
            total += len(steps)
            producers.append(steps)
        s = dict(sid=sid0 + i, signal=rng.choice(SIGNALS), mode="conc",
                 conf=dict(size=size, max=mx, timeout_ms=timeout, keyed=keyed, limit=limit), pendmax=0,
                 producers=producers, shutdown_after=-1 if "wait" in kind else rng.randrange(0, total + 1),
                 sink_fail=sorted(rng.sample(range(1, 8), rng.choice([0, 0, 1, 2]))),
                 sink_delay_us=rng.choice([0, 0, 100, 2000]) if "wait" not in kind else 0, slack_ms=2000)
        out.append(s)
    # steady streams: arrivals faster than the timeout for longer than timeout + slack; the size trigger is
    # never reached, so only the timer can emit ("no later than the timeout after the first of them arrived")
    for k in range(max(1, count // 400)):
        one = [[[1]]]
        out.append(dict(sid=sid0 + len(out), signal=SIGNALS[(c.seed + k) % 3], mode="conc",
                        conf=dict(size=1000, max=0, timeout_ms=100, keyed=False, limit=0), pendmax=0,
                        producers=[[dict(shape=one, md="a", gap_us=20000) for _ in range(130)]], shutdown_after=-1,
                        sink_fail=[], sink_delay_us=0, slack_ms=2000))
    # a timeout-triggered flush that downstream REFUSES, then later arrivals below send_batch_size: they too are emitted no
    # later than the timeout after the first of them arrived (seeded change C17-8: the timer was not re-armed after a
    # refused timer flush, so everything later stayed pending until shutdown)
    for k in range(3):
        one = [[[1]]]
        out.append(dict(sid=sid0 + len(out), signal=SIGNALS[(c.seed + k) % 3], mode="conc",
                        conf=dict(size=1000, max=0, timeout_ms=60, keyed=False, limit=0), pendmax=0,
                        producers=[[dict(shape=one, md="a", gap_us=0), dict(shape=one, md="a", gap_us=300000),
                                    dict(shape=one, md="a", gap_us=2700000)]], shutdown_after=-1,
                        sink_fail=[1], sink_delay_us=0, slack_ms=2000))
    return out


def burst_scripts(c, count, sid0):
    """contention on the shard table: Pre < limit groups exist, then Burst producers with pairwise distinct new groups call
    Consume at the same instant (spin barrier in the driver) with Pre + Burst > limit: whatever the schedule, at most
    limit groups may ever be accepted / emitted and the others must get the error (inputs only)."""
    rng = c.rng
    out = []
    for i in range(count):
        limit = rng.choice([1, 2, 3])
        out.append(dict(sid=sid0 + i, signal=SIGNALS[i % 3], mode="burst",
                        conf=dict(size=rng.choice([0, 1]), max=0, timeout_ms=0, keyed=True, limit=limit), pendmax=0,
                        pre=rng.randrange(0, limit), burst=rng.choice([8, 10, 12, 16]), slack_ms=2000))
    return out


def explain(ctxd, got, want):
    """which fields of the context differ (for the message only)"""
    g, w = ctxd.get(got, got), ctxd.get(want, want)
    fg = re.findall(r"(\w+)\{(.*?)\}(?= \w+\{|$)", g)
    fw = re.findall(r"(\w+)\{(.*?)\}(?= \w+\{|$)", w)
    diffs = []
    for (ng, vg), (nw, vw) in zip(fg, fw):
        if vg != vw:
            diffs.append("%s: emitted {%s} but entered as {%s}" % (ng, vg, vw))
    return "; ".join(diffs) or "%s vs %s" % (g, w)


def run_and_validate(c, binp, scripts, label, par=8):
    """run scripts on the real processor, validate the recorded trace with TLC; returns (results, viol by sid)"""
    sf = os.path.join(c.work, "scripts_%s.ndjson" % label)
    vlib.write_ndjson(sf, scripts)
    tr = os.path.join(c.work, "trace_%s.ndjson" % label)
    rs = os.path.join(c.work, "results_%s.json" % label)
    c.run([binp, "run", sf, tr, rs, str(par)], timeout=1500)
    res = json.load(open(rs))
    results = {r["sid"]: r for r in res["results"]}
    if len(results) != len(scripts):
        raise vlib.Inconclusive("driver ran %d of %d scripts" % (len(results), len(scripts)))
    for r in res["results"]:
        if r.get("error"):
            raise vlib.Inconclusive("driver could not run script %d: %s" % (r["sid"], r["error"]))
        if r.get("hang"):
            raise vlib.Inconclusive("Shutdown of the real processor did not return within 20 s in script %d" % r["sid"])
    t = c.tlc("BatchProcessor", "BatchTrace", workers=1, files={"observed.ndjson": tr}, timeout=1500, count=False,
              label="trace_" + label, heap="8g", tag="VIOL")
    done = vlib.extract_printed(t.out, "DONE")
    nlines = sum(1 for _ in open(tr))
    if t.error or t.timed_out or not done or done[0]["lines"] != nlines:
        raise vlib.Inconclusive("trace validation did not run to the end (%s): %s" % (t.error, t.out[-1500:]))
    c.evaluations += done[0]["checks"]
    viol = {}
    for v in t.printed:
        viol.setdefault(v["sid"], []).append(v)
    return results, viol, res["ctx"], tr


def report(c, scripts, results, viol, ctxd, trace_path):
    by_sid = {s["sid"]: s for s in scripts}
    seen = set()
    lines = None
    for sid, vs in sorted(viol.items()):
        s = by_sid[sid]
        clauses = sorted({v["clause"] for v in vs})
        for cl in clauses:
            v = next(x for x in vs if x["clause"] == cl)
            what = "%s violated by the real %s batch processor (script %d, %s, conf %s)" % (cl, s["signal"], sid, s["mode"], s["conf"])
            sig = None
            if cl == "Identity" and v["detail"]:
                d = v["detail"][0]
                ex = explain(ctxd, d[1], d[2])
                what += ": item %s -- %s" % (d[0], ex)
            else:
                what += ": %s" % (json.dumps(v["detail"])[:300],)
            key = (cl, s["signal"], what.split(" -- ")[-1][:80] if cl == "Identity" else "")
            if key in seen and len(seen) > 6:
                continue
            seen.add(key)
            if len(c.violations) >= 12:
                continue
            if cl == "SizeTrigger":
                # only quiescence waits that were given the full 5 s count (see settleBound in the driver)
                if lines is None:
                    lines = open(trace_path).read().splitlines()
                full = [x for x in vs if x["clause"] == cl and json.loads(lines[x["line"] - 1]).get("bound", 0) >= 5000]
                if not full:
                    continue
                v = full[0]
            c.violation(what, replay_obj=dict(script=s, clause=cl, line=v["line"]), signature=sig)


def run(c):
    q = c.quick()
    # ------------------------------------------------------------------ 1. design
    mcs = [dict(ProgSel=1, MaxS=2, MaxM=2, MaxL=1), dict(ProgSel=2, MaxS=2, MaxM=2, MaxL=1, ChanCap=2)] if q else \
          [dict(ProgSel=1, MaxS=3, MaxM=3, MaxL=2, AllowFail="TRUE"), dict(ProgSel=2, MaxS=3, MaxM=3, MaxL=2, ChanCap=2),
           dict(ProgSel=3, MaxS=3, MaxM=3, MaxL=2)]
    for i, kw in enumerate(mcs):
        c.tlc_must_pass("BatchProcessor", "BatchMC", cfg_text=mc_cfg(**kw), coverage=(i == 0), timeout=900,
                        label="design%d" % i, vacuous_ok=("Next", "Choose"))
    binp = c.go_build("batchproc", pkg="./cmd")
    lib = shapes_lib(c)

    if c.replay:
        rp = json.load(open(c.replay))["replay"]
        scripts = [rp["script"]]
        results, viol, ctxd, tr = run_and_validate(c, binp, scripts, "replay")
        report(c, scripts, results, viol, ctxd, tr)
        c.traces_validated += 1
        c.sample(dict(kind="replayed script", script=scripts[0]))
        c.finish_args = dict(rule="replay of one script")
        return

    # ------------------------------------------------------------------ 2. generated behaviours
    all_shapes = list(range(1, len(lib) + 1))
    unkeyed = [(s, m, t, False, 0) for s in (0, 1, 2, 3) for m in (0, 2, 3, 4) for t in (True, False)]
    keyed = [(s, m, t, True, l) for (s, m, t) in ((2, 3, True), (0, 2, False), (3, 0, True)) for l in (0, 1, 2)]
    behs = []
    if q:
        behs += generate(c, "gen_unkeyed", 2, all_shapes, ["a"], unkeyed)
        behs += generate(c, "gen_keyed", 3, [2, 5], ["a", "c", "f"], keyed[:6])
        behs += generate(c, "gen_sim", 5, all_shapes, ["a", "b", "d", "f"], unkeyed + keyed, simulate="num=300", depth=120)
    else:
        behs += generate(c, "gen_unkeyed2", 2, all_shapes, ["a"], unkeyed)
        behs += generate(c, "gen_unkeyed3", 3, [2, 3, 5, 6, 9], ["a"], unkeyed)
        behs += generate(c, "gen_keyed", 3, [2, 5, 9], ["a", "c", "f"], keyed[:6])
        for k in range(3):
            c.seed += 1000
            behs += generate(c, "gen_sim%d" % k, 8, all_shapes, ["a", "b", "c", "d", "e", "f"], unkeyed + keyed,
                             simulate="num=1000", depth=250)
        c.seed -= 3000
    c.exhaustive = True
    scripts = seq_scripts(behs, lib, SIGNALS, 1)
    c.log("generated %d behaviours -> %d sequential scripts" % (len(behs), len(scripts)))
    # ------------------------------------------------------------------ 3. concurrent scripts
    conc = conc_scripts(c, lib, 150 if q else 1500, len(scripts) + 1)
    total_viol = 0
    drift = 0
    nontrivial = 0
    burst = burst_scripts(c, 200 if q else 1500, len(scripts) + len(conc) + 1)
    for label, part, par in (("seq", scripts, 8), ("conc", conc, 12), ("burst", burst, 2)):
        chunk = 6000
        for off in range(0, len(part), chunk):
            sub = part[off:off + chunk]
            results, viol, ctxd, tr = run_and_validate(c, binp, sub, "%s%d" % (label, off // chunk), par)
            report(c, sub, results, viol, ctxd, tr)
            total_viol += len(viol)
            c.traces_validated += len(sub)
            for s in sub:
                r = results[s["sid"]]
                if r["emits"] >= 2:
                    nontrivial += 1
                if s["mode"] == "seq":
                    if r["settle_timeouts"] and not c.violations and s["sid"] not in viol:
                        raise vlib.Inconclusive("quiescence wait timed out but the monitor saw no violation (script %d)" % s["sid"])
                    if r.get("strict") and s["sid"] not in viol:
                        drift += 1
                        if drift <= 3:
                            c.model_drift("script %d (%s, conf %s): %s" % (s["sid"], s["signal"], s["conf"], r["strict"][:400]))
            if off == 0:
                c.sample(dict(kind="%s script with its recorded trace (first lines)" % label, script=sub[len(sub) // 2],
                              trace=open(tr).read().splitlines()[:8]))
    if drift > 3:
        c.model_drift("%d sequential scripts in total diverged from the specified batches with the monitor satisfied" % drift)
    c.extra["scripts"] = dict(sequential=len(scripts), concurrent=len(conc), burst=len(burst), rejected_by_monitor=total_viol)
    c.assumptions += ["time stamps are taken by the recorder (ms); the timeliness clause is checked with 2 s slack",
                      "downstream = recording sink; a batch the sink rejects counts as emitted (statement: 'provided downstream accepts it')",
                      "item context = digest of resource/scope/schema URLs/metric descriptor/item content as found in the payload"]
    c.finish_args = dict(rule="sequential: every sequence of N payload shapes from the TLC shape library x every validated "
                              "configuration in the stated grid (bounded exhaustive) plus simulated longer ones, each for 3 "
                              "signals; concurrent: seeded random scripts; non-trivial = at least 2 downstream calls",
                         distinct_nontrivial=nontrivial)
