#!/bin/bash
# tools/seed_regress.sh [Cnn ...] -- every recorded seeded change (mutants/<Cnn>/seed_*.json -> seeded/<id>/patch.diff) must still be detected
cd "$(dirname "$0")/.."
IDS=${@:-$(cat tools/claimed.txt)}
for p in $IDS; do
  names=$(ls mutants/$p/seed_*.json 2>/dev/null | xargs -n1 basename 2>/dev/null | sed 's/\.json$//' | tr '\n' ' ')
  [ -z "$names" ] && continue
  python3 tools/selftest.py $p $names 2>&1 | grep "expected" | sed "s/^/$p /"
done
echo REGRESSDONE
