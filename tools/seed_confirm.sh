#!/bin/bash
# tools/seed_confirm.sh <seed id> <worktree> <module dir rel> <go test package(s)> <demo test regex>
# Confirms a seeded change in its scratch worktree: existing tests pass with it, the demonstration fails with it and
# passes without it.  Writes /verif/seeded/<id>/confirm.log
set -u
ID=$1; WT=$2; MOD=$3; PKG=$4; RE=$5
export GOFLAGS=-mod=mod GOPROXY=off GOSUMDB=off GOTOOLCHAIN=local
OUT=/verif/seeded/$ID; mkdir -p $OUT/demo
cp $WT/_seed/patch.diff $OUT/patch.diff; cp -r $WT/_seed/demo/. $OUT/demo/; cp $WT/_seed/README.md $OUT/README.agent.md
L=$OUT/confirm.log; : > $L
cd $WT/$MOD
echo "== existing tests with the change (demo skipped): go test -count=1 -skip '$RE' $PKG" >> $L
go test -count=1 -skip "$RE" $PKG >> $L 2>&1; echo "rc=$?" >> $L
echo "== demo with the change: go test -count=1 -run '$RE' $PKG" >> $L
go test -count=1 -run "$RE" $PKG 2>&1 | tail -15 >> $L; echo "rc=${PIPESTATUS[0]}" >> $L
(cd $WT && git apply -R _seed/patch.diff)
echo "== demo WITHOUT the change" >> $L
go test -count=1 -run "$RE" $PKG 2>&1 | tail -6 >> $L; echo "rc=${PIPESTATUS[0]}" >> $L
(cd $WT && git apply _seed/patch.diff)
grep -n "^rc=\|^== " $L
