#!/usr/bin/env python3
"""Self-validation: run a check against mutated copies of anchored source files WITHOUT touching /repo.
   tools/selftest.py <Cnn> [mutant-name ...] [--tier quick]
A mutant is mutants/<Cnn>/<name>.json:
   {"file": "<path relative to /repo>", "edits": [{"old": "...", "new": "..."}], "note": "...", "expect": "VIOLATION"}
(several files: "files": [{"file":..., "edits":[...]}]; or a unified diff: "patch": "<path relative to /verif>", used for the
seeded changes of seeded/<id>/patch.diff, see mutants/<Cnn>/seed_*.json).  The mutated copy is passed to `go build -overlay`
through VERIF_OVERLAY; evidence is not rewritten (VERIF_NO_EVIDENCE)."""
import json, os, subprocess, sys, tempfile, shutil
V = os.path.dirname(os.path.dirname(os.path.abspath(__file__)))
REPO = "/repo"

def main():
    args = [a for a in sys.argv[1:] if not a.startswith("--")]
    tier = "quick"
    if "--tier" in sys.argv:
        tier = sys.argv[sys.argv.index("--tier") + 1]
        args = [a for a in args if a != tier]
    pid, names = args[0], args[1:]
    mdir = os.path.join(V, "mutants", pid)
    results = []
    for f in sorted(os.listdir(mdir)):
        if not f.endswith(".json"):
            continue
        name = f[:-5]
        if names and name not in names:
            continue
        m = json.load(open(os.path.join(mdir, f)))
        tmp = tempfile.mkdtemp(prefix="verif_mut_")
        try:
            repl = {}
            if m.get("patch"):
                # a unified diff against /repo (e.g. a seeded change): applied to copies of the touched files
                pf = os.path.join(V, m["patch"])
                tree = os.path.join(tmp, "tree")
                for line in open(pf):
                    if line.startswith("+++ b/"):
                        rel = line[6:].strip()
                        dst = os.path.join(tree, rel)
                        os.makedirs(os.path.dirname(dst), exist_ok=True)
                        if os.path.exists(os.path.join(REPO, rel)):
                            shutil.copy(os.path.join(REPO, rel), dst)
                        repl[os.path.join(REPO, rel)] = dst
                pr = subprocess.run(["patch", "-p1", "-s", "-d", tree, "-i", pf], stdout=subprocess.PIPE, stderr=subprocess.STDOUT, text=True)
                if pr.returncode != 0:
                    raise SystemExit("mutant %s: patch does not apply: %s" % (name, pr.stdout[-300:]))
            for k, fe in enumerate([] if m.get("patch") else (m.get("files") or [m])):
                src = os.path.join(REPO, fe["file"])
                txt = open(src).read()
                for e in fe["edits"]:
                    if txt.count(e["old"]) < 1:
                        raise SystemExit("mutant %s: pattern not found in %s: %r" % (name, fe["file"], e["old"][:60]))
                    txt = txt.replace(e["old"], e["new"], e.get("count", 1))
                dst = os.path.join(tmp, "m%d_%s" % (k, os.path.basename(src)))
                open(dst, "w").write(txt)
                repl[src] = dst
            ov = os.path.join(tmp, "overlay.json")
            json.dump({"Replace": repl}, open(ov, "w"))
            env = dict(os.environ, VERIF_OVERLAY=ov, VERIF_NO_EVIDENCE="1")
            p = subprocess.run([os.path.join(V, "check"), pid, "--tier", tier], env=env, stdout=subprocess.PIPE,
                               stderr=subprocess.STDOUT, text=True)
            viol = [l for l in p.stdout.splitlines() if l.startswith("VIOLATION") or l.startswith("EXTRA-FINDING")]
            got = "VIOLATION" if (p.returncode == 1 and viol) else ("INCONCLUSIVE" if p.returncode == 2 else "PASS")
            exp = m.get("expect", "VIOLATION")
            results.append((name, got, exp))
            print("%-40s %-12s expected %-10s %s" % (name, got, exp, "ok" if got == exp else "MISSED"), flush=True)
            if got != exp:
                print("\n".join(p.stdout.splitlines()[-15:]))
        finally:
            shutil.rmtree(tmp, ignore_errors=True)
    bad = [r for r in results if r[1] != r[2]]
    sys.exit(1 if bad else 0)

main()
