#!/usr/bin/env python3
"""tools/seed_prompts.py <round> <Cnn>...  -- create scratch worktrees /tmp/seed-<Cnn>-<round> and the prompts for independent seeding
sub-agents (/tmp/seedprompts/<Cnn>.txt): property text only + what earlier rounds changed.  Nothing from /verif's checks."""
import json, glob, os, subprocess, sys
V = os.path.dirname(os.path.dirname(os.path.abspath(__file__)))
props = {json.loads(l)['id']: json.loads(l) for l in open(os.path.join(V, 'properties.jsonl'))}
os.makedirs('/tmp/seedprompts', exist_ok=True)
T = '''You are working in a scratch git worktree of the open-telemetry/opentelemetry-collector Go repository at {wt} (a multi-module repo; offline sandbox). In every shell call first run: export GOFLAGS=-mod=mod GOPROXY=off GOSUMDB=off GOTOOLCHAIN=local
Work ONLY inside {wt}. Never read or touch /repo or /verif (or anything else outside {wt}). The machine is shared: run tests of the touched packages/modules only, no repo-wide test runs, and at most 4 parallel test processes (go test -p 4).

This is an exercise in testing a verification framework by seeding a realistic defect. The following semantic property of the collector is supposed to hold:

PROPERTY {pid} -- {title}
Statement: {statement}
Quantifier: {quant}

YOUR TASK: make a realistic change to the NON-test Go source in {wt} (the kind of slip a maintainer could make in a refactoring, optimisation, clean-up or "defensive" rewrite -- not sabotage, no dead giveaway comments) that BREAKS this property, such that
 (1) everything still compiles;
 (2) the EXISTING tests of every module you touch still pass, unedited (run `go test ./...` in the touched module directories, and in modules that obviously depend on the touched package; do not edit or delete existing tests);
 (3) the breakage needs something SPECIFIC to manifest -- a particular interleaving, a crash or fault at a particular point, a multi-step sequence of operations, an unusual input or configuration, or two cooperating sites that each look fine alone -- and is NOT exposed at once by ordinary use;
 (4) it is a real violation of a clause of the statement above within its quantifier (say which clause).
Changes that earlier rounds already tried for this property (do something DIFFERENT: another clause, another site, another mechanism; prefer parts of the statement / quantifier none of these touches):
{earlier}

DELIVERABLES, all under {wt}/_seed/ :
  - patch.diff : `git diff` of your change to non-test source only (must apply to a clean checkout with `git apply`)
  - demo/<name>_test.go : a Go test (or several) demonstrating the breakage: FAILS with the change, PASSES without it. Also place a copy in the package directory where it must live to run. Give test functions a unique prefix (TestSeed{pid}g...).
  - README.md : what you changed and why it looks innocent, which clause of the property breaks, exactly what is needed for it to manifest, and the exact commands (module directory relative to the repo root, package path, -run regex) to run the demo.
VERIFY YOURSELF before finishing: existing tests pass with the change; the demo fails with the change; after `git apply -R _seed/patch.diff` the demo passes; then re-apply the patch. Leave the worktree with the change applied and the demo copy in place.
Your final message must state: module directory (relative), the go test package argument, the demo -run regex, and a one-paragraph summary of the change, the clause broken and what is needed to manifest.'''
rnd = sys.argv[1]
for pid in sys.argv[2:]:
    p = props[pid]
    earlier = [' - ' + json.load(open(f))['change'] for f in sorted(glob.glob(os.path.join(V, 'seeded', pid + '-*', 'meta.json')))]
    wt = '/tmp/seed-%s-%s' % (pid, rnd)
    subprocess.run(['git', '-C', '/repo', 'worktree', 'add', '-q', '--detach', wt, 'HEAD'], check=True)
    open('/tmp/seedprompts/%s.txt' % pid, 'w').write(T.format(wt=wt, pid=pid, title=p['title'], statement=p['statement'],
                                                                quant=p['quantifier']['text'], earlier='\n'.join(earlier)))
    print(pid, wt, len(earlier), 'earlier')
