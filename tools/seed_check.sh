#!/bin/bash
# tools/seed_check.sh <seed id> <Cnn> [tier]  -- apply the seeded patch to /repo, run the check, undo. Appends to seeded/<id>/check.log
ID=$1; P=$2; TIER=${3:-quick}
cd /repo && git apply --check /verif/seeded/$ID/patch.diff || { echo "patch does not apply"; exit 3; }
git apply /verif/seeded/$ID/patch.diff
cd /verif && VERIF_NO_EVIDENCE=1 ./check $P --tier $TIER > /tmp/seedcheck_$ID.log 2>&1; RC=$?
git -C /repo checkout -- .
{ echo "== ./check $P --tier $TIER with seeded/$ID applied: exit $RC"; grep "^VIOLATION\|^  what\|^KNOWN\|^INCONCLUSIVE\|done:" /tmp/seedcheck_$ID.log | cut -c1-500 | head -12; } | tee -a /verif/seeded/$ID/check.log
git -C /repo status --short | grep -v otelcorecol
