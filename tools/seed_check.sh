#!/bin/bash
# tools/seed_check.sh <seed id> <Cnn> [tier]  -- run a check against a seeded change.  The change is applied to a scratch
# worktree of /repo (never to /repo itself, so clean-tree runs can go on at the same time); the check reads the tree
# from VERIF_REPO.  Appends to seeded/<id>/check.log.  The worktree is removed afterwards.
ID=$1; P=$2; TIER=${3:-quick}
WT=/tmp/seedrepo.$$
git -C /repo worktree add -q --detach $WT HEAD || exit 3
trap 'git -C /repo worktree remove --force $WT; git -C /repo worktree prune' EXIT
git -C $WT apply /verif/seeded/$ID/patch.diff || { echo "patch does not apply"; exit 3; }
cd /verif && VERIF_REPO=$WT VERIF_NO_EVIDENCE=1 ./check $P --tier $TIER > /tmp/seedcheck_$ID.log 2>&1; RC=$?
{ echo "== ./check $P --tier $TIER with seeded/$ID applied: exit $RC"; grep "^VIOLATION\|^  what\|^KNOWN\|^INCONCLUSIVE\|done:" /tmp/seedcheck_$ID.log | cut -c1-500 | head -12; } | tee -a /verif/seeded/$ID/check.log
# the harness go.mod files were regenerated for the scratch tree: put the committed ones (=> /repo) back
cd /verif && git checkout -q -- $(git ls-files 'harness/*go.mod') && find harness -name .gomod.src -delete
