#!/usr/bin/env python3-vt
import json, sys, glob, jsonschema
jsonschema.validate(json.load(open('/verif/MANIFEST.json')), json.load(open('/root/.vp/MANIFEST.schema.json')))
es = json.load(open('/root/.vp/EVIDENCE.schema.json'))
for f in sorted(glob.glob('/verif/evidence/*.json') + glob.glob('/verif/extras/evidence/*.json')):
    jsonschema.validate(json.load(open(f)), es)
    print("ok", f)
print("manifest ok")
