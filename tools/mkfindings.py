#!/usr/bin/env python3
"""Merge findings.d/*.json into known_findings.json (run by hand, never at check time)."""
import json, os, glob
V = os.path.dirname(os.path.dirname(os.path.abspath(__file__)))
out = []
for f in sorted(glob.glob(os.path.join(V, "findings.d", "*.json"))):
    out += json.load(open(f))
json.dump(dict(comment="Genuine defects of /repo. status=open: re-observed => KNOWN-FINDING line, exit 0. "
                       "status=fixed: repaired by a fix: commit, suppresses nothing. Never written at run time.",
               findings=out), open(os.path.join(V, "known_findings.json"), "w"), indent=1)
print(len(out), "findings")
