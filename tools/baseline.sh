#!/bin/bash
# Runs the repository's pinned baseline (guard OFF: no build tags) and compares with /root/.vp/BASELINE.json stable_pass.
# usage: tools/baseline.sh [outdir]
OUT=${1:-/tmp/baseline_run}; mkdir -p $OUT; : > $OUT/all.json
. /w/out/goenv.sh
for m in $(cat /w/out/gomods.txt); do
  MF=$(cd /repo/$m && gomodflag)
  (cd /repo/$m && go test $MF -json -vet=off -count=1 -timeout 25m ./... >> $OUT/all.json 2>/dev/null)
done
python3 - "$OUT/all.json" <<'PY'
import json,sys
res={}
for l in open(sys.argv[1]):
    try: e=json.loads(l)
    except Exception: continue
    if e.get('Test') and e.get('Action') in ('pass','fail','skip'):
        res[e['Package']+'::'+e['Test']]=e['Action']
base=json.load(open('/root/.vp/BASELINE.json'))['stable_pass']
bad=[t for t in base if res.get(t)!='pass']
print("baseline tests:",len(base),"passing now:",len(base)-len(bad),"not passing:",len(bad))
for t in bad[:40]: print("  ",t,res.get(t))
PY
