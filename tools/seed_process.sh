#!/bin/bash
# tools/seed_process.sh <seed id> <Cnn> <module dir rel> <go test package(s)> <demo regex>  -- confirm a seeded change in its scratch
# worktree /tmp/seed-<id>, run the quick check against it, remove the worktree.
ID=$1; P=$2; MOD=$3; PKG=$4; RE=$5; WT=/tmp/seed-$ID
cd /verif
tools/seed_confirm.sh $ID $WT "$MOD" "$PKG" "$RE" || exit 3
git -C /repo worktree remove --force $WT; git -C /repo worktree prune
tools/seed_check.sh $ID $P quick
