#!/bin/bash
# tools/anchor_coverage.sh <Cnn|Enn> [tier] [file-regex]  -- gap finding, not a check: run the check with its Go drivers built with
# -cover over the whole collector tree and list, per function of the files matching the regex (default: the anchor files of
# the property in properties.jsonl), the statement coverage the drivers reached.  Functions at 0 % are code of the anchored
# mechanism that no generated behaviour exercises: a change there cannot be detected.
ID=$1; TIER=${2:-quick}; RE=$3
cd "$(dirname "$0")/.."
D=$(mktemp -d /tmp/verif_cov.XXXXXX)
export GOCOVERDIR=$D/raw; mkdir -p $GOCOVERDIR
VERIF_COVER=1 VERIF_NO_EVIDENCE=1 ./check $ID --tier $TIER > $D/check.log 2>&1; echo "check rc=$?"
export GOFLAGS=-mod=mod GOPROXY=off GOSUMDB=off GOTOOLCHAIN=local GOWORK=off
go tool covdata textfmt -i=$GOCOVERDIR -o=$D/cov.txt 2>&1 | tail -2
if [ -z "$RE" ]; then
  RE=$(python3 - "$ID" <<'PY'
import json,sys,re
for l in open('properties.jsonl'):
    p=json.loads(l)
    if p['id']==sys.argv[1]:
        fs=set()
        for f in p.get('anchors',{}).get('files',[]):
            if f.endswith('.go'): fs.add(re.escape(f))
            elif f: fs.add(re.escape(f.rstrip('/'))+'/[^/]*[.]go')
        print('|'.join(sorted(fs)))
PY
)
fi
echo "files: $RE"
# per-function summary needs a module that can resolve the packages: any harness module does
H=$(ls -d harness/*/ | head -1)
(cd harness/exporter && go tool cover -func=$D/cov.txt 2>/dev/null) | sed 's#go.opentelemetry.io/collector/##' | grep -E "$RE" | awk '{printf "%-90s %-40s %s\n",$1,$2,$3}' > $D/func.txt
echo "functions: $(wc -l < $D/func.txt), at 0%: $(grep -c ' 0.0%$' $D/func.txt)"
grep ' 0.0%$' $D/func.txt
echo "--- below 60%:"; awk '{v=$3; sub("%","",v); if (v+0>0 && v+0<60) print}' $D/func.txt
cp $D/func.txt /tmp/anchor_cov_$ID.txt; cp $D/cov.txt /tmp/anchor_cov_$ID.raw
rm -rf $D
