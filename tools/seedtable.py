#!/usr/bin/env python3
"""Rewrite the table of seeded changes in DESIGN.md (between the SEEDED-TABLE markers) from seeded/*/meta.json."""
import json, glob, os, re
V = os.path.dirname(os.path.dirname(os.path.abspath(__file__)))
rows = []
for f in sorted(glob.glob(os.path.join(V, "seeded", "*", "meta.json"))):
    m = json.load(open(f))
    esc = lambda s: str(s).replace("|", "\\|").replace("\n", " ")
    rows.append("| %s | %s | %s | %s |" % (m["id"], esc(m["change"]), esc(m["needs"]), esc(m["detected_by"])))
table = "| seed | change | needs | caught by |\n|------|--------|-------|-----------|\n" + "\n".join(rows)
p = os.path.join(V, "DESIGN.md")
s = open(p).read()
a, b = "<!-- SEEDED-TABLE-BEGIN -->", "<!-- SEEDED-TABLE-END -->"
if a in s:
    s = s[:s.index(a) + len(a)] + "\n" + table + "\n" + s[s.index(b):]
else:
    # first time: replace the hand-written table of 11.5
    i = s.index("| seed | change | needs | caught by |")
    j = s.index("\n\n", i) if "\n\n" in s[i:] else len(s)
    s = s[:i] + a + "\n" + table + "\n" + b + s[j:]
open(p, "w").write(s)
print(len(rows), "seeds")
