#!/usr/bin/env python3
"""Regenerate MANIFEST.json from tools/manifest_src.json (claimed checks) + properties.jsonl.
Every property that has no claimed check is listed under not_applicable with its reason."""
import json, os
V = os.path.dirname(os.path.dirname(os.path.abspath(__file__)))
src = json.load(open(os.path.join(V, "tools", "manifest_src.json")))
import glob
for f in glob.glob(os.path.join(V, "tools", "manifest.d", "*.json")):
    src["checks"][os.path.basename(f)[:-5]] = json.load(open(f))
props = [json.loads(l)["id"] for l in open(os.path.join(V, "properties.jsonl"))]
checks = []
allow = set(open(os.path.join(V, "tools", "claimed.txt")).read().split())
for pid in props:
    c = src["checks"].get(pid) if pid in allow else None
    if not c or not os.path.exists(os.path.join(V, "checks", pid + ".py")):
        continue
    checks.append(dict(property_id=pid, quick_cmd="./check %s --tier quick" % pid,
                       thorough_cmd="./check %s --tier thorough" % pid,
                       evidence_file="/verif/evidence/%s.json" % pid,
                       replay_cmd_template="./check %s --replay {path}" % pid,
                       engine="tlc+go-harness",
                       level_claimed=dict(category="model_checking", text=c["text"], design_ref=c.get("design_ref", "DESIGN.md §4 " + pid)),
                       level_note=c["note"], technique=c["technique"]))
claimed = {c["property_id"] for c in checks}
na = [dict(property_id=p, reason=src["not_applicable"].get(p, "check not built yet (see DESIGN.md §8 order of work)"))
      for p in props if p not in claimed]
man = dict(version=1, setup_cmd=src["setup_cmd"], hooks=src["hooks"], engines=src["engines"], checks=checks,
           notes=src["notes"], not_applicable=na)
json.dump(man, open(os.path.join(V, "MANIFEST.json"), "w"), indent=1)
print("claimed:", sorted(claimed), "not applicable:", [n["property_id"] for n in na])
