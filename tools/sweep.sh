#!/bin/bash
# tools/sweep.sh <tier> <seed> [ids...]  -- run the checks one after the other on the unchanged tree without touching the
# evidence files; one summary line per check (robustness sweeps over VERIF_SEED; any rc != 0 needs attention)
TIER=$1; SEED=$2; shift 2
IDS=${@:-$(cat /verif/tools/claimed.txt 2>/dev/null || cat tools/claimed.txt)}
cd "$(dirname "$0")/.."
L=$(mktemp -d /tmp/verif_sweep.XXXXXX)
for p in $IDS; do
  t0=$(date +%s)
  VERIF_SEED=$SEED VERIF_NO_EVIDENCE=1 ./check $p --tier $TIER > $L/$p.log 2>&1; rc=$?
  echo "SWEEP $p tier=$TIER seed=$SEED rc=$rc violations=$(grep -c '^VIOLATION' $L/$p.log) known=$(grep -c '^KNOWN-FINDING' $L/$p.log) drift=$(grep -c 'MODEL-DRIFT' $L/$p.log) wall=$(( $(date +%s) - t0 ))s"
  [ $rc -ne 0 ] && grep "^VIOLATION\|^  what\|^INCONCLUSIVE" $L/$p.log | head -6 | cut -c1-400
done
rm -rf $L
echo SWEEPDONE
