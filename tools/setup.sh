#!/bin/sh
# Offline setup: syntax-check every specification and warm the Go build cache for every harness.
set -e
cd "$(dirname "$0")/.."
export GOFLAGS=-mod=mod GOPROXY=off GOSUMDB=off GOTOOLCHAIN=local GOWORK=off
python3 - <<'PY'
import sys, os, json, subprocess
sys.path.insert(0, "lib")
import vlib
for h in sorted(os.listdir("harness")):
    hd = os.path.join("harness", h)
    if os.path.exists(os.path.join(hd, "harness.json")):
        vlib.gen_gomod(os.path.abspath(hd))
        p = subprocess.run(["go", "build", "-tags", "verif", "-o", "/dev/null", "./..."], cwd=hd, env=vlib.go_env(),
                           stdout=subprocess.PIPE, stderr=subprocess.STDOUT, text=True)
        print("setup: harness", h, "rc", p.returncode)
        if p.returncode != 0:
            print(p.stdout[-3000:])
PY
echo "setup: done"
