------------------------------ MODULE FanoutGraphGen ------------------------------
(* Generator of graph-level runs for C06: breadth-first = every configuration / wiring / sender within the
   bound, -simulate = random larger ones.  One JSON object per finished run: the configuration and the
   run parameters (what harness/fanoutgraph needs to build the graph with graph.Build and to send one
   payload), the leaves in depth-first order with the markers on their path (what the statement lets a
   leaf see), and what the model of today's code says about capabilities (strict comparison only). *)
EXTENDS FanoutGraphMC, Json
GBeh == [np |-> np, procs |-> procs, exps |-> exps,
         conn |-> [p \in 1..np |-> SetToSeq(conn[p])], connMut |-> connMut, rcv |-> SetToSeq(rcv),
         sender |-> sender, roIn |-> roIn, undecl |-> undecl,
         n |-> n,
         leaves |-> [c \in 1..n |-> [p |-> leaves[c].p, i |-> leaves[c].i, mut |-> leaves[c].mut, path |-> leaves[c].path]],
         adv |-> adv,
         pipecap |-> [p \in 1..np |-> PipeCap(p)]]
EmitG == Finished => PrintT(<<"BEH", ToJson(GBeh)>>)
=============================================================================
