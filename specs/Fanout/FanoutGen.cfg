SPECIFICATION Spec
CONSTANTS
  MaxN = 2
  AsyncKinds <- GenAsync
  Family = "full"
CONSTRAINT FamilyOK
INVARIANT Emit
INVARIANT Property
CHECK_DEADLOCK FALSE
