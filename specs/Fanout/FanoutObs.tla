------------------------------ MODULE FanoutObs ------------------------------
(* C06 -- observable layer and PROPERTY of a fan-out of one payload to several consumers.

   Everything in this module is written from the statement of C06, not from the code.  The same
   operators are evaluated
     * by FanoutMC on the implementation-shaped model Fanout.tla (design check, all schedules), and
     * by FanoutTrace on timelines recorded from the real fanoutconsumer / connector routers
       (monitor: the only source of a VIOLATION).

   Observables.  Slot 0 is the caller's own handle on the payload it passed in; slots 1..n are
   the consumers.  A "view" is what the holder of a payload handle sees when it looks at it now:
       d      content (canonical encoding; a digest string on real traces, the marker set in the model)
       marks  markers found in the content; a marker m is written only by consumer Owner(m)
       ro     the handle reports read-only
       obj    identity of the underlying object (used to say "shared", never to say WHO gets the
              original: the statement leaves that to the implementation)
   `last` describes the step that led to the current state together with the views before it, so
   that "nobody else's view changes" is a state invariant. *)
EXTENDS Integers, FiniteSets, Sequences

CONSTANT MaxN                     \* largest number of consumers

VARIABLES n, mut, fail, roIn,     \* the scenario: #consumers, declared MutatesData, failing, read-only input
          adv,                    \* what the fan-out advertises as its own MutatesData capability
          sentTo,                 \* [1..n -> content] what consumer c is to receive: the payload as it was at the
                                  \* moment of the call (graph level: as transformed by the processors of c's pipeline)
          pre,                    \* [1..n -> set of markers] markers legitimately written upstream of c (processors
                                  \* of c's own pipeline; {} for a plain fan-out)
          origProc,               \* graph level: a processor declared mutating -- or a connector that is, or that feeds
                                  \* a pipeline advertising mutation -- was handed the caller's own object
          held,                   \* consumers that have been invoked so far
          view,                   \* [0..MaxN -> view record]  current views (slot 0 = caller)
          dlv,                    \* [1..MaxN -> view record]  view at the moment of delivery
          ret,                    \* [isnil, has] : returned error is nil / set of consumers whose error it contains
          phase,                  \* "config" | "calling" | "returned"
          last                    \* [kind, c, k, panicked, before, heldBefore]

obsVars == <<n, mut, fail, roIn, adv, sentTo, pre, origProc, held, view, dlv, ret, phase, last>>

Cons     == 1..n
Owner(m) == m \div 10             \* marker = 10 * consumer + ordinal of its mutation
Declared(c)   == mut[c]
Undeclared(c) == ~mut[c]

(* ---- "every consumer receives content equal to what was sent" ---- *)
EqualAtDelivery == \A c \in held : dlv[c].d = sentTo[c]

(* ---- "every consumer is invoked even if an earlier one failed" ---- *)
AllInvoked == phase = "returned" => held = Cons

(* ---- "the returned error aggregates all failures" ---- *)
Failing == {c \in Cons : fail[c]}
ErrorAggregates == phase = "returned" => /\ ret.has = Failing
                                         /\ ret.isnil <=> (Failing = {})

(* ---- non-interference -------------------------------------------------------------------------
   The step `last` was taken by last.c (0 for steps of the fan-out itself and, at graph level, for
   the synchronous mutation of a processor, kind "proc", which happens before the data reaches the
   consumers downstream of it).  Every OTHER consumer
   that already held data must see exactly what it saw before the step. *)
Others        == last.heldBefore \ {last.c}
SameAsBefore(c) == view[c].d = last.before[c].d

(* "a consumer that does not declare that it mutates data never observes a change made by any other
   consumer" (+ no foreign marker ever shows up in what it holds) *)
NonInterference ==
    /\ \A c \in Others : Undeclared(c) => SameAsBefore(c)
    /\ \A c \in held : Undeclared(c) => \A m \in view[c].marks : Owner(m) = c \/ m \in pre[c]

(* "each mutating consumer works on data no one else can see": nobody else's step changes it, nothing
   it writes is visible elsewhere, and no other consumer holds the same object *)
ExclusiveMutable ==
    /\ \A c \in Others : Declared(c) => SameAsBefore(c)
    /\ \A c \in held : Declared(c) => \A m \in view[c].marks : Owner(m) = c \/ m \in pre[c]
    /\ \A c \in held : Declared(c) => \A c2 \in held \ {c} : view[c2].obj # view[c].obj

(* the declared right to mutate can be exercised: the handle a mutating consumer gets is writable *)
MutatorCanMutate ==
    /\ last.kind = "mutate" /\ Declared(last.c) => ~last.panicked
    /\ last.kind = "proc" => ~last.panicked          \* graph level: a declared-mutating processor stage
    /\ \A c \in held : Declared(c) => ~dlv[c].ro

(* "data shared by several non-mutating consumers is marked read-only so that an undeclared mutation
   panics instead of corrupting a sibling".  Only SHARED data has to be read-only: where a single
   consumer holds the object either outcome of an undeclared mutation is admitted. *)
SharedWith(c, vw, hs) == {c2 \in hs \ {c} : vw[c2].obj = vw[c].obj}
SharedIsReadOnly ==
    /\ \A c \in held : SharedWith(c, view, held) # {} => view[c].ro
    /\ ( /\ last.kind = "mutate" /\ Undeclared(last.c)
         /\ SharedWith(last.c, last.before, last.heldBefore) # {} ) => last.panicked

(* "[the] exporter stage acting on the original payload may mutate it": the fan-out advertises
   MutatesData exactly when it hands the caller's own object to a consumer that declared mutation.
     safety    : if it does not advertise, the caller's payload is never changed by a declared
                 mutation or by the fan-out itself (an UNDECLARED mutation of unshared data that
                 happens to succeed is the offender's business, see above);
     precision : with a mutable input, if it advertises, some declared-mutating consumer got the
                 caller's object (otherwise upstream clones for nothing).
   A read-only input is never handed to a mutating consumer (MutatorCanMutate). *)
OrigToMutator == origProc \/ \E c \in held : Declared(c) /\ view[c].obj = view[0].obj
AdvertiseIff ==
    /\ (~adv /\ ~(last.kind = "mutate" /\ Undeclared(last.c))) => view[0].d = last.before[0].d
    /\ ~adv => ~OrigToMutator
    /\ (phase = "returned" /\ ~roIn /\ adv) => OrigToMutator

Clauses == <<EqualAtDelivery, AllInvoked, ErrorAggregates, NonInterference, ExclusiveMutable,
             MutatorCanMutate, SharedIsReadOnly, AdvertiseIff>>
ClauseNames == <<"EqualAtDelivery", "AllInvoked", "ErrorAggregates", "NonInterference",
                 "ExclusiveMutable", "MutatorCanMutate", "SharedIsReadOnly", "AdvertiseIff">>
Property == \A i \in DOMAIN Clauses : Clauses[i]
=============================================================================
