------------------------------ MODULE FanoutTrace ------------------------------
(* Monitor for C06: evaluates the clauses of FanoutObs on content timelines recorded from the REAL
   code (harness/fanout: fanoutconsumer.New{Logs,Metrics,Traces,Profiles}, connector routers;
   harness/fanoutgraph: fan-outs wired by service/internal/graph.Build).

   observed.ndjson, one JSON object per line, many scenarios per file:
     {"ev":"reset","id":..,"sig":..,"via":..,"n":N,"mut":[..],"fail":[..],"roIn":b,"adv":b,
      "sent":[digest per consumer],"pre":[[markers] per consumer],"v":VIEWS}
     {"ev":"proc","decl":b,"o":object id,"p":panicked,"v":VIEWS}   graph level only: a processor / connector
                                                     acted on object o (decl = it declared MutatesData and wrote its marker)
     {"ev":"deliver","c":C,"v":VIEWS}                consumer C was invoked
     {"ev":"mutate","c":C,"k":K,"p":panicked,"v":VIEWS}   C wrote (or tried to write) marker 10*C+K
     {"ev":"return","isnil":b,"has":[C..],"v":VIEWS}  the fan-out returned; has = consumers whose error it contains
   VIEWS = views of slot 0 (the caller's handle) and of consumers 1..N AFTER the step, each
     {"d":digest of canonical proto bytes,"m":[markers found in the bytes],"ro":IsReadOnly(),"o":object id}
   (slots that were not invoked yet carry a dummy that no clause looks at).

   The log is deterministic: exactly one successor per state.  A clause that is false is REPORTED
   (PrintT "VIOL") and the run goes on, so every scenario of a batch gets its verdict in one TLC
   run; the check also requires #states = #lines + 1, i.e. that every line was consumed. *)
EXTENDS FanoutObs, TLC, Json

Log == ndJsonDeserialize("observed.ndjson")

VARIABLES l, cur          \* next line; [id, sig, via] of the current scenario
tvars == <<obsVars, l, cur>>

ToSet(s) == {s[i] : i \in DOMAIN s}
Rec(x)   == [d |-> x.d, marks |-> ToSet(x.m), ro |-> x.ro, obj |-> x.o]
Vw(e)    == [s \in 0..(Len(e.v) - 1) |-> Rec(e.v[s + 1])]
Dummy    == [d |-> "-", marks |-> {}, ro |-> FALSE, obj |-> -1]
StepRec(kind, c, k, p, bf, hb) == [kind |-> kind, c |-> c, k |-> k, panicked |-> p, before |-> bf, heldBefore |-> hb]

TInit == /\ l = 1 /\ cur = [id |-> -1, sig |-> "-", via |-> "-"]
         /\ n = 0 /\ mut = <<>> /\ fail = <<>> /\ roIn = FALSE /\ adv = FALSE /\ sentTo = <<>> /\ pre = <<>> /\ origProc = FALSE
         /\ held = {} /\ view = [s \in {0} |-> Dummy] /\ dlv = <<>>
         /\ ret = [isnil |-> TRUE, has |-> {}] /\ phase = "config"
         /\ last = StepRec("config", 0, 0, FALSE, view, {})

E == Log[l]
Is(kind) == l <= Len(Log) /\ E.ev = kind /\ l' = l + 1

TReset == /\ Is("reset")
          /\ cur' = [id |-> E.id, sig |-> E.sig, via |-> E.via]
          /\ n' = E.n /\ mut' = E.mut /\ fail' = E.fail /\ roIn' = E.roIn /\ adv' = E.adv
          /\ sentTo' = E.sent /\ pre' = [c \in 1..E.n |-> ToSet(E.pre[c])] /\ origProc' = FALSE
          /\ held' = {} /\ view' = Vw(E)
          /\ dlv' = [c \in 1..E.n |-> Dummy]
          /\ ret' = [isnil |-> TRUE, has |-> {}] /\ phase' = "calling"
          /\ last' = StepRec("call", 0, 0, FALSE, view', {})

Same == UNCHANGED <<n, mut, fail, roIn, adv, sentTo, pre, cur>>

TDeliver == /\ Is("deliver")
            /\ held' = held \cup {E.c}
            /\ view' = Vw(E)
            /\ dlv' = [dlv EXCEPT ![E.c] = view'[E.c]]
            /\ last' = StepRec("deliver", E.c, 0, FALSE, view, held)
            /\ UNCHANGED <<ret, phase, origProc>> /\ Same

TProc == /\ Is("proc")
         /\ view' = Vw(E)
         /\ origProc' = (origProc \/ (E.decl /\ E.o = view[0].obj))
         /\ last' = StepRec("proc", 0, 0, E.p, view, held)
         /\ UNCHANGED <<held, dlv, ret, phase>> /\ Same

TMutate == /\ Is("mutate")
           /\ view' = Vw(E)
           /\ last' = StepRec("mutate", E.c, E.k, E.p, view, held)
           /\ UNCHANGED <<held, dlv, ret, phase, origProc>> /\ Same

TReturn == /\ Is("return")
           /\ ret' = [isnil |-> E.isnil, has |-> ToSet(E.has)]
           /\ phase' = "returned"
           /\ view' = Vw(E)
           /\ last' = StepRec("return", 0, 0, FALSE, view, held)
           /\ UNCHANGED <<held, dlv, origProc>> /\ Same

TNext == TReset \/ TDeliver \/ TProc \/ TMutate \/ TReturn
TSpec == TInit /\ [][TNext]_tvars

Chk(ok, name) == ok \/ PrintT(<<"VIOL", ToJson([line |-> l - 1, id |-> cur.id, sig |-> cur.sig,
                                                   via |-> cur.via, clause |-> name])>>)
Report == /\ Chk(EqualAtDelivery,  "EqualAtDelivery")
          /\ Chk(AllInvoked,       "AllInvoked")
          /\ Chk(ErrorAggregates,  "ErrorAggregates")
          /\ Chk(NonInterference,  "NonInterference")
          /\ Chk(ExclusiveMutable, "ExclusiveMutable")
          /\ Chk(MutatorCanMutate, "MutatorCanMutate")
          /\ Chk(SharedIsReadOnly, "SharedIsReadOnly")
          /\ Chk(AdvertiseIff,     "AdvertiseIff")
=============================================================================
