------------------------------ MODULE FanoutGraph ------------------------------
(* C06, graph level -- pipelines behind receivers and connectors, as wired by
   service/internal/graph (graph.go buildComponents, receiver.go, connector.go) on top of the
   fan-out algorithm of Fanout.tla.

   Go                                                          here
   ----------------------------------------------------------  ---------------------------------
   fanOutNode = fanoutconsumer.NewX(exporters + connectors)    FanExec over ExpTargets(p)
   capabilitiesNode: MutatesData = fanOut.Capabilities()       PipeCap(p)
        || any processor.Capabilities().MutatesData
   capabilityconsumer.NewX(next, cap)                          only the advertised flag changes
   receiverNode: fanoutconsumer.NewX(capabilitiesNodes)        FanExec over the pipelines fed
   connectorNode (same signal): router = fan-out over the      ConnExec: own act, then FanExec over
        pipelines it feeds; advertised capability =            conn[p]; Cap = connMut[p] or a fed
        aggregateCap(connector, nexts)                         pipeline's PipeCap
   a processor / connector that declared MutatesData           StageExec (kind "proc"): writes its
        mutates what it is given, then passes it on            marker into the cell, same cell goes on

   The configuration is BUILT by actions; the data flow of one ConsumeX call is sequential Go code
   without scheduling freedom, so it is evaluated big-step into a timeline `tl` of the same events the
   harness records (proc / deliver / mutate / return) which is then played event by event through
   the observables of FanoutObs: the clauses of the statement are the SAME operators as for level 1.
   Consumers of FanoutObs = the leaf exporters reached by the payload, numbered in depth-first order.
   sentTo[c] / pre[c] = the markers of the declared-mutating stages on the path to leaf c.

   Deviations named: the order of consumers inside a fan-out node is a Go map order in the real
   graph; the model fixes one order (leaves, then the connector), the property is order-independent
   and identity is not compared.  Failures and asynchronous programs are level-1 subjects; here every
   declared-mutating leaf mutates inside the call and once more after the call returned, and (flag
   undecl) every non-declaring leaf then attempts an undeclared mutation.

   Recorded false alarm of the MODEL (never reported, fixed here): with the precision half of AdvertiseIff
   counting only stages that declare MutatesData themselves, TLC found (3 pipelines) a pipeline whose only
   exporter is a non-mutating connector feeding a read-only and a mutating pipeline: it advertises mutation
   (aggregateCap) although the connector's router clones for the mutating pipeline, so nobody writes to the
   original.  That is the conservative aggregate of connector.go, not a contradiction of the statement --
   the connector stage "may mutate" what it is given by handing it to a pipeline that advertises mutation --
   so `decl` of a connector stage is the aggregate (StageExec), on the real traces likewise. *)
EXTENDS FanoutObs, TLC

CONSTANTS MaxP,          \* pipelines
          ProcSeqs,      \* offered processor chains  (sequences of BOOLEAN = declared MutatesData)
          ExpSeqs,       \* offered leaf-exporter lists (sequences of BOOLEAN)
          WithConn,      \* BOOLEAN: offer connectors
          UndeclSet      \* subset of BOOLEAN: values offered for the run flag undecl

VARIABLES np, procs, exps, conn, connMut, rcv,     \* configuration (rcv = pipelines of the shared receiver)
          sender, undecl,                          \* the run: 0 = shared receiver, p = probe receiver of p
          tl, pos, objOf, leaves, gphase           \* the timeline of the run and the position up to which it was played

cfgVars == <<np, procs, exps, conn, connMut, rcv>>
gVars == <<cfgVars, sender, undecl, tl, pos, objOf, leaves, gphase>>
vars == <<obsVars, gVars>>

MaxObj == 4 * MaxP + 2
Pipes == 1..np

ProcMark(p, i) == 10 * (50 + 3 * p + i) + 1
ConnMark(p)    == 10 * (80 + p) + 1

RECURSIVE SetToSeq(_)
SetToSeq(S) == IF S = {} THEN <<>> ELSE LET m == CHOOSE x \in S : \A y \in S : x <= y IN <<m>> \o SetToSeq(S \ {m})
RECURSIVE Flat(_)
Flat(ss) == IF ss = <<>> THEN <<>> ELSE Head(ss) \o Flat(Tail(ss))
ToSet(s) == {s[i] : i \in DOMAIN s}

(* ---------------- capabilities: transcription of graph.go / connector.go / fanoutconsumer ---- *)
RECURSIVE PipeCap(_)
Target(kind, p, i) == [kind |-> kind, p |-> p, i |-> i]
ExpTargets(p) == [i \in 1..Len(exps[p]) |-> Target("leaf", p, i)]
                 \o (IF conn[p] # {} THEN <<Target("conn", p, 0)>> ELSE <<>>)
Cap(t) == CASE t.kind = "leaf" -> exps[t.p][t.i]
            [] t.kind = "conn" -> connMut[t.p] \/ \E q \in conn[t.p] : PipeCap(q)     \* aggregateCap
            [] t.kind = "pipe" -> PipeCap(t.p)
FanCap(ts) == (\E i \in DOMAIN ts : Cap(ts[i])) /\ (\A i \in DOMAIN ts : Cap(ts[i]))
PipeCap(p) == FanCap(ExpTargets(p)) \/ \E i \in DOMAIN procs[p] : procs[p][i]

(* ---------------- reachable pipelines, leaves and path markers (depth first) ---------------- *)
ProcMarks(p) == SelectSeq([i \in 1..Len(procs[p]) |-> IF procs[p][i] THEN ProcMark(p, i) ELSE 0], LAMBDA m : m # 0)
RECURSIVE Walk(_, _)
Walk(p, prefix) ==
    LET here == prefix \o ProcMarks(p)
        down == here \o (IF connMut[p] THEN <<ConnMark(p)>> ELSE <<>>)
        qs == SetToSeq(conn[p])
    IN <<[p |-> p, path |-> here]>> \o Flat([k \in 1..Len(qs) |-> Walk(qs[k], down)])
Feeds(s) == IF s = 0 THEN rcv ELSE {s}
Visit(s) == LET fs == SetToSeq(Feeds(s)) IN Flat([k \in 1..Len(fs) |-> Walk(fs[k], <<>>)])
UniquePaths(s) == LET v == Visit(s) IN \A a, b \in DOMAIN v : a # b => v[a].p # v[b].p
LeavesOf(s) == LET v == Visit(s)
               IN Flat([k \in 1..Len(v) |-> [i \in 1..Len(exps[v[k].p]) |->
                                                [p |-> v[k].p, i |-> i, mut |-> exps[v[k].p][i], path |-> v[k].path]]])
LeafIdx(lv, p, i) == CHOOSE c \in DOMAIN lv : lv[c].p = p /\ lv[c].i = i

(* ---------------- big-step execution of one ConsumeX call --------------------------------- *)
Ev(S, kind, c, k, pan, decl, o) ==
    [kind |-> kind, c |-> c, k |-> k, panicked |-> pan, decl |-> decl, o |-> o, heap |-> S.heap, objOf |-> S.objOf]
Emit(S, kind, c, k, pan, decl, o) == [S EXCEPT !.tl = Append(@, Ev(S, kind, c, k, pan, decl, o))]
MutCell(S, o, m) == IF S.heap[o].ro THEN S ELSE [S EXCEPT !.heap[o].content = @ \cup {m}]

LeafMutate(S, c, k) == LET o == S.objOf[c] IN Emit(MutCell(S, o, 10 * c + k), "mutate", c, k, S.heap[o].ro, FALSE, o)
LeafExec(S, o, p, i) ==
    LET c == LeafIdx(S.leaves, p, i)
        S1 == Emit([S EXCEPT !.objOf[c] = o], "deliver", c, 0, FALSE, FALSE, o)
    IN IF exps[p][i] THEN LeafMutate(S1, c, 1) ELSE S1
(* a processor / connector stage: `acts` = it writes its marker; `decl` = what it is DECLARED to its upstream
   fan-out as: for a processor its own MutatesData, for a connector the aggregate (itself or a pipeline it
   feeds advertises mutation) -- it "may mutate" the payload by handing it to such a pipeline *)
StageExec(S, o, decl, acts, m) ==
    Emit(IF acts THEN MutCell(S, o, m) ELSE S, "proc", 0, 0, acts /\ S.heap[o].ro, decl, o)

RECURSIVE ProcFold(_, _, _, _), MutFold(_, _, _, _, _), RoFold(_, _, _, _), FanExec(_, _, _), TargetExec(_, _, _)
ProcFold(S, o, p, i) == IF i > Len(procs[p]) THEN S
                        ELSE ProcFold(StageExec(S, o, procs[p][i], procs[p][i], ProcMark(p, i)), o, p, i + 1)
TargetExec(S, o, t) ==
    CASE t.kind = "leaf" -> LeafExec(S, o, t.p, t.i)
      [] t.kind = "pipe" -> FanExec(ProcFold(S, o, t.p, 1), o, ExpTargets(t.p))
      [] t.kind = "conn" -> LET qs == SetToSeq(conn[t.p])
                            IN FanExec(StageExec(S, o, Cap(t), connMut[t.p], ConnMark(t.p)), o,
                                       [k \in 1..Len(qs) |-> Target("pipe", qs[k], 0)])
CloneCell(S, o) == LET no == S.nobj + 1
                   IN [S EXCEPT !.nobj = no, !.heap[no] = [content |-> S.heap[o].content, ro |-> FALSE]]
MutFold(S, o, M, k, noRo) ==                      \* fanoutconsumer: the mutating consumers
    IF k > Len(M) THEN S
    ELSE IF k < Len(M) \/ ~noRo \/ S.heap[o].ro
         THEN LET S1 == CloneCell(S, o) IN MutFold(TargetExec(S1, S1.nobj, M[k]), o, M, k + 1, noRo)
         ELSE MutFold(TargetExec(S, o, M[k]), o, M, k + 1, noRo)
RoFold(S, o, R, k) == IF k > Len(R) THEN S ELSE RoFold(TargetExec(S, o, R[k]), o, R, k + 1)
FanExec(S, o, ts) ==
    LET M == SelectSeq(ts, LAMBDA t : Cap(t))
        R == SelectSeq(ts, LAMBDA t : ~Cap(t))
        S1 == MutFold(S, o, M, 1, Len(R) = 0)
        S2 == IF Len(R) > 1 /\ ~S1.heap[o].ro THEN [S1 EXCEPT !.heap[o].ro = TRUE] ELSE S1
    IN RoFold(S2, o, R, 1)

RECURSIVE AfterFold(_, _)
AfterFold(S, c) ==                                 \* after the call returned: late mutations, consumer order
    IF c > Len(S.leaves) THEN S
    ELSE IF S.leaves[c].mut THEN AfterFold(LeafMutate(S, c, 2), c + 1)
         ELSE IF S.undecl THEN AfterFold(LeafMutate(S, c, 1), c + 1)
         ELSE AfterFold(S, c + 1)

TopTargets(s) == LET fs == SetToSeq(Feeds(s)) IN [k \in 1..Len(fs) |-> Target("pipe", fs[k], 0)]
RunTimeline(s, ro, u) ==
    LET S0 == [heap |-> [o \in 0..MaxObj |-> [content |-> {}, ro |-> (o = 0 /\ ro)]], nobj |-> 0, tl |-> <<>>,
               objOf |-> [c \in 1..MaxN |-> 0], leaves |-> LeavesOf(s), undecl |-> u]
        S1 == FanExec(S0, 0, TopTargets(s))
        S2 == Emit(S1, "return", 0, 0, FALSE, FALSE, 0)
    IN AfterFold(S2, 1).tl

(* ---------------- observables ------------------------------------------------------------- *)
ViewOf(hp, o) == [d |-> hp[o].content, marks |-> hp[o].content, ro |-> hp[o].ro, obj |-> o]
NoView == [d |-> {}, marks |-> {}, ro |-> FALSE, obj |-> -1]
Views(hp, ob, hs) == [s \in 0..MaxN |-> IF s = 0 THEN ViewOf(hp, 0)
                                         ELSE IF s \in hs THEN ViewOf(hp, ob[s]) ELSE NoView]
EmptyHeap == [o \in 0..MaxObj |-> [content |-> {}, ro |-> FALSE]]

Init ==
    /\ np = 0 /\ procs = <<>> /\ exps = <<>> /\ conn = <<>> /\ connMut = <<>> /\ rcv = {}
    /\ sender = 0 /\ undecl = FALSE /\ tl = <<>> /\ pos = 0 /\ leaves = <<>> /\ gphase = "config"
    /\ objOf = [c \in 1..MaxN |-> 0]
    /\ n = 0 /\ mut = [c \in 1..MaxN |-> FALSE] /\ fail = [c \in 1..MaxN |-> FALSE]
    /\ roIn = FALSE /\ adv = FALSE
    /\ sentTo = [c \in 1..MaxN |-> {}] /\ pre = [c \in 1..MaxN |-> {}] /\ origProc = FALSE
    /\ held = {} /\ view = Views(EmptyHeap, objOf, {}) /\ dlv = [c \in 1..MaxN |-> NoView]
    /\ ret = [isnil |-> TRUE, has |-> {}] /\ phase = "config"
    /\ last = [kind |-> "config", c |-> 0, k |-> 0, panicked |-> FALSE, before |-> view, heldBefore |-> {}]

ObsSame == UNCHANGED obsVars
RunSame == UNCHANGED <<sender, undecl, tl, pos, objOf, leaves>>

(* pipelines are added with their processors and leaf exporters; connectors point to later pipelines *)
AddPipeline ==
    /\ gphase = "config" /\ np < MaxP
    /\ \E ps \in ProcSeqs, es \in ExpSeqs :
          /\ procs' = Append(procs, ps) /\ exps' = Append(exps, es)
    /\ np' = np + 1 /\ conn' = Append(conn, {}) /\ connMut' = Append(connMut, FALSE)
    /\ UNCHANGED <<rcv, gphase>> /\ RunSame /\ ObsSame

AddConnector ==
    /\ gphase = "config" /\ WithConn /\ np >= 2
    /\ \E p \in 1..(np - 1), qs \in (SUBSET ((1..np))) \ {{}}, m \in BOOLEAN :
          /\ conn[p] = {} /\ \A q \in qs : q > p
          /\ \A p2 \in (p + 1)..np : conn[p2] = {}          \* connectors are added in pipeline order
          /\ conn' = [conn EXCEPT ![p] = qs] /\ connMut' = [connMut EXCEPT ![p] = m]
    /\ UNCHANGED <<np, procs, exps, rcv, gphase>> /\ RunSame /\ ObsSame

WellFormed == \A p \in Pipes : Len(exps[p]) > 0 \/ conn[p] # {}      \* every pipeline has an exporter

Wire ==                                                       \* choose the pipelines of the shared receiver
    /\ gphase = "config" /\ np >= 1 /\ WellFormed
    /\ \E r \in (SUBSET Pipes) \ {{}} : rcv' = r
    /\ gphase' = "wired"
    /\ UNCHANGED <<np, procs, exps, conn, connMut>> /\ RunSame /\ ObsSame

Send ==
    /\ gphase = "wired"
    /\ \E s \in 0..np, ro \in BOOLEAN, u \in UndeclSet :
          /\ UniquePaths(s) /\ LeavesOf(s) # <<>>
          /\ sender' = s /\ undecl' = u /\ roIn' = ro
          /\ leaves' = LeavesOf(s)
          /\ n' = Len(leaves')
          /\ mut' = [c \in 1..MaxN |-> c <= n' /\ leaves'[c].mut]
          /\ sentTo' = [c \in 1..MaxN |-> IF c <= n' THEN ToSet(leaves'[c].path) ELSE {}]
          /\ pre' = sentTo'
          /\ tl' = RunTimeline(s, ro, u)
          /\ view' = Views([EmptyHeap EXCEPT ![0].ro = ro], objOf, {})
          /\ last' = [kind |-> "call", c |-> 0, k |-> 0, panicked |-> FALSE, before |-> view', heldBefore |-> {}]
    /\ adv' = FanCap(TopTargets(sender'))
    /\ pos' = 1 /\ phase' = "calling" /\ gphase' = "run"
    /\ UNCHANGED <<cfgVars, objOf, fail, origProc, held, dlv, ret>>

(* the timeline is kept in the state: recomputing it at every played step is ~6x slower in TLC *)
Play ==
    /\ gphase = "run" /\ pos <= Len(tl)
    /\ LET e == tl[pos]
           hs == IF e.kind = "deliver" THEN held \cup {e.c} ELSE held
       IN /\ held' = hs
          /\ objOf' = e.objOf
          /\ view' = Views(e.heap, e.objOf, hs)
          /\ dlv' = IF e.kind = "deliver" THEN [dlv EXCEPT ![e.c] = ViewOf(e.heap, e.o)] ELSE dlv
          /\ origProc' = (origProc \/ (e.kind = "proc" /\ e.decl /\ e.o = 0))
          /\ phase' = IF e.kind = "return" THEN "returned" ELSE phase
          /\ last' = [kind |-> e.kind, c |-> e.c, k |-> e.k, panicked |-> e.panicked, before |-> view, heldBefore |-> held]
    /\ pos' = pos + 1
    /\ UNCHANGED <<cfgVars, sender, undecl, tl, leaves, gphase, n, mut, fail, roIn, adv, sentTo, pre, ret>>

Next == AddPipeline \/ AddConnector \/ Wire \/ Send \/ Play
Spec == Init /\ [][Next]_vars
Finished == gphase = "run" /\ pos > Len(tl)
=============================================================================
