SPECIFICATION Spec
CONSTANTS
  MaxN = 6
  MaxP = 2
  ProcSeqs <- Procs1
  ExpSeqs <- Exps1
  WithConn = TRUE
  UndeclSet <- B
INVARIANT EmitG
INVARIANT Property
CHECK_DEADLOCK FALSE
