------------------------------ MODULE Fanout ------------------------------
(* C06 -- implementation-shaped model of internal/fanoutconsumer/{logs,metrics,traces,profiles}.go
   (the four files are textually the same algorithm) and of the consumers it feeds.

   Go                                                   here
   ---------------------------------------------------  -------------------------------------------
   NewLogs: split consumers by Capabilities()           MutSeq / RoSeq (order preserved)
   NewLogs: 1 non-mutating consumer -> returned as is   same behaviour as the general path with
                                                        RoSeq of length 1 (no mark, original passed)
   Capabilities(): len(mutable)>0 && len(readonly)==0   Advertised
   for i < len(mutable)-1: Consume(clone(ld))           AlgDeliver, ph = "mut", i < Len(MutSeq)
   last mutable: ld if no readonly && !ld.IsReadOnly()  AlgDeliver, ph = "mut", i = Len(MutSeq)
                 else clone(ld)
   if len(readonly) > 1 && !IsReadOnly: MarkReadOnly    MarkRO
   for readonly: Consume(ld)                            AlgDeliver, ph = "ro"
   return errs (multierr of every consumer's error)     Return
   pdata: CopyTo = deep copy into a fresh, writable     Clone: new heap cell, same content, ro = FALSE
          object; every mutator asserts !readonly       Mutate: panics iff the cell is read-only

   A consumer is an environment process with a program: mutate inside the call (sync), and/or
   mutate once more later through the handle it kept (async: "any" = at any later moment, the
   universally quantified schedule of the design check; "next" = just before the next sibling is
   invoked, "end" = after the fan-out returned -- the two fixed timings used by the generator so
   that a behaviour is a script the Go driver can follow).  A consumer that did NOT declare
   MutatesData but has a program is the "undeclared mutation" of the statement.

   Deviations named: goroutine-level concurrency of async consumers is modelled as interleaving of
   atomic mutations (pdata gives no atomicity guarantee to concurrent writers anyway); the payload
   is one heap cell -- that a clone is deep at every container level is observed on the real code
   by the harness (markers are written at every level), deep-copy correctness itself is C07. *)
EXTENDS FanoutObs, TLC

CONSTANT AsyncKinds               \* subset of {"no", "any", "next", "end"} offered to programs

VARIABLES prog,                   \* [1..MaxN -> [sync : BOOLEAN, async : AsyncKinds]]
          heap,                   \* [0..MaxN -> [content : set of markers, ro : BOOLEAN]]  cell 0 = caller's object
          nobj,                   \* number of cells allocated by cloning
          objOf,                  \* [1..MaxN -> cell] the handle each consumer keeps
          pc,                     \* [ph, i, busy]: position in ConsumeLogs; busy = consumer still inside its call
          pend,                   \* consumers that still owe their asynchronous mutation
          nmut,                   \* [1..MaxN -> how many mutations the consumer has attempted]
          order                   \* sequence of consumers in invocation order (generator / drift only)

implVars == <<prog, heap, nobj, objOf, pc, pend, nmut, order>>
vars == <<obsVars, implVars>>

Idx == [i \in 1..n |-> i]
MutSeq == SelectSeq(Idx, LAMBDA c : mut[c])
RoSeq  == SelectSeq(Idx, LAMBDA c : ~mut[c])
Advertised == Len(MutSeq) > 0 /\ Len(RoSeq) = 0

ViewOf(hp, o) == [d |-> hp[o].content, marks |-> hp[o].content, ro |-> hp[o].ro, obj |-> o]
NoView == [d |-> {}, marks |-> {}, ro |-> FALSE, obj |-> -1]
Views(hp, ob, hs) == [s \in 0..MaxN |-> IF s = 0 THEN ViewOf(hp, 0)
                                         ELSE IF s \in hs THEN ViewOf(hp, ob[s]) ELSE NoView]

Programs == [sync : BOOLEAN, async : AsyncKinds]
Idle == [sync |-> FALSE, async |-> "no"]

(* The scenario is BUILT by actions (AddConsumer*, then Start), so that breadth-first search is the
   exhaustive set of scenarios up to MaxN consumers and -simulate yields random larger ones.
   Consumers beyond n are inert. *)
Init ==
    /\ n = 0
    /\ mut = [c \in 1..MaxN |-> FALSE] /\ fail = [c \in 1..MaxN |-> FALSE]
    /\ prog = [c \in 1..MaxN |-> Idle]
    /\ roIn = FALSE
    /\ adv = FALSE
    /\ heap = [o \in 0..MaxN |-> [content |-> {}, ro |-> FALSE]]
    /\ nobj = 0
    /\ objOf = [c \in 1..MaxN |-> 0]
    /\ sentTo = [c \in 1..MaxN |-> {}] /\ pre = [c \in 1..MaxN |-> {}] /\ origProc = FALSE
    /\ held = {}
    /\ view = Views(heap, objOf, {})
    /\ dlv = [c \in 1..MaxN |-> NoView]
    /\ ret = [isnil |-> TRUE, has |-> {}]
    /\ phase = "config"
    /\ last = [kind |-> "config", c |-> 0, k |-> 0, panicked |-> FALSE, before |-> view, heldBefore |-> {}]
    /\ pc = [ph |-> "config", i |-> 1, busy |-> 0]
    /\ pend = {}
    /\ nmut = [c \in 1..MaxN |-> 0]
    /\ order = <<>>

AddConsumer ==
    /\ phase = "config" /\ n < MaxN
    /\ \E m \in BOOLEAN, f \in BOOLEAN, p \in Programs :
          /\ n' = n + 1
          /\ mut' = [mut EXCEPT ![n + 1] = m]
          /\ fail' = [fail EXCEPT ![n + 1] = f]
          /\ prog' = [prog EXCEPT ![n + 1] = p]
    /\ UNCHANGED <<roIn, adv, sentTo, pre, origProc, held, view, dlv, ret, phase, last, heap, nobj, objOf, pc, pend, nmut, order>>

(* the caller invokes ConsumeX(ctx, payload) on the fan-out built by NewX(consumers) *)
Start ==
    /\ phase = "config" /\ n >= 1
    /\ \E r \in BOOLEAN :
          /\ roIn' = r
          /\ heap' = [heap EXCEPT ![0].ro = r]
    /\ adv' = Advertised
    /\ view' = Views(heap', objOf, {})
    /\ last' = [kind |-> "call", c |-> 0, k |-> 0, panicked |-> FALSE, before |-> view', heldBefore |-> {}]
    /\ phase' = "calling"
    /\ pc' = [ph |-> IF Len(MutSeq) > 0 THEN "mut" ELSE "mark", i |-> 1, busy |-> 0]
    /\ UNCHANGED <<n, mut, fail, prog, sentTo, pre, origProc, held, dlv, ret, nobj, objOf, pend, nmut, order>>

Scenario == UNCHANGED <<n, mut, fail, roIn, adv, sentTo, pre, origProc, prog>>

(* ---- the consumer is invoked with cell o ---- *)
Deliver(c, o, hp, no, nextpc) ==
    /\ heap' = hp /\ nobj' = no
    /\ objOf' = [objOf EXCEPT ![c] = o]
    /\ held' = held \cup {c}
    /\ view' = Views(hp, objOf', held')
    /\ dlv' = [dlv EXCEPT ![c] = ViewOf(hp, o)]
    /\ last' = [kind |-> "deliver", c |-> c, k |-> 0, panicked |-> FALSE, before |-> view, heldBefore |-> held]
    /\ pc' = [nextpc EXCEPT !.busy = IF prog[c].sync THEN c ELSE 0]
    /\ pend' = IF prog[c].async # "no" THEN pend \cup {c} ELSE pend
    /\ order' = Append(order, c)
    /\ UNCHANGED <<ret, phase, nmut>>

CloneInto(no) == [heap EXCEPT ![no] = [content |-> heap[0].content, ro |-> FALSE]]

AfterMut(i) == IF i < Len(MutSeq) THEN [ph |-> "mut", i |-> i + 1, busy |-> 0]
                                  ELSE [ph |-> "mark", i |-> 1, busy |-> 0]
AfterRo(j)  == IF j < Len(RoSeq) THEN [ph |-> "ro", i |-> j + 1, busy |-> 0]
                                 ELSE [ph |-> "ret", i |-> 1, busy |-> 0]

(* a consumer with async = "next" acts before the next sibling is invoked *)
NextDue == {c \in pend : prog[c].async = "next" /\ pc.busy # c}

AlgDeliver ==
    /\ phase = "calling" /\ pc.busy = 0 /\ NextDue = {}
    /\ \/ /\ pc.ph = "mut" /\ pc.i < Len(MutSeq)                       \* clone for all but the last
          /\ Deliver(MutSeq[pc.i], nobj + 1, CloneInto(nobj + 1), nobj + 1, AfterMut(pc.i))
       \/ /\ pc.ph = "mut" /\ pc.i = Len(MutSeq)                       \* the last mutating consumer
          /\ IF Len(RoSeq) = 0 /\ ~heap[0].ro
             THEN Deliver(MutSeq[pc.i], 0, heap, nobj, AfterMut(pc.i))
             ELSE Deliver(MutSeq[pc.i], nobj + 1, CloneInto(nobj + 1), nobj + 1, AfterMut(pc.i))
       \/ /\ pc.ph = "ro" /\ pc.i <= Len(RoSeq)
          /\ Deliver(RoSeq[pc.i], 0, heap, nobj, AfterRo(pc.i))
    /\ Scenario

MarkRO ==
    /\ phase = "calling" /\ pc.busy = 0 /\ pc.ph = "mark"
    /\ heap' = IF Len(RoSeq) > 1 /\ ~heap[0].ro THEN [heap EXCEPT ![0].ro = TRUE] ELSE heap
    /\ view' = Views(heap', objOf, held)
    /\ last' = [kind |-> "mark", c |-> 0, k |-> 0, panicked |-> FALSE, before |-> view, heldBefore |-> held]
    /\ pc' = IF Len(RoSeq) > 0 THEN [ph |-> "ro", i |-> 1, busy |-> 0] ELSE [ph |-> "ret", i |-> 1, busy |-> 0]
    /\ UNCHANGED <<nobj, objOf, held, dlv, ret, phase, pend, nmut, order>>
    /\ Scenario

(* ---- a mutation through the handle consumer c keeps: pdata asserts the shared state flag ---- *)
Mutate(c) ==
    LET o == objOf[c]
        k == nmut[c] + 1
        boom == heap[o].ro
    IN /\ heap' = IF boom THEN heap ELSE [heap EXCEPT ![o].content = @ \cup {10 * c + k}]
       /\ nmut' = [nmut EXCEPT ![c] = k]
       /\ view' = Views(heap', objOf, held)
       /\ last' = [kind |-> "mutate", c |-> c, k |-> k, panicked |-> boom, before |-> view, heldBefore |-> held]
       /\ UNCHANGED <<nobj, objOf, held, dlv, ret, phase, order>>

SyncMutate ==
    /\ pc.busy # 0
    /\ Mutate(pc.busy)
    /\ pc' = [pc EXCEPT !.busy = 0]
    /\ UNCHANGED pend
    /\ Scenario

Scripted(c) == prog[c].async \in {"next", "end"}
Due(c) ==
    /\ c \in pend /\ pc.busy # c
    /\ CASE prog[c].async = "any"  -> TRUE
         [] prog[c].async = "next" -> \/ (phase = "calling" /\ pc.busy = 0 /\ pc.ph \in {"mut", "ro"})
                                      \/ phase = "returned"
         [] prog[c].async = "end"  -> phase = "returned"
         [] OTHER -> FALSE
\* scripted timings run in consumer order, so that a generated behaviour is one fixed script
AsyncEnabled(c) ==
    /\ Due(c)
    /\ Scripted(c) => \A c2 \in 1..(c - 1) : ~(Scripted(c2) /\ Due(c2))

AsyncMutate(c) ==
    /\ AsyncEnabled(c)
    /\ Mutate(c)
    /\ pend' = pend \ {c}
    /\ UNCHANGED pc
    /\ Scenario

Return ==
    /\ phase = "calling" /\ pc.busy = 0 /\ pc.ph = "ret"
    /\ ret' = [isnil |-> ({c \in held : fail[c]} = {}), has |-> {c \in held : fail[c]}]   \* errs = multierr of all results
    /\ phase' = "returned"
    /\ last' = [kind |-> "return", c |-> 0, k |-> 0, panicked |-> FALSE, before |-> view, heldBefore |-> held]
    /\ pc' = [pc EXCEPT !.ph = "done"]
    /\ UNCHANGED <<heap, nobj, objOf, held, view, dlv, pend, nmut, order>>
    /\ Scenario

Next == AddConsumer \/ Start \/ AlgDeliver \/ MarkRO \/ SyncMutate \/ Return \/ \E c \in 1..MaxN : AsyncMutate(c)
Spec == Init /\ [][Next]_vars

Finished == phase = "returned" /\ pend = {}
=============================================================================
