SPECIFICATION Spec
CONSTANTS
  MaxN = 3
  AsyncKinds <- MCAsync
INVARIANT TypeOK
INVARIANT EqualAtDelivery
INVARIANT AllInvoked
INVARIANT ErrorAggregates
INVARIANT NonInterference
INVARIANT ExclusiveMutable
INVARIANT MutatorCanMutate
INVARIANT SharedIsReadOnly
INVARIANT AdvertiseIff
CHECK_DEADLOCK FALSE
