------------------------------ MODULE FanoutMC ------------------------------
(* Exhaustive design check of Fanout.tla: every scenario (number of consumers <= MaxN, capability
   vector, failure vector, read-only or mutable input, every program) and every schedule of the
   asynchronous mutations ("any"); all clauses of the statement are invariants. *)
EXTENDS Fanout
MCAsync == {"no", "any"}
TypeOK == /\ held \subseteq Cons /\ pend \subseteq held
          /\ \A c \in held : objOf[c] \in 0..nobj
          /\ nobj <= MaxN
=============================================================================
