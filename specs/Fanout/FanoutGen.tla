------------------------------ MODULE FanoutGen ------------------------------
(* Scenario generator for C06.  Breadth-first search enumerates EVERY scenario with at most MaxN
   consumers (capability vector x failure vector x read-only input x program per consumer with the
   two scripted asynchronous timings "next"/"end"); -simulate draws random larger ones.  Each
   finished behaviour is printed as one JSON object: the scenario (what the Go driver needs) and
   what the implementation-shaped model says about it (obj/order/marks: used for the strict
   comparison = drift only; mustpanic/errs: what the statement requires).

   Family restricts the product for the larger bounds:
     "full"  everything
     "progs" no consumer fails            (capabilities x programs)
     "fails" no consumer has a program    (capabilities x failures) *)
EXTENDS Fanout, Json
CONSTANT Family
GenAsync == {"no", "next", "end"}

FamilyOK == \/ Family = "full"
            \/ Family = "progs" /\ \A c \in 1..MaxN : ~fail[c]
            \/ Family = "fails" /\ \A c \in 1..MaxN : prog[c] = Idle

Sharers(c) == {c2 \in Cons \ {c} : objOf[c2] = objOf[c]}
Beh == [n     |-> n,
        mut   |-> [c \in Cons |-> mut[c]],
        fail  |-> [c \in Cons |-> fail[c]],
        sync  |-> [c \in Cons |-> prog[c].sync],
        async |-> [c \in Cons |-> prog[c].async],
        roIn  |-> roIn,
        \* ---- required by the statement
        errs      |-> {c \in Cons : fail[c]},
        mustpanic |-> {c \in Cons : ~mut[c] /\ nmut[c] > 0 /\ Sharers(c) # {}},
        \* ---- what the model of today's code does (strict comparison, drift only)
        adv   |-> adv,
        obj   |-> [c \in Cons |-> objOf[c]],
        order |-> order,
        marks |-> [c \in Cons |-> heap[objOf[c]].content],
        nmut  |-> [c \in Cons |-> nmut[c]]]

Emit == Finished => PrintT(<<"BEH", ToJson(Beh)>>)
=============================================================================
