SPECIFICATION Spec
CONSTANTS
  MaxN = 6
  MaxP = 2
  ProcSeqs <- Procs1
  ExpSeqs <- Exps1
  WithConn = TRUE
  UndeclSet <- B
INVARIANT TypeOK
INVARIANT EqualAtDelivery
INVARIANT AllInvoked
INVARIANT ErrorAggregates
INVARIANT NonInterference
INVARIANT ExclusiveMutable
INVARIANT MutatorCanMutate
INVARIANT SharedIsReadOnly
INVARIANT AdvertiseIff
CHECK_DEADLOCK FALSE
