SPECIFICATION Spec
CONSTANTS
  MaxN = 6
  MaxP = 2
  ProcSeqs <- Procs2
  ExpSeqs <- Exps2
  WithConn = TRUE
INVARIANT TypeOK
INVARIANT EqualAtDelivery
INVARIANT AllInvoked
INVARIANT ErrorAggregates
INVARIANT NonInterference
INVARIANT ExclusiveMutable
INVARIANT MutatorCanMutate
INVARIANT SharedIsReadOnly
INVARIANT AdvertiseIff
CHECK_DEADLOCK FALSE
