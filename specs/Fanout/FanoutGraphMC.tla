------------------------------ MODULE FanoutGraphMC ------------------------------
(* Exhaustive design check at graph level: every configuration of <= MaxP pipelines built from the
   offered processor chains / exporter lists (and connectors), every choice of the shared receiver's
   pipelines, every sender (shared receiver or the probe receiver of one pipeline), read-only or
   mutable input; the clauses of FanoutObs are invariants of every played step. *)
EXTENDS FanoutGraph
B == BOOLEAN
OnlyTrue == {TRUE}
Exps0  == {<<>>, <<FALSE>>, <<TRUE>>}
ProcsT == {<<>>, <<TRUE>>}
Procs2 == {<<>>, <<FALSE>>, <<TRUE>>, <<FALSE, TRUE>>, <<TRUE, FALSE>>}
Procs1 == {<<>>, <<FALSE>>, <<TRUE>>}
Exps2  == {<<>>, <<FALSE>>, <<TRUE>>, <<FALSE, FALSE>>, <<FALSE, TRUE>>, <<TRUE, FALSE>>, <<TRUE, TRUE>>}
Exps1  == {<<>>, <<FALSE>>, <<TRUE>>, <<FALSE, TRUE>>, <<TRUE, TRUE>>}
TypeOK == n <= MaxN /\ held \subseteq Cons
=============================================================================
