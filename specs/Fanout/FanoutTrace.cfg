SPECIFICATION TSpec
CONSTANTS
  MaxN = 8
INVARIANT Report
CHECK_DEADLOCK FALSE
