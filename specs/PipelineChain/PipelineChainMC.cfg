SPECIFICATION Spec
CONSTANTS
  Items = {"a", "b", "c", "d"}
  Batch1 = 2
  Batch2 = 3
  QueueCap = 1
INVARIANTS NoSilentLoss ExactlyOnceIfClean NothingInvented NoDuplicates
CHECK_DEADLOCK FALSE
