-------------------------- MODULE PipelineChainGen --------------------------
(* Script generator for E07: behaviours of PipelineChain.tla projected to what the driver controls (order of injections, pauses
   that let the batch timers fire, the moment of the shutdown request, outcome of the k-th export call). *)
EXTENDS PipelineChain, Json
VARIABLES steps, outs
gvars == <<vars, steps, outs>>
GInit == Init /\ steps = <<>> /\ outs = <<>>
Pause(s) == IF phase = "run" /\ (s = <<>> \/ s[Len(s)].op # "pause") THEN Append(s, [op |-> "pause", item |-> ""]) ELSE s
GNext ==
  \/ \E i \in Items : Inject(i) /\ steps' = Append(steps, [op |-> "inject", item |-> i]) /\ UNCHANGED outs
  \/ \E n \in 1..Batch1 : Send1(n) /\ steps' = Pause(steps) /\ UNCHANGED outs
  \/ \E n \in 1..Batch2 : Send2(n) /\ UNCHANGED <<steps, outs>>
  \/ Dequeue /\ UNCHANGED <<steps, outs>>
  \/ \E o \in {"ok", "perm"} : Export(o) /\ outs' = Append(outs, IF phase # "run" /\ o = "ok" THEN "slow" ELSE o) /\ steps' = Pause(steps)
  \/ Step /\ steps' = (IF phase = "run" THEN Append(steps, [op |-> "shutdown", item |-> ""]) ELSE steps) /\ UNCHANGED outs
GSpec == GInit /\ [][GNext]_gvars
EmitScript == Done => PrintT(<<"BEH", ToJson([steps |-> steps, outcomes |-> outs])>>)
=============================================================================
