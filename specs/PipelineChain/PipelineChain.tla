---------------------------- MODULE PipelineChain ----------------------------
(* E07 (extra, beyond the listed properties) -- composition, third stage: TWO pipelines linked by a connector

     receiver --> batch processor (pipeline in) --> forward connector --> batch processor (pipeline out) --> exporter --> backend

   at item level, with the graceful service shutdown in the order graph.ShutdownAll uses: a component is shut down only
   after every component that sends data to it (C10), so the receiver stops first, the first batch processor drains INTO the
   connector while everything downstream is still running, then the connector, the second batch processor drains into the
   exporter, and the exporter drains its queue last.  End-to-end statement: every item the receiver was told "accepted" is,
   when Service.Shutdown has returned, delivered to the backend or dropped with a recorded failure of the exporter -- data
   buffered in EITHER pipeline at the moment of shutdown included -- and exactly once when nothing failed.
   A wrong shutdown order (downstream first) is the bug this composition exists for: the drain of an upstream stage would
   then arrive at a component that has already been shut down.                                                          *)
EXTENDS Integers, Sequences, FiniteSets, TLC

CONSTANTS Items, Batch1, Batch2, QueueCap

VARIABLES toInject, accepted, pending1, pending2, queue, inflight, delivered, dropped, anyFailure, phase
vars == <<toInject, accepted, pending1, pending2, queue, inflight, delivered, dropped, anyFailure, phase>>
SeqToSet(s) == {s[i] : i \in 1..Len(s)}

Init == /\ toInject = Items /\ accepted = {} /\ pending1 = <<>> /\ pending2 = <<>> /\ queue = <<>> /\ inflight = {}
        /\ delivered = [i \in Items |-> 0] /\ dropped = {} /\ anyFailure = FALSE /\ phase = "run"

Inject(i) == /\ phase = "run" /\ i \in toInject /\ toInject' = toInject \ {i}
             /\ accepted' = accepted \cup {i} /\ pending1' = Append(pending1, i)
             /\ UNCHANGED <<pending2, queue, inflight, delivered, dropped, anyFailure, phase>>
\* first batch processor -> connector -> second batch processor (its ConsumeLogs only queues the items)
Send1(n) == /\ phase \in {"run", "rcv_stopped"} /\ n \in 1..Len(pending1) /\ n <= Batch1
            /\ pending2' = pending2 \o SubSeq(pending1, 1, n) /\ pending1' = SubSeq(pending1, n + 1, Len(pending1))
            /\ UNCHANGED <<toInject, accepted, queue, inflight, delivered, dropped, anyFailure, phase>>
\* second batch processor -> exporter queue (refused when full: logged and dropped)
Send2(n) == /\ phase \in {"run", "rcv_stopped", "p1_stopped"} /\ n \in 1..Len(pending2) /\ n <= Batch2
            /\ LET b == SeqToSet(SubSeq(pending2, 1, n)) IN
               /\ pending2' = SubSeq(pending2, n + 1, Len(pending2))
               /\ IF Len(queue) + (IF inflight # {} THEN 1 ELSE 0) < QueueCap
                    THEN queue' = Append(queue, b) /\ UNCHANGED <<dropped, anyFailure>>
                    ELSE queue' = queue /\ dropped' = dropped \cup b /\ anyFailure' = TRUE
            /\ UNCHANGED <<toInject, accepted, pending1, inflight, delivered, phase>>
Dequeue == /\ inflight = {} /\ queue # <<>> /\ phase # "done" /\ inflight' = Head(queue) /\ queue' = Tail(queue)
           /\ UNCHANGED <<toInject, accepted, pending1, pending2, delivered, dropped, anyFailure, phase>>
Export(o) == /\ inflight # {}
             /\ IF o = "ok" THEN delivered' = [i \in Items |-> IF i \in inflight THEN delivered[i] + 1 ELSE delivered[i]] /\ UNCHANGED <<dropped, anyFailure>>
                            ELSE dropped' = dropped \cup inflight /\ anyFailure' = TRUE /\ UNCHANGED delivered
             /\ inflight' = {}
             /\ UNCHANGED <<toInject, accepted, pending1, pending2, queue, phase>>
Step == /\ CASE phase = "run"         -> phase' = "rcv_stopped"
             [] phase = "rcv_stopped" -> pending1 = <<>> /\ phase' = "p1_stopped"      \* first batch processor drained
             [] phase = "p1_stopped"  -> pending2 = <<>> /\ phase' = "p2_stopped"      \* (connector stopped,) second one drained
             [] phase = "p2_stopped"  -> queue = <<>> /\ inflight = {} /\ phase' = "done"
             [] OTHER -> FALSE
        /\ UNCHANGED <<toInject, accepted, pending1, pending2, queue, inflight, delivered, dropped, anyFailure>>
Next == (\E i \in Items : Inject(i)) \/ (\E n \in 1..Batch1 : Send1(n)) \/ (\E n \in 1..Batch2 : Send2(n))
        \/ Dequeue \/ (\E o \in {"ok", "perm"} : Export(o)) \/ Step
Spec == Init /\ [][Next]_vars

Done == phase = "done"
NoSilentLoss       == Done => \A i \in accepted : delivered[i] >= 1 \/ i \in dropped
ExactlyOnceIfClean == (Done /\ ~anyFailure) => \A i \in accepted : delivered[i] = 1
NothingInvented    == \A i \in Items : delivered[i] > 0 => i \in accepted
NoDuplicates       == \A i \in Items : delivered[i] <= 1
=============================================================================
