SPECIFICATION MSpec
CHECK_DEADLOCK FALSE
