SPECIFICATION Spec
CONSTANT Wide = FALSE
CHECK_DEADLOCK FALSE
