------------------------------ MODULE TLSReload ------------------------------
(* E10: model of config/configtls shaped like the implementation (one action per call / critical section / goroutine step):

     Validate                 Config.Validate
     Load                     Client/ServerConfig.LoadTLSConfig -> loadTLSConfig (loadCACertPool, newCertReloader =
                              loadCertificate, convertVersion x 2, convertCipherSuites, curves), newClientCAsReloader,
                              startWatching
     StartBatch / EndBatch    n handshakes of the peer (probe) against the endpoint at the same time
     HsBegin(t)               version negotiation, server certificate verification of a client endpoint,
                              GetConfigForClient = clientCAsFileReloader.getClientConfig (snapshot of certPool under RLock)
     GCCheck(t), GCReload(t)  certReloader.GetCertificate: the check under RLock, the reload under Lock (NOT re-checked)
     HsFin(t)                 cipher suite, client certificate verification against the snapshot, outcome
     WCert, Wait              the certificate files are rewritten; more than reload_interval passes (abstract clock: R = 2,
                              everything else takes no time -- the driver enforces that and discards scripts that were slow)
     WCA / RaceWrite          client CA file: rewrite in place (two Write events), replace by rename (Chmod + Remove on the
                              old inode, the watch is on a dead inode), remove (same, file gone), create, chmod; with the
                              directory watch of the repair also Create (create, rename into place) and the events of a
                              file whose own watch is lost
     Handle                   clientCAsFileReloader.handleWatcherEvents: one event; Remove / Chmod: watcher.Remove +
                              watcher.Add (fails when the file does not exist: the watch is LOST), reload; Write: reload;
                              reload keeps the old pool when the file is unreadable / invalid
     Settle                   the watcher goroutine has drained its events

   hist is the history in the vocabulary of TLSObs.tla; js is the statement state after it (js' = StepEv(cfg, js, event)):
   the design property is JsOK (no clause of the statement is contradicted by any behaviour of the model).

   Variant:  "fixed"        both repairs of extras/fixes/E10-*.patch: getClientConfig carries the cipher suites over; the
                            watcher also watches the directory of the client CA file (Create events)    -> JsOK holds
             "pinned"       the pinned code (both defects)                                               -> TLC refutes
             "pinnedsuites" only: the tls.Config returned by getClientConfig has NO CipherSuites         -> refuted (CipherSuites)
             "pinnedwatch"  only: no directory watch -- after a removal watcher.Add fails, the watch is lost, a file
                            created again and every later change go unnoticed                             -> refuted (ClientCAReload)
             "eager"        negative control: GetCertificate reloads whenever reloading is configured     -> refuted
             "stale"        negative control: the watcher's reload does not replace the pool              -> refuted *)
EXTENDS TLSObs

CONSTANTS Configs, Variant, MaxOps, Threads, Probes, BatchSizes, PairPool, CAWrites, Races
VARIABLES cfg, phase, disk, cr, now, pool, watched, evq, th, batch, hist, js, nops
vars == <<cfg, phase, disk, cr, now, pool, watched, evq, th, batch, hist, js, nops>>
view == <<cfg, phase, disk, cr, now, pool, watched, evq, th, batch, js, nops>>

R == 2
EvBase == [op |-> "", pmin |-> "", pmax |-> "", psuites |-> <<>>, pid |-> "none", pair |-> "", how |-> "", cac |-> "",
           res |-> "", r |-> <<>>]
NoRes  == [ok |-> FALSE, ver |-> "", suite |-> "", seen |-> ""]
Idle   == [pc |-> "idle", served |-> "", psnap |-> {}, res |-> NoRes]
NoBatch == [on |-> FALSE, p |-> EvBase, n |-> 0, race |-> FALSE, how |-> "", cac |-> "", wdone |-> TRUE]

Log(ev) == /\ hist' = Append(hist, ev)
           /\ js' = StepEv(cfg, js, ev)
           /\ nops' = nops + 1

(* ---------------- Validate / Load, in the order of the code ---------------- *)
ImplValidate(c) ==
    IF c.ca = "both" THEN "err"
    ELSE IF ~(c.min = "" \/ ValidVer(c.min)) THEN "err"
    ELSE IF ~(c.max = "" \/ ValidVer(c.max)) THEN "err"
    ELSE IF c.max # "" /\ VNum(c.max) < MinN(c) THEN "err"
    ELSE "ok"

CertLoadFails(c) ==   \* loadCertificate
    \/ HasCert(c) # HasKey(c)
    \/ c.cert = "both" \/ c.key = "both"
    \/ (c.pair = "missing" /\ UsesFile(c))
    \/ c.pair \in {"bad", "mismatch"}

ImplLoad(c) ==
    IF c.role = "client" /\ c.insecure /\ ~HasCA(c) THEN "nil"
    ELSE IF c.ca = "both" THEN "err"
    ELSE IF c.ca = "file" /\ c.cac \in {"missing", "bad"} THEN "err"
    ELSE IF c.ca = "pem" /\ c.cac = "bad" THEN "err"
    ELSE IF (HasCert(c) \/ HasKey(c)) /\ CertLoadFails(c) THEN "err"
    ELSE IF ~VerOK(c) THEN "err"
    ELSE IF Range(c.suites) \ Suites # {} THEN "err"
    ELSE IF Range(c.curves) \ GoodCurves # {} THEN "err"
    ELSE IF c.role = "server" /\ c.cca \in {"missing", "bad"} THEN "err"
    ELSE "ok"

Init == /\ cfg \in Configs
        /\ phase = "new"
        /\ disk = [pair |-> cfg.pair, ca |-> cfg.cca]
        /\ cr = [cert |-> "none", next |-> 0]
        /\ now = 0 /\ pool = ANY /\ watched = FALSE /\ evq = <<>>
        /\ th = [t \in 1..Threads |-> Idle] /\ batch = NoBatch
        /\ hist = <<>> /\ js = Init0(cfg) /\ nops = 0

Validate == /\ phase = "new"
            /\ phase' = "validated"
            /\ Log([EvBase EXCEPT !.op = "validate", !.res = ImplValidate(cfg)])
            /\ UNCHANGED <<cfg, disk, cr, now, pool, watched, evq, th, batch>>

Load == /\ phase \in {"new", "validated"}
        /\ LET res == ImplLoad(cfg) IN
           /\ phase' = IF res = "ok" THEN "loaded" ELSE "off"
           /\ cr' = [cert |-> IF HasCert(cfg) THEN cfg.pair ELSE "none", next |-> now + R]
           /\ pool' = IF cfg.role = "server" /\ cfg.cca \in CANames THEN PoolOf(cfg, cfg.cca) ELSE ANY
           /\ watched' = (res = "ok" /\ cfg.role = "server" /\ cfg.cca \in CANames /\ cfg.ccar)
           /\ Log([EvBase EXCEPT !.op = "load", !.res = res])
        /\ UNCHANGED <<cfg, disk, now, evq, th, batch>>

(* ---------------- handshakes ---------------- *)
Quiet == phase = "loaded" /\ ~batch.on /\ nops < MaxOps

SuitesDropped == Variant \in {"pinned", "pinnedsuites"}
DirWatch      == Variant \notin {"pinned", "pinnedwatch"}
ImplSuites(c) == IF SuitesDropped /\ c.role = "server" /\ c.ccar /\ c.cca \in CANames THEN Suites ELSE OwnSuites(c)
ImplCommon(c, p) == {s \in ImplSuites(c) \cap PeerSuites(p) : SuiteMin(s) <= HsVer(c, p)}

StartBatch(p, n, race, how, cac) ==
    /\ Quiet /\ ~NoTLS(cfg)
    /\ batch' = [on |-> TRUE, p |-> p, n |-> n, race |-> race, how |-> how, cac |-> cac, wdone |-> ~race]
    /\ th' = [t \in 1..Threads |-> IF t <= n THEN [Idle EXCEPT !.pc = "begin"] ELSE Idle]
    /\ UNCHANGED <<cfg, phase, disk, cr, now, pool, watched, evq, hist, js, nops>>

HsBegin(t) ==
    /\ batch.on /\ th[t].pc = "begin"
    /\ IF ~VersionsMeet(cfg, batch.p) \/ ~TrustOK(cfg, batch.p)
       THEN th' = [th EXCEPT ![t].pc = "done"]
       ELSE th' = [th EXCEPT ![t].pc = "gc", ![t].psnap = pool]
    /\ UNCHANGED <<cfg, phase, disk, cr, now, pool, watched, evq, batch, hist, js, nops>>

GCCheck(t) ==
    /\ batch.on /\ th[t].pc = "gc"
    /\ LET due == Reloading(cfg) /\ (Variant = "eager" \/ cr.next < now) IN
       th' = IF due THEN [th EXCEPT ![t].pc = "lock"] ELSE [th EXCEPT ![t].pc = "fin", ![t].served = cr.cert]
    /\ UNCHANGED <<cfg, phase, disk, cr, now, pool, watched, evq, batch, hist, js, nops>>

GCReload(t) ==
    /\ batch.on /\ th[t].pc = "lock"
    /\ IF ValidPair(EffPair(cfg, disk.pair))
       THEN /\ cr' = [cert |-> EffPair(cfg, disk.pair), next |-> now + R]
            /\ th' = [th EXCEPT ![t].pc = "fin", ![t].served = EffPair(cfg, disk.pair)]
       ELSE /\ th' = [th EXCEPT ![t].pc = "fin", ![t].served = "fail"]
            /\ UNCHANGED cr
    /\ UNCHANGED <<cfg, phase, disk, now, pool, watched, evq, batch, hist, js, nops>>

HsFin(t) ==
    /\ batch.on /\ th[t].pc = "fin"
    /\ LET p  == batch.p
           sv == th[t].served
           v  == HsVer(cfg, p)
       IN IF sv = "fail" \/ (sv = "none" /\ cfg.role = "server") \/ (v < 4 /\ ImplCommon(cfg, p) = {})
          THEN th' = [th EXCEPT ![t].pc = "done"]
          ELSE \E s \in (IF v = 4 THEN {"T13"} ELSE ImplCommon(cfg, p)) :
                 LET auth == cfg.role = "client" \/ ClientAuthOK(th[t].psnap, p.pid) IN
                 th' = [th EXCEPT ![t].pc = "done",
                                  ![t].res = IF auth THEN [ok |-> TRUE, ver |-> VerNames[v], suite |-> s, seen |-> sv]
                                             ELSE [NoRes EXCEPT !.seen = sv]]
    /\ UNCHANGED <<cfg, phase, disk, cr, now, pool, watched, evq, batch, hist, js, nops>>

(* ---------------- files ---------------- *)
CAEffect(how, content) ==
    /\ disk' = [disk EXCEPT !.ca = IF how = "remove" THEN "missing" ELSE IF how = "chmod" THEN disk.ca ELSE content]
    /\ evq' = IF ~cfg.ccar THEN evq ELSE
              evq \o (IF watched \/ DirWatch
                       THEN CASE how = "rewrite" -> <<"write", "write">>
                              [] how \in {"replace", "remove"} -> <<"chmod", "remove">>
                              [] how = "chmod" -> <<"chmod">>
                              [] OTHER -> <<>>
                       ELSE <<>>)
                   \o (IF DirWatch /\ how \in {"replace", "create"} THEN <<"create">> ELSE <<>>)
    /\ watched' = IF how \in {"replace", "remove"} THEN FALSE ELSE watched

CAHowOK(how) == CASE how = "create" -> disk.ca = "missing"
                  [] how \in {"rewrite", "chmod", "remove"} -> disk.ca # "missing"
                  [] OTHER -> TRUE

EndBatch ==
    /\ batch.on /\ batch.wdone /\ \A t \in 1..batch.n : th[t].pc = "done"
    /\ Log([batch.p EXCEPT !.op = IF batch.race THEN "race" ELSE "hs", !.how = batch.how, !.cac = batch.cac,
                           !.r = [t \in 1..batch.n |-> th[t].res]])
    /\ batch' = NoBatch /\ th' = [t \in 1..Threads |-> Idle]
    /\ UNCHANGED <<cfg, phase, disk, cr, now, pool, watched, evq>>

RaceWrite == /\ batch.on /\ ~batch.wdone
             /\ CAEffect(batch.how, batch.cac)
             /\ batch' = [batch EXCEPT !.wdone = TRUE]
             /\ UNCHANGED <<cfg, phase, cr, now, pool, th, hist, js, nops>>

WCert(k) == /\ Quiet /\ UsesFile(cfg) /\ k # disk.pair
            /\ disk' = [disk EXCEPT !.pair = k]
            /\ Log([EvBase EXCEPT !.op = "wcert", !.pair = k])
            /\ UNCHANGED <<cfg, phase, cr, now, pool, watched, evq, th, batch>>

Wait == /\ Quiet /\ Reloading(cfg)
        /\ now' = now + R + 1
        /\ Log([EvBase EXCEPT !.op = "wait"])
        /\ UNCHANGED <<cfg, phase, disk, cr, pool, watched, evq, th, batch>>

HasClientCA == cfg.role = "server" /\ cfg.cca \in CANames
WCA(how, content) == /\ Quiet /\ HasClientCA /\ CAHowOK(how)
                     /\ CAEffect(how, content)
                     /\ Log([EvBase EXCEPT !.op = "wca", !.how = how, !.cac = IF how \in {"remove", "chmod"} THEN "" ELSE content])
                     /\ UNCHANGED <<cfg, phase, cr, now, pool, th, batch>>

Handle == /\ evq # <<>>
          /\ evq' = Tail(evq)
          /\ watched' = IF Head(evq) = "write" THEN watched ELSE disk.ca # "missing"
          /\ pool' = IF disk.ca \in CANames /\ Variant # "stale" THEN PoolOf(cfg, disk.ca) ELSE pool
          /\ UNCHANGED <<cfg, phase, disk, cr, now, th, batch, hist, js, nops>>

Settle == /\ Quiet /\ HasClientCA /\ evq = <<>> /\ js.pend
          /\ Log([EvBase EXCEPT !.op = "settle"])
          /\ UNCHANGED <<cfg, phase, disk, cr, now, pool, watched, evq, th, batch>>

Next == \/ Validate \/ Load
        \/ \E p \in Probes, n \in BatchSizes : StartBatch(p, n, FALSE, "", "")
        \/ \E p \in Probes, w \in Races : HasClientCA /\ CAHowOK(w[1]) /\ StartBatch(p, Threads, TRUE, w[1], w[2])
        \/ \E t \in 1..Threads : HsBegin(t) \/ GCCheck(t) \/ GCReload(t) \/ HsFin(t)
        \/ EndBatch \/ RaceWrite
        \/ \E k \in PairPool : WCert(k)
        \/ Wait
        \/ \E w \in CAWrites : WCA(w[1], w[2])
        \/ Handle \/ Settle
Spec == Init /\ [][Next]_vars

JsOK == js.bad = ""
TypeOK == /\ phase \in {"new", "validated", "loaded", "off"} /\ nops \in 0..MaxOps
          /\ \A t \in 1..Threads : th[t].pc \in {"idle", "begin", "gc", "lock", "fin", "done"}
Bound == nops <= MaxOps
=============================================================================
