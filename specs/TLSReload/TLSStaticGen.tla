----------------------------- MODULE TLSStaticGen -----------------------------
(* E10: the static cases (Validate / LoadTLSConfig decisions and one-shot handshakes): configurations x probes, by groups
   of settings (full products inside a group, base values outside).  Every case is printed once as [c, probes];
   checks/E10.py turns it into the script  validate, load, one handshake per probe  and the monitor judges what the real
   code did with the clauses of TLSObs.tla.  Group "x" (thorough tier) crosses the groups pairwise. *)
EXTENDS TLSObs, Json
CONSTANT Wide

Base(role) == [role |-> role, ca |-> "none", cac |-> "CA1", cert |-> "none", key |-> "none", pair |-> "L1a",
               insecure |-> FALSE, skip |-> FALSE, sname |-> "", min |-> "", max |-> "", suites |-> <<>>, curves |-> <<>>,
               sys |-> FALSE, cca |-> "none", ccar |-> FALSE, ri |-> 0]
Srv == [Base("server") EXCEPT !.cert = "file", !.key = "file"]
Cli == [Base("client") EXCEPT !.ca = "file"]
Pr  == [op |-> "hs", pmin |-> "", pmax |-> "", psuites |-> <<>>, pid |-> "none"]
Pid(x) == [Pr EXCEPT !.pid = x]
Roles == {"server", "client"}
Of(role) == IF role = "server" THEN Srv ELSE Cli
Peer(role) == IF role = "server" THEN "none" ELSE "L1a"

Vers   == {"", "1.0", "1.1", "1.2", "1.3", "1.4"}
SuiteLists == {<<>>, <<"A">>, <<"B", "C">>, <<"C">>, <<"A", "BOGUS">>, <<"INSEC">>}

G1 == {[c |-> [Base("client") EXCEPT !.ca = ca, !.cac = cac, !.sys = sys, !.skip = skip, !.sname = sn, !.insecure = ins],
        probes |-> <<Pid("L1a"), Pid("L2a"), Pid("Lsa")>>] :
       ca \in {"none", "file", "pem", "both"}, cac \in {"CA1", "CA2", "bad", "missing"}, sys \in BOOLEAN, skip \in BOOLEAN,
       sn \in {"", "localhost", "other.example"}, ins \in BOOLEAN}
G2 == {[c |-> [Of(role) EXCEPT !.cert = ce, !.key = ke, !.pair = pa, !.ri = ri, !.skip = TRUE],
        probes |-> <<Pid(Peer(role))>>] :
       role \in Roles, ce \in {"none", "file", "pem", "both"}, ke \in {"none", "file", "pem", "both"},
       pa \in {"L1a", "L2a", "bad", "mismatch", "missing"}, ri \in {0, 1}}
G3 == {[c |-> [Of(role) EXCEPT !.min = mi, !.max = ma],
        probes |-> <<Pid(Peer(role)), [Pid(Peer(role)) EXCEPT !.pmax = "1.1"], [Pid(Peer(role)) EXCEPT !.pmin = "1.2", !.pmax = "1.2"],
                     [Pid(Peer(role)) EXCEPT !.pmin = "1.3"], [Pid(Peer(role)) EXCEPT !.pmax = "1.0"],
                     [Pid(Peer(role)) EXCEPT !.pmin = "1.1", !.pmax = "1.2"]>>] :
       role \in Roles, mi \in Vers, ma \in Vers}
SuiteProbes(role) == <<Pid(Peer(role)), [Pid(Peer(role)) EXCEPT !.pmax = "1.2"],
                       [Pid(Peer(role)) EXCEPT !.pmax = "1.2", !.psuites = <<"A">>],
                       [Pid(Peer(role)) EXCEPT !.pmax = "1.2", !.psuites = <<"B">>],
                       [Pid(Peer(role)) EXCEPT !.pmax = "1.2", !.psuites = <<"C">>],
                       [Pid(Peer(role)) EXCEPT !.pmax = "1.2", !.psuites = <<"B", "C">>],
                       [Pid(Peer(role)) EXCEPT !.psuites = <<"B">>],
                       [Pid(Peer(role)) EXCEPT !.pmax = "1.1", !.psuites = <<"A", "C">>],
                       [Pid(Peer(role)) EXCEPT !.pmax = "1.1", !.psuites = <<"A", "B">>]>>
G4 == {[c |-> [Of(role) EXCEPT !.suites = su, !.min = mi, !.max = ma], probes |-> SuiteProbes(role)] :
       role \in Roles, su \in SuiteLists, mi \in {"", "1.0"}, ma \in {"", "1.2", "1.1"}}
      \cup {[c |-> [Srv EXCEPT !.suites = su, !.min = mi, !.max = ma, !.cca = "CA1", !.ccar = r],
             probes |-> [i \in DOMAIN SuiteProbes("server") |-> [SuiteProbes("server")[i] EXCEPT !.pid = "L1a"]]] :
            su \in SuiteLists, mi \in {"", "1.0"}, ma \in {"", "1.2"}, r \in BOOLEAN}
G5 == {[c |-> [Srv EXCEPT !.ca = ca[1], !.cac = ca[2], !.cca = cca, !.ccar = r, !.sys = sys],
        probes |-> <<Pid("none"), Pid("L1a"), Pid("L2a"), Pid("Lsa"), [Pid("L1b") EXCEPT !.pmax = "1.2"]>>] :
       ca \in {<<"none", "CA1">>, <<"file", "CA1">>, <<"pem", "CA2">>}, cca \in {"none", "CA1", "CA2", "bad", "missing"},
       r \in BOOLEAN, sys \in BOOLEAN}
G6 == {[c |-> [Of(role) EXCEPT !.curves = cu], probes |-> <<Pid(Peer(role))>>] :
       role \in Roles, cu \in {<<>>, <<"X25519", "P256">>, <<"P521", "P384">>, <<"P-256">>, <<"P256", "secp256r1">>}}
(* thorough tier: identity x trust x versions x suites for both roles *)
GX == {[c |-> [Of(role) EXCEPT !.cert = ce[1], !.key = ce[2], !.pair = ce[3], !.min = mm[1], !.max = mm[2], !.suites = su,
                               !.sys = sys, !.cca = IF role = "server" THEN cca[1] ELSE "none",
                               !.ccar = IF role = "server" THEN cca[2] ELSE FALSE,
                               !.cac = IF role = "client" THEN cca[1] ELSE "CA1"],
        probes |-> <<Pid("L1a"), [Pid("L2a") EXCEPT !.pmax = "1.2", !.psuites = <<"A", "C">>],
                     [Pid("Lsa") EXCEPT !.pmax = "1.1"], [Pid("L1b") EXCEPT !.pmin = "1.2", !.psuites = <<"B">>]>>] :
       role \in Roles, ce \in {<<"file", "file", "L1a">>, <<"pem", "file", "L2a">>, <<"none", "none", "L1a">>, <<"file", "pem", "mismatch">>},
       mm \in {<<"", "">>, <<"1.0", "1.2">>, <<"1.1", "1.1">>, <<"1.3", "">>, <<"1.0", "">>},
       su \in {<<>>, <<"A">>, <<"B", "C">>, <<"C">>}, sys \in BOOLEAN,
       cca \in {<<"CA1", TRUE>>, <<"CA1", FALSE>>, <<"CA2", TRUE>>}}

Cases == G1 \cup G2 \cup G3 \cup G4 \cup G5 \cup G6 \cup (IF Wide THEN GX ELSE {})

VARIABLE i
Init == i = 0 /\ \A x \in Cases : PrintT(<<"BEH", ToJson(x)>>)
Next == i = 0 /\ i' = 1
Spec == Init /\ [][Next]_i
=============================================================================
