--------------------------- MODULE TLSReloadMonitor ---------------------------
(* E10: monitor.  Evaluates the clauses of the statement (TLSObs.tla: Judge = fold of StepEv over the history) on what
   harness/tlsreload recorded from REAL configtls endpoints.  observed.ndjson, one object per script:
     {"id": .., "c": {role, ca, cac, cert, key, pair, insecure, skip, sname, min, max, suites, curves, sys, cca, ccar, ri},
      "evs": [{op, pmin, pmax, psuites, pid, pair, how, cac, res, r: [{ok, ver, suite, seen}, ...]}, ...]}
   (every event carries every field; checks/E10.py joins the script and the driver's observations).  For every line TLC
   prints <<"VERDICT", json>> = [id, ok, at, clause]: the only source of an EXTRA-FINDING of E10. *)
EXTENDS TLSObs, Json

Log == ndJsonDeserialize("observed.ndjson")

WellFormed(l) ==
    /\ l.c.role \in {"server", "client"} /\ l.c.ri \in Nat /\ l.c.ccar \in BOOLEAN /\ l.c.sys \in BOOLEAN
    /\ l.c.insecure \in BOOLEAN /\ l.c.skip \in BOOLEAN
    /\ \A i \in DOMAIN l.evs :
          /\ l.evs[i].op \in {"validate", "load", "hs", "race", "wcert", "wca", "wait", "settle"}
          /\ \A j \in DOMAIN l.evs[i].r : l.evs[i].r[j].ok \in BOOLEAN

Verdict(l) == IF WellFormed(l)
              THEN LET j == Judge(l.c, l.evs) IN [id |-> l.id, ok |-> j.ok, at |-> j.at, clause |-> j.clause]
              ELSE [id |-> l.id, ok |-> FALSE, at |-> 0, clause |-> "MalformedLine"]

VARIABLE i
MInit == i = 1
MNext == /\ i <= Len(Log)
         /\ PrintT(<<"VERDICT", ToJson(Verdict(Log[i]))>>)
         /\ i' = i + 1
MSpec == MInit /\ [][MNext]_i
=============================================================================
