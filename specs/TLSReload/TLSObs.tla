------------------------------- MODULE TLSObs -------------------------------
(* E10 -- TLSReload (extra specification, no listed property): config/configtls.

   STATEMENT (in the form of a properties.jsonl record; derived from config/configtls/README.md and the doc comments of
   configtls.go -- Config, ClientConfig, ServerConfig, certReloader -- not from the implementation):
   title:      "TLS settings: accepted / rejected combinations, what the resulting tls.Config does, certificate and
                client CA reloading"
   quantifier: for every client / server TLS configuration over {ca_file, ca_pem, cert_file, cert_pem, key_file, key_pem,
               insecure, insecure_skip_verify, server_name_override, min_version, max_version, cipher_suites,
               curve_preferences, include_system_ca_certs_pool, client_ca_file, client_ca_file_reload, reload_interval},
               every history of {rewrite the certificate files, let reload_interval elapse, rewrite / atomically replace /
               remove / recreate / chmod the client CA file, handshakes (also several at once, also racing with a client CA
               file operation)} and every peer (versions, cipher suites, identity presented)
   anchors:    config/configtls/configtls.go (Config.Validate, loadTLSConfig, loadCACertPool, loadCertificate, certReloader,
               ClientConfig.LoadTLSConfig, ServerConfig.LoadTLSConfig), config/configtls/clientcasfilereloader.go,
               config/configtls/README.md
   statement (clause names are the names used below and in the verdicts):
     Validate      Validate fails exactly when both ca_file and ca_pem are given ("alternative to"), when min_version /
                   max_version is not one of "1.0".."1.3" (README: options), or when min_version > max_version.
     Load          LoadTLSConfig: a client with insecure = true (and no CA) gets NO TLS configuration (nil, "won't use TLS at
                   all"); otherwise it fails when both alternatives of the CA are given, when the CA / client CA cannot be
                   read or holds no certificate, when a certificate is given without a key or a key without a certificate,
                   when both alternatives of the certificate or of the key are given, when certificate and key cannot be
                   read or do not form a pair (certificates are loaded eagerly), when a version string, a cipher suite name
                   or a curve name is unknown; everything else is accepted.
     VersionRange  a handshake succeeds only at a version within [min_version (default 1.2), max_version (default: 1.3)]
                   that the peer supports too, and then at the highest such version; none in common = failure.
     CipherSuites  with cipher_suites given, a handshake below TLS 1.3 uses one of the listed suites and fails when the peer
                   offers none of them (TLS 1.3 suites are not configurable in crypto/tls).
     ServerTrust   a client verifies the server's certificate against ca_file / ca_pem (plus the system pool with
                   include_system_ca_certs_pool; the system pool alone without a CA) and against server_name_override (the
                   dialled host without it); insecure_skip_verify = no verification.
     ClientAuth    a server with client_ca_file requires a client certificate issued by a CA of that file (plus the system
                   pool with include_system_ca_certs_pool); without client_ca_file (and without ca_file, see O3) no client
                   certificate is needed.
     ServedCertificate
                   the endpoint presents the configured certificate (a client: when the server asks for one; none when none
                   is configured).  reload_interval = 0 or in-memory certificate: always the one loaded by LoadTLSConfig.
                   reload_interval = R > 0 with files: a handshake less than R after the last (re)load presents the loaded
                   certificate whatever is on disk; a handshake more than R after it presents what is on disk NOW (all
                   handshakes racing at that instant included) and counts as the reload.
     ClientCAReload
                   client_ca_file_reload = false: the client CAs loaded by LoadTLSConfig are used forever.  true: once the
                   file has been rewritten in place, atomically replaced (rename) or created again after a removal, with
                   valid content, and the watcher had time to see it, exactly the new content decides; at no time is a
                   client accepted whose issuer is in neither a previous nor the present content.  All other settings keep applying (VersionRange,
                   CipherSuites, ServedCertificate).
     Availability  a handshake that no clause above forbids succeeds.
   OPEN points (documentation silent or inconsistent; the specification admits every behaviour, no finding is raised):
     O1  insecure = true: whether contradictory other settings are still rejected (nil or error).
     O2  insecure = true with a CA: nil or a TLS configuration; its handshakes are not judged.
     O3  server with ca_file / ca_pem but no client_ca_file: Config doc says "for a server this verifies client
         certificates", README's server section says client_ca_file is what enables mTLS: client authentication on or off.
     O4  reload due but files unreadable / invalid / not a pair: the handshake fails or presents the old certificate; whether
         the attempt counts as a reload (retry at once or after R) is open.
     O5  client CA file rewritten with invalid content or removed: the previous pool stays or every client is refused, until
         valid content is there again (a file created again after a removal counts as modified: it decides, and so does
         every later change).
     O6  min_version > max_version at LoadTLSConfig (Validate rejects it): accepted or refused.
     O7  names of crypto/tls.InsecureCipherSuites() in cipher_suites: accepted or refused.
     O8  which suites the "safe default list" holds: assumed to hold the three suites of the universe (A, B, C).
     O9  whether a handshake that fails before the certificate is needed triggers the due reload.
   NOT covered: effect of curve_preferences on the negotiated curve (not observable in crypto/tls of go1.23), stopping the
   client CA watcher (clientCAsFileReloader.shutdown is reachable through no exported API), torn reads while the
   certificate files are being written. *)
EXTENDS Naturals, Sequences, FiniteSets, TLC

CANames   == {"CA1", "CA2", "SYS"}
Leaves    == {"L1a", "L1b", "L2a", "Lsa"}
Issuer(l) == CASE l \in {"L1a", "L1b"} -> "CA1" [] l = "L2a" -> "CA2" [] l = "Lsa" -> "SYS" [] OTHER -> "nobody"
SysPool   == {"SYS"}
ANY       == {"ANY"}                       \* pool value "no client authentication"
VerNames  == <<"1.0", "1.1", "1.2", "1.3">>
ValidVer(v) == v \in {"1.0", "1.1", "1.2", "1.3"}
VNum(v)   == CASE v = "1.0" -> 1 [] v = "1.1" -> 2 [] v = "1.2" -> 3 [] v = "1.3" -> 4 [] OTHER -> 0
Suites    == {"A", "B", "C"}
SuiteMin(s) == IF s = "C" THEN 1 ELSE 3    \* A, B (AES-GCM): TLS 1.2 only; C (ECDHE-ECDSA-AES128-CBC-SHA): 1.0 .. 1.2
GoodCurves == {"P256", "P384", "P521", "X25519"}
Range(s)  == {s[i] : i \in DOMAIN s}
MaxOf(a, b) == IF a >= b THEN a ELSE b
MinOf(a, b) == IF a <= b THEN a ELSE b

(* ---------------- static decisions ---------------- *)
HasCA(c)   == c.ca # "none"
HasCert(c) == c.cert # "none"
HasKey(c)  == c.key # "none"
VerOK(c)   == (c.min = "" \/ ValidVer(c.min)) /\ (c.max = "" \/ ValidVer(c.max))
MinN(c)    == IF c.min = "" THEN 3 ELSE VNum(c.min)
MaxN(c)    == IF c.max = "" THEN 4 ELSE VNum(c.max)
VerOrdered(c) == c.max = "" \/ MinN(c) <= MaxN(c)

ValidateExpect(c) == IF c.ca = "both" \/ ~VerOK(c) \/ (VerOK(c) /\ ~VerOrdered(c)) THEN "err" ELSE "ok"

UsesFile(c)   == c.cert \in {"file", "both"} \/ c.key \in {"file", "both"}
PairBroken(c) == c.pair \in {"bad", "mismatch"} \/ (c.pair = "missing" /\ UsesFile(c))
MustReject(c) ==
    \/ c.ca = "both"
    \/ (HasCA(c) /\ c.cac = "bad")
    \/ (c.ca = "file" /\ c.cac = "missing")
    \/ HasCert(c) # HasKey(c)
    \/ (HasCert(c) /\ HasKey(c) /\ (c.cert = "both" \/ c.key = "both" \/ PairBroken(c)))
    \/ ~VerOK(c)
    \/ "BOGUS" \in Range(c.suites)
    \/ Range(c.curves) \ GoodCurves # {}
    \/ (c.role = "server" /\ c.cca \in {"bad", "missing"})
OpenReject(c) == (VerOK(c) /\ ~VerOrdered(c)) \/ "INSEC" \in Range(c.suites)          \* O6, O7
NoTLS(c)      == c.role = "client" /\ c.insecure

LoadAllowed(c) ==
    IF NoTLS(c) THEN (IF HasCA(c) THEN {"nil", "ok"} ELSE {"nil"})                    \* O2
                     \cup (IF MustReject(c) \/ OpenReject(c) THEN {"err"} ELSE {})    \* O1
    ELSE IF MustReject(c) THEN {"err"}
    ELSE IF OpenReject(c) THEN {"ok", "err"}
    ELSE {"ok"}

(* ---------------- one handshake ---------------- *)
PoolOf(c, ca) == {ca} \cup (IF c.sys THEN SysPool ELSE {})
PMinN(p) == IF p.pmin = "" THEN 1 ELSE VNum(p.pmin)
PMaxN(p) == IF p.pmax = "" THEN 4 ELSE VNum(p.pmax)
HsVer(c, p)       == MinOf(MaxN(c), PMaxN(p))
VersionsMeet(c, p) == HsVer(c, p) >= MaxOf(MinN(c), PMinN(p))
OwnSuites(c)      == IF c.suites = <<>> THEN Suites ELSE Range(c.suites) \cap Suites                 \* O8
PeerSuites(p)     == IF p.psuites = <<>> THEN Suites ELSE Range(p.psuites)
Common(c, p)      == {s \in OwnSuites(c) \cap PeerSuites(p) : SuiteMin(s) <= HsVer(c, p)}
SuiteMeet(c, p)   == HsVer(c, p) = 4 \/ Common(c, p) # {}
Roots(c)          == IF HasCA(c) THEN PoolOf(c, c.cac) ELSE SysPool
TrustOK(c, p)     == c.role = "server" \/ c.skip \/ (Issuer(p.pid) \in Roots(c) /\ c.sname \in {"", "localhost"})
StaticOK(c, p)    == VersionsMeet(c, p) /\ SuiteMeet(c, p) /\ TrustOK(c, p)
ClientAuthOK(pool, pid) == pool = ANY \/ (pid \in Leaves /\ Issuer(pid) \in pool)
Reloading(c)      == c.ri > 0 /\ (c.cert = "file" \/ c.key = "file")
ValidPair(k)      == k \in Leaves
(* what a reload finds: the certificate half and the key half, each from its file or (cert_pem / key_pem) from memory, where
   it never changes; "mismatch" on disk = certificate of L1a with the key of L2a, "bad" = garbage certificate with L1a's key *)
CertHalf(pair)    == IF pair = "mismatch" THEN "L1a" ELSE pair
KeyHalf(pair)     == IF pair = "mismatch" THEN "L2a" ELSE IF pair = "bad" THEN "L1a" ELSE pair
EffPair(c, pair)  == LET ch == IF c.cert = "file" THEN CertHalf(pair) ELSE CertHalf(c.pair)
                         kh == IF c.key = "file" THEN KeyHalf(pair) ELSE KeyHalf(c.pair)
                     IN IF ch = kh /\ ch \in Leaves THEN ch ELSE "mismatch"

(* what an endpoint in statement state x = [cur, due, pool] may present, and the statement states afterwards *)
Serve(c, x, pair) ==
    IF ~Reloading(c) \/ ~x.due THEN {[served |-> x.cur, nx |-> x]}
    ELSE IF ValidPair(EffPair(c, pair)) THEN {[served |-> EffPair(c, pair), nx |-> [x EXCEPT !.cur = EffPair(c, pair), !.due = FALSE]]}
    ELSE {[served |-> sv, nx |-> [x EXCEPT !.due = d]] : sv \in {"fail", x.cur}, d \in BOOLEAN}       \* O4

Consistent(c, p, o, served, pool) ==
    IF served = "fail" \/ (served = "none" /\ c.role = "server") THEN ~o.ok
    ELSE LET auth == c.role = "client" \/ ClientAuthOK(pool, p.pid) IN
         /\ o.ok = auth
         /\ o.ok => /\ o.seen = served
                    /\ o.ver = VerNames[HsVer(c, p)]
                    /\ HsVer(c, p) < 4 => o.suite \in Common(c, p)
         /\ (~o.ok /\ c.role = "server" /\ o.seen # "") => o.seen = served

(* statement states after a handshake with observation o from one of the states xs; {} = no state explains o *)
HsNext(c, xs, pair, p, o) ==
    IF ~StaticOK(c, p)
    THEN IF o.ok THEN {} ELSE xs \cup {s.nx : s \in UNION {Serve(c, x, pair) : x \in xs}}             \* O9
    ELSE UNION {{u.nx : u \in {t \in Serve(c, x, pair) : Consistent(c, p, o, t.served, x.pool)}} : x \in xs}

(* name of the clause a handshake observation contradicts *)
Why(c, xs, pair, moved, p, o) ==
    IF o.ok /\ ~VersionsMeet(c, p) THEN "VersionRange"
    ELSE IF o.ok /\ o.ver # VerNames[HsVer(c, p)] THEN "VersionRange"
    ELSE IF o.ok /\ ~SuiteMeet(c, p) THEN "CipherSuites"
    ELSE IF o.ok /\ HsVer(c, p) < 4 /\ o.suite \notin Common(c, p) THEN "CipherSuites"
    ELSE IF o.ok /\ ~TrustOK(c, p) THEN "ServerTrust"
    ELSE LET sv == UNION {Serve(c, x, pair) : x \in xs} IN
         IF (o.ok \/ (c.role = "server" /\ o.seen # "")) /\ \A t \in sv : t.served # o.seen THEN "ServedCertificate"
         ELSE IF c.role = "server" /\ c.cca \in CANames /\ moved THEN "ClientCAReload"
         ELSE IF o.ok THEN "ClientAuth"
         ELSE IF c.role = "server" /\ c.cca \in CANames /\ p.pid \in Leaves /\ o.seen # "" THEN "ClientAuth"
         ELSE IF Reloading(c) /\ ~ValidPair(EffPair(c, pair)) THEN "ServedCertificate"      \* failed although no reload was due
         ELSE "Availability"

(* ---------------- histories ---------------- *)
(* statement state of the fold over a history:
     pair, ca     what is on disk (certificate pair, client CA file)
     xs           possible [cur, due, pool]
     pend, must   a client CA file operation has not been settled yet; pools admitted once it has
     loose        the client CA file was removed once (kept for the reports only)
     moved        the client CA file content ever changed (used for the clause name only)
     loaded       "no" | result of load;  bad = "" or the name of the contradicted clause *)
Init0(c) == [pair |-> c.pair, ca |-> c.cca, xs |-> {}, pend |-> FALSE, must |-> {}, loose |-> FALSE, moved |-> FALSE,
             loaded |-> "no", bad |-> ""]

InitXs(c) ==
    LET pools == IF c.role = "client" THEN {ANY}
                 ELSE IF c.cca \in CANames THEN {PoolOf(c, c.cca)}
                 ELSE IF HasCA(c) /\ c.cac \in CANames THEN {ANY, PoolOf(c, c.cac)}                  \* O3
                 ELSE {ANY}
    IN {[cur |-> IF HasCert(c) THEN c.pair ELSE "none", due |-> FALSE, pool |-> pl] : pl \in pools}

PoolsOf(xs) == {x.pool : x \in xs}

(* the client CA file operation (how, content): pools possible right away, pools admitted once settled *)
CAOp(c, s, how, content) ==
    IF ~c.ccar \/ c.role # "server" \/ c.cca \notin CANames THEN [s EXCEPT !.ca = content]
    ELSE LET old    == PoolsOf(s.xs)
             newp   == IF content \in CANames THEN {PoolOf(c, content)} ELSE {}
             lose   == s.loose \/ how = "remove"
             must   == IF how = "chmod" THEN (IF s.pend THEN s.must ELSE old) \cup newp
                       ELSE IF how # "remove" /\ newp # {} THEN newp
                       ELSE old \cup {{}}                                                             \* O5
             now    == old \cup newp \cup (IF how # "chmod" /\ newp = {} THEN {{}} ELSE {})
         IN [s EXCEPT !.ca = IF how = "remove" THEN "missing" ELSE IF how = "chmod" THEN s.ca ELSE content,
                      !.xs = {[x EXCEPT !.pool = pl] : x \in s.xs, pl \in now},
                      !.pend = TRUE, !.must = must, !.loose = lose, !.moved = TRUE]

RECURSIVE HsAll(_, _, _, _, _, _)
(* all results of a batch are judged from the same states xs0 (they are concurrent); the states afterwards are the union *)
HsAll(c, xs0, s, ev, i, acc) ==
    IF i > Len(ev.r) THEN [s EXCEPT !.xs = {[x EXCEPT !.pool = pl] : x \in acc, pl \in PoolsOf(s.xs)}]   \* pools: not narrowed
    ELSE LET nx == HsNext(c, xs0, s.pair, ev, ev.r[i]) IN
         IF nx = {} THEN [s EXCEPT !.bad = Why(c, xs0, s.pair, s.moved, ev, ev.r[i])]
         ELSE HsAll(c, xs0, s, ev, i + 1, acc \cup nx)

StepEv(c, s, ev) ==
    CASE ev.op = "validate" -> IF ev.res = ValidateExpect(c) THEN s ELSE [s EXCEPT !.bad = "Validate"]
      [] ev.op = "load"     -> IF ev.res \notin LoadAllowed(c) THEN [s EXCEPT !.bad = "Load"]
                               ELSE [s EXCEPT !.loaded = ev.res, !.xs = IF ev.res = "ok" THEN InitXs(c) ELSE {}]
      [] ev.op = "wcert"    -> [s EXCEPT !.pair = ev.pair]
      [] ev.op = "wait"     -> [s EXCEPT !.xs = {[x EXCEPT !.due = Reloading(c)] : x \in s.xs}]
      [] ev.op = "wca"      -> CAOp(c, s, ev.how, IF ev.how = "chmod" THEN s.ca ELSE ev.cac)
      [] ev.op = "settle"   -> IF s.pend THEN [s EXCEPT !.pend = FALSE, !.xs = {x \in s.xs : x.pool \in s.must}] ELSE s
      [] ev.op = "hs"       -> IF s.loaded # "ok" THEN [s EXCEPT !.bad = "script"]
                               ELSE IF NoTLS(c) THEN s                                                \* O2
                               ELSE HsAll(c, s.xs, s, ev, 1, {})
      [] ev.op = "race"     -> IF s.loaded # "ok" THEN [s EXCEPT !.bad = "script"]
                               ELSE LET s2 == CAOp(c, s, ev.how, IF ev.how = "chmod" THEN s.ca ELSE ev.cac) IN HsAll(c, s.xs \cup s2.xs, s2, ev, 1, {})
      [] OTHER              -> [s EXCEPT !.bad = "script"]

RECURSIVE Fold(_, _, _, _)
Fold(c, evs, i, s) ==
    IF i > Len(evs) THEN [ok |-> TRUE, at |-> 0, clause |-> ""]
    ELSE LET n == StepEv(c, s, evs[i]) IN
         IF n.bad # "" THEN [ok |-> FALSE, at |-> i, clause |-> n.bad] ELSE Fold(c, evs, i + 1, n)

Judge(c, evs) == Fold(c, evs, 1, Init0(c))
=============================================================================
