SPECIFICATION Spec
CONSTANTS
  Shape = "cert"
  Depth = "mc"
  Variant = "fixed"
  Configs <- MCConfigs
  Probes <- MCProbes
  BatchSizes <- MCBatch
  Threads <- MCThreads
  PairPool <- MCPairs
  CAWrites <- MCCAWrites
  Races <- MCRaces
  MaxOps <- MCMaxOps
VIEW view
INVARIANT JsOK
INVARIANT TypeOK
CHECK_DEADLOCK FALSE
