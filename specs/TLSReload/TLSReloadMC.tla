----------------------------- MODULE TLSReloadMC -----------------------------
(* E10: design check and script generator.  Shape selects the part of the model that is exercised:
     "cert"  certReloader: endpoints (server, client) with certificate files, reload_interval R or 0, in-memory pair
     "ca"    client CA file of a server (client_ca_file_reload on / off, include_system_ca_certs_pool, cipher_suites)
   Depth "mc" / "deep" = small bounds for the exhaustive check (quick / thorough tier), "gen" = larger pools for -simulate script generation.
   Exhaustive: INVARIANT JsOK under VIEW view (hist hidden).  Generation: INVARIANT Emit prints every finished script. *)
EXTENDS TLSReload, Json
CONSTANTS Shape, Depth

Base == [role |-> "server", ca |-> "none", cac |-> "CA1", cert |-> "file", key |-> "file", pair |-> "L1a",
         insecure |-> FALSE, skip |-> FALSE, sname |-> "", min |-> "", max |-> "", suites |-> <<>>, curves |-> <<>>,
         sys |-> FALSE, cca |-> "none", ccar |-> FALSE, ri |-> 0]
Plain == EvBase
P(pid) == [EvBase EXCEPT !.pid = pid]

CertConfigs ==
    {[Base EXCEPT !.ri = 1], [Base EXCEPT !.ri = 0],
     [Base EXCEPT !.role = "client", !.skip = TRUE, !.ri = 1],
     [Base EXCEPT !.cert = "pem", !.key = "pem", !.ri = 1]}
    \cup (IF Depth = "gen" THEN {[Base EXCEPT !.role = "client", !.ca = "pem", !.ri = 1, !.pair = "L2a"],
                                 [Base EXCEPT !.ri = 1, !.key = "pem"],
                                 [Base EXCEPT !.ri = 1, !.cca = "CA1", !.ccar = TRUE, !.min = "1.0"]} ELSE {})
CAConfigs ==
    {[Base EXCEPT !.cca = "CA1", !.ccar = TRUE, !.suites = <<"A">>],
     [Base EXCEPT !.cca = "CA1", !.ccar = FALSE],
     [Base EXCEPT !.cca = "CA2", !.ccar = TRUE, !.sys = TRUE]}
    \cup (IF Depth = "gen" THEN {[Base EXCEPT !.cca = "CA1", !.ccar = TRUE, !.max = "1.2", !.cert = "pem", !.key = "pem"],
                                 [Base EXCEPT !.cca = "CA2", !.ccar = TRUE, !.ca = "file", !.suites = <<"B", "C">>]} ELSE {})

MCConfigs  == IF Shape = "cert" THEN CertConfigs ELSE CAConfigs
MCProbes   == IF Shape = "cert" THEN {P("L1a")}
              ELSE {P("L1a"), P("L2a")} \cup (IF Depth = "gen" THEN {P("none"), P("Lsa"), P("L1b")} ELSE {})
                   \cup {[EvBase EXCEPT !.pid = "L1a", !.pmax = "1.2", !.psuites = <<"B">>]}
MCThreads  == IF Depth = "gen" THEN 3 ELSE 2
MCBatch    == IF Shape = "cert" THEN {1, MCThreads} ELSE {1}
MCPairs    == IF Shape = "ca" THEN {} ELSE
              {"L1a", "L2a", "bad"} \cup (IF Depth = "gen" THEN {"L1b", "missing", "mismatch"} ELSE {})
MCCAWrites == IF Shape = "cert" THEN {} ELSE
              {<<"rewrite", "CA2">>, <<"rewrite", "CA1">>, <<"replace", "CA2">>, <<"rewrite", "bad">>, <<"remove", "">>,
               <<"create", "CA2">>, <<"chmod", "">>}
              \cup (IF Depth = "gen" THEN {<<"replace", "CA1">>, <<"replace", "bad">>, <<"create", "CA1">>, <<"rewrite", "SYS">>} ELSE {})
MCRaces    == IF Shape = "cert" THEN {} ELSE {<<"rewrite", "CA2">>, <<"replace", "CA1">>}
              \cup (IF Depth = "gen" THEN {<<"replace", "CA2">>, <<"rewrite", "CA1">>, <<"remove", "">>} ELSE {})
MCMaxOps   == IF Depth = "gen" THEN 12 ELSE IF Depth = "deep" THEN (IF Shape = "cert" THEN 11 ELSE 6)
              ELSE (IF Shape = "cert" THEN 9 ELSE 5)

(* generation policy (simulation picks uniformly among the successors: without it races crowd everything else out):
   two client CA file operations out of three are followed by a settle; a race starts only at every third operation *)
MustSettle == js.pend /\ hist # <<>> /\ hist[Len(hist)].op = "wca" /\ nops % 3 # 0
GenNext == /\ Next
           /\ MustSettle => (batch' = batch /\ (hist' = hist \/ hist'[Len(hist')].op = "settle"))
           /\ (batch'.on /\ batch'.race /\ ~batch.on) => nops % 3 = 0
GenSpec == Init /\ [][GenNext]_vars

Finished == (nops = MaxOps /\ ~batch.on) \/ phase = "off"
Emit == Finished => PrintT(<<"BEH", ToJson([c |-> cfg, evs |-> hist])>>)
=============================================================================
