SPECIFICATION Spec
CONSTANTS
  Sigs = {"traces", "metrics"}
  Reqs = {}
  Variant = "real"
  Configs = {"gh", "g", "h"}
  Kinds = {"same", "fresh"}
  MaxLen = 13
  MaxProbe = 2
  MaxHold = 1
  MaxSd = 3
  GSet = {1, 2}
CONSTRAINT Bound
VIEW View
ACTION_CONSTRAINT InOrder
ACTION_CONSTRAINT LifeOrder
INVARIANT TypeOK
INVARIANT Lifetime
INVARIANT StatementHolds
CHECK_DEADLOCK FALSE
