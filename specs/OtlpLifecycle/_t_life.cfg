SPECIFICATION Spec
CONSTANTS
  Sigs = {"traces", "metrics"}
  Reqs = {}
  Variant = "real"
  Configs = {"gh", "g"}
  Kinds = {"same", "fresh"}
  MaxLen = 11
  MaxProbe = 1
  MaxHold = 1
  MaxSd = 2
  GSet = {1, 2}
CONSTRAINT Bound
ACTION_CONSTRAINT InOrder
ACTION_CONSTRAINT LifeOrder
INVARIANT TypeOK
INVARIANT Lifetime
INVARIANT StatementHolds
CHECK_DEADLOCK FALSE
