SPECIFICATION Spec
CONSTANTS
  Sigs = {"traces"}
  Reqs = {1, 2}
  Variant = "real"
  Configs = {"gh"}
  Kinds = {"same", "fresh"}
  MaxLen = 16
  MaxProbe = 1
  MaxHold = 0
  MaxSd = 2
  GSet = {1, 2}
CONSTRAINT Bound
VIEW View
ACTION_CONSTRAINT InOrder
ACTION_CONSTRAINT ServeOrder
INVARIANT TypeOK
INVARIANT Lifetime
INVARIANT StatementHolds
CHECK_DEADLOCK FALSE
