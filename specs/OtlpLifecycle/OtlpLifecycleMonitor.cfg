SPECIFICATION MonSpec
POSTCONDITION AllJudged
CHECK_DEADLOCK FALSE
