---------------------------- MODULE OtlpLifecycle ----------------------------
(* E11 -- IMPLEMENTATION-SHAPED MODEL of the OTLP receiver as a shared component:
   receiver/otlpreceiver/factory.go + otlp.go + otlphttp.go, internal/sharedcomponent/sharedcomponent.go.
   The statement it is checked against is in OtlpLifeObs.tla (clauses over the history of emitted events).

   Two incarnations g = 1, 2 over ONE pair of endpoints (grpc, http).  Incarnation 2 is created either from the SAME
   configuration object as incarnation 1 (Kind2 = "same": possible only once incarnation 1 has been removed from the
   factory's map, i.e. after its Shutdown) or from an EQUAL one (Kind2 = "fresh": its own map entry, at any time).

   One action per step of the Go code that another party can observe or interleave with:

     driver (the service)   Create(g, sig)   factory.Create<sig>: receivers.LoadOrStore + register<sig>Consumer
                            Start(g, sig)    sharedcomponent.Component.Start; the first one runs otlpReceiver.Start:
                                             startGRPCServer (ToServer, Listen, go Serve), startHTTPServer (the same; on
                                             an error `errors.Join(err, r.Shutdown(ctx))` releases what was bound); a
                                             later one only adds its host as a status source (replaying past events).
                                             One step: Start does not wait for anything
                            SdCall(g, sig)   Component.Shutdown is called: stopOnce.Do -- the first caller runs it, a
                                             caller that comes while it runs waits for it, later callers return at once
                            Hold / Unhold / Probe    the driver binds / releases / tests an endpoint
                            Send(r, tr, sig), ConsRet(r, ok)   a client sends a request; the consumer (the driver's) returns
     shutdown (runner)      SdBegin          report Stopping; serverHTTP.Shutdown closes the HTTP listener ...
                            SdStatus         (one status event reaches one host)
                            SdHttpDone       ... and has waited for the HTTP requests in flight; serverGRPC.GracefulStop
                                             closes the gRPC listener ...
                            SdGrpcDone       ... and has waited for the RPCs in flight; shutdownWG.Wait; report Stopped;
                                             removeFunc (the map entry is deleted)
                            SdFin, SdRet     stopOnce is done; a waiting caller returns
     servers                Refuse(r)        nobody listens on the endpoint: no answer
                            Reject(r)        no consumer for the signal: mux 404 / unknown service Unimplemented
                            Consume(r)       the signal's consumer is called (Export -> nextConsumer.ConsumeX)
                            Resp(r)          the client has its answer

   Named deviations / abstractions:
     * Start is one step (the instant between binding gRPC and failing on HTTP is not visible);
     * a request is "in flight" for the servers from Consume to ConsRet (the handler's remaining work -- writing the
       answer -- is not a separate state: Resp may come after the Shutdown returned);
     * status events of the shutdown goroutine are emitted one per step (other goroutines' events may come between);
     * Variant = "real" is the code; "nowait" (the gRPC server is stopped without waiting for RPCs in flight) and
       "noshare" (every receiver's Start starts the servers) are WRONG designs used to show that the clauses bind. *)
EXTENDS Integers, Sequences, FiniteSets

CONSTANTS Sigs,        \* signals
          Reqs,        \* request numbers
          Variant

VARIABLES cfg,      \* [grpc |-> BOOLEAN, http |-> BOOLEAN]
          kind2,    \* "same" / "fresh"
          phase,    \* g -> none, created, started, failed, stopped
          reg,      \* g -> signals with a registered consumer
          srv,      \* g -> signals registered with the servers (reg when the first Start ran)
          srcs,     \* g -> hosts (signals) that are status sources of the hostWrapper, in order
          past,     \* g -> remembered status events (ring of 5)
          once,     \* g -> stopOnce: no, running, done
          sdpc,     \* g -> progress of the runner: idle, begin, http, grpc, fin
          spend,    \* g -> status events the runner has still to deliver
          waiters,  \* g -> receivers (signals) whose Shutdown call is in progress
          owner,    \* endpoint -> 0 free, 1 / 2 incarnation listening, 9 the driver
          mapg,     \* incarnation stored in the factory's map under THE configuration object (0: none)
          req,      \* r -> [st, tr, sig, g, ok]
          emit      \* events the last step made observable

mvars == <<cfg, kind2, phase, reg, srv, srcs, past, once, sdpc, spend, waiters, owner, mapg, req, emit>>

Ports == {"grpc", "http"}
G == {1, 2}
Conf(p) == IF p = "grpc" THEN cfg.grpc ELSE cfg.http
NoReq == [st |-> "idle", tr |-> "grpc", sig |-> "none", g |-> 0, ok |-> TRUE]

MInit(c, k) ==
  /\ cfg = c /\ kind2 = k
  /\ phase = [g \in G |-> "none"] /\ reg = [g \in G |-> {}] /\ srv = [g \in G |-> {}]
  /\ srcs = [g \in G |-> <<>>] /\ past = [g \in G |-> <<>>]
  /\ once = [g \in G |-> "no"] /\ sdpc = [g \in G |-> "idle"] /\ spend = [g \in G |-> <<>>]
  /\ waiters = [g \in G |-> {}]
  /\ owner = [p \in Ports |-> 0] /\ mapg = 0
  /\ req = [r \in Reqs |-> NoReq]
  /\ emit = <<>>

Last5(s) == IF Len(s) <= 5 THEN s ELSE SubSeq(s, Len(s) - 4, Len(s))
StatusTo(g, hosts, st) == [i \in 1..Len(hosts) |-> [e |-> "status", g |-> g, sig |-> hosts[i], st |-> st]]
Range(s) == {s[i] : i \in 1..Len(s)}

\* ------------------------------------------------------------------ driver: creation
Create(g, sig) ==
  /\ phase[g] \in {"none", "created"} /\ sig \notin reg[g]
  /\ g = 2 => phase[1] # "none"
  /\ (g = 1 \/ kind2 = "same") => mapg \in {0, g}                 \* LoadOrStore would return the other incarnation
  /\ phase' = [phase EXCEPT ![g] = "created"]
  /\ reg' = [reg EXCEPT ![g] = @ \cup {sig}]
  /\ mapg' = IF g = 1 \/ kind2 = "same" THEN g ELSE mapg
  /\ emit' = <<[e |-> "create", g |-> g, sig |-> sig, err |-> FALSE]>>
  /\ UNCHANGED <<cfg, kind2, srv, srcs, past, once, sdpc, spend, waiters, owner, req>>

\* ------------------------------------------------------------------ driver: endpoints
Hold(p) == /\ owner[p] = 0 /\ owner' = [owner EXCEPT ![p] = 9]
           /\ emit' = <<[e |-> "hold", p |-> p]>>
           /\ UNCHANGED <<cfg, kind2, phase, reg, srv, srcs, past, once, sdpc, spend, waiters, mapg, req>>
Unhold(p) == /\ owner[p] = 9 /\ owner' = [owner EXCEPT ![p] = 0]
             /\ emit' = <<[e |-> "unhold", p |-> p]>>
             /\ UNCHANGED <<cfg, kind2, phase, reg, srv, srcs, past, once, sdpc, spend, waiters, mapg, req>>
Probe(p) == /\ owner[p] # 9
            /\ emit' = <<[e |-> "probe", p |-> p, free |-> (owner[p] = 0)]>>
            /\ UNCHANGED <<cfg, kind2, phase, reg, srv, srcs, past, once, sdpc, spend, waiters, owner, mapg, req>>

\* ------------------------------------------------------------------ driver: Start
Start(g, sig) ==
  /\ sig \in reg[g] /\ sig \notin Range(srcs[g]) /\ once[g] = "no"
  /\ \/ /\ phase[g] = "created"                                    \* startOnce.Do: otlpReceiver.Start
        /\ LET ok == \A p \in Ports : Conf(p) => owner[p] = 0
               sts == IF ok THEN <<"StatusStarting">> ELSE <<"StatusStarting", "StatusPermanentError">>
           IN /\ owner' = IF ok THEN [p \in Ports |-> IF Conf(p) THEN g ELSE owner[p]] ELSE owner
              /\ phase' = [phase EXCEPT ![g] = IF ok THEN "started" ELSE "failed"]
              /\ srv' = [srv EXCEPT ![g] = reg[g]]
              /\ srcs' = [srcs EXCEPT ![g] = <<sig>>]
              /\ past' = [past EXCEPT ![g] = sts]
              /\ emit' = <<[e |-> "startcall", g |-> g, sig |-> sig]>>
                         \o [i \in 1..Len(sts) |-> [e |-> "status", g |-> g, sig |-> sig, st |-> sts[i]]]
                         \o <<[e |-> "startret", g |-> g, sig |-> sig, err |-> ~ok]>>
     \/ /\ phase[g] = "started" /\ Variant # "noshare"             \* hostWrapper # nil: addSource
        /\ srcs' = [srcs EXCEPT ![g] = Append(@, sig)]
        /\ emit' = <<[e |-> "startcall", g |-> g, sig |-> sig]>>
                   \o [i \in 1..Len(past[g]) |-> [e |-> "status", g |-> g, sig |-> sig, st |-> past[g][i]]]
                   \o <<[e |-> "startret", g |-> g, sig |-> sig, err |-> FALSE]>>
        /\ UNCHANGED <<owner, phase, srv, past>>
     \/ /\ phase[g] = "started" /\ Variant = "noshare"             \* WRONG: binds again, the endpoint is taken
        /\ srcs' = [srcs EXCEPT ![g] = Append(@, sig)]
        /\ emit' = <<[e |-> "startcall", g |-> g, sig |-> sig],
                     [e |-> "status", g |-> g, sig |-> sig, st |-> "StatusPermanentError"],
                     [e |-> "startret", g |-> g, sig |-> sig, err |-> TRUE]>>
        /\ UNCHANGED <<owner, phase, srv, past>>
  /\ UNCHANGED <<cfg, kind2, reg, once, sdpc, spend, waiters, mapg, req>>

\* ------------------------------------------------------------------ requests
InFlight(g, p) == {r \in Reqs : req[r].st = "cons" /\ req[r].g = g /\ req[r].tr = p}

Send(r, tr, sig) ==
  /\ req[r].st = "idle" /\ owner[tr] # 9
  /\ req' = [req EXCEPT ![r] = [st |-> "sent", tr |-> tr, sig |-> sig, g |-> 0, ok |-> TRUE]]
  /\ emit' = <<[e |-> "send", r |-> r, tr |-> tr, sig |-> sig]>>
  /\ UNCHANGED <<cfg, kind2, phase, reg, srv, srcs, past, once, sdpc, spend, waiters, owner, mapg>>

Refuse(r) ==
  /\ req[r].st = "sent" /\ owner[req[r].tr] \notin G
  /\ req' = [req EXCEPT ![r].st = "done"]
  /\ emit' = <<[e |-> "resp", r |-> r, res |-> "none"]>>
  /\ UNCHANGED <<cfg, kind2, phase, reg, srv, srcs, past, once, sdpc, spend, waiters, owner, mapg>>

Reject(r) ==
  /\ req[r].st = "sent" /\ owner[req[r].tr] \in G /\ req[r].sig \notin srv[owner[req[r].tr]]
  /\ req' = [req EXCEPT ![r].st = "done"]
  /\ emit' = <<[e |-> "resp", r |-> r, res |-> "fail", code |-> IF req[r].tr = "grpc" THEN "Unimplemented" ELSE "404"]>>
  /\ UNCHANGED <<cfg, kind2, phase, reg, srv, srcs, past, once, sdpc, spend, waiters, owner, mapg>>

Consume(r) ==
  /\ req[r].st = "sent" /\ owner[req[r].tr] \in G /\ req[r].sig \in srv[owner[req[r].tr]]
  /\ req' = [req EXCEPT ![r].st = "cons", ![r].g = owner[req[r].tr]]
  /\ emit' = <<[e |-> "consume", r |-> r, g |-> owner[req[r].tr], sig |-> req[r].sig]>>
  /\ UNCHANGED <<cfg, kind2, phase, reg, srv, srcs, past, once, sdpc, spend, waiters, owner, mapg>>

ConsRet(r, ok) ==
  /\ req[r].st = "cons"
  /\ req' = [req EXCEPT ![r].st = "ret", ![r].ok = ok]
  /\ emit' = <<[e |-> "consret", r |-> r, ok |-> ok]>>
  /\ UNCHANGED <<cfg, kind2, phase, reg, srv, srcs, past, once, sdpc, spend, waiters, owner, mapg>>

Resp(r) ==
  /\ req[r].st = "ret"
  /\ req' = [req EXCEPT ![r].st = "done"]
  /\ emit' = <<[e |-> "resp", r |-> r, res |-> IF req[r].ok THEN "ok" ELSE "fail"]>>
  /\ UNCHANGED <<cfg, kind2, phase, reg, srv, srcs, past, once, sdpc, spend, waiters, owner, mapg>>

\* ------------------------------------------------------------------ Shutdown
SdCall(g, sig) ==
  /\ sig \in reg[g] /\ sig \notin waiters[g]
  /\ waiters' = [waiters EXCEPT ![g] = @ \cup {sig}]
  /\ IF once[g] = "no" THEN once' = [once EXCEPT ![g] = "running"] /\ sdpc' = [sdpc EXCEPT ![g] = "begin"]
                       ELSE UNCHANGED <<once, sdpc>>
  /\ emit' = <<[e |-> "sdcall", g |-> g, sig |-> sig]>>
  /\ UNCHANGED <<cfg, kind2, phase, reg, srv, srcs, past, spend, owner, mapg, req>>

Report(g, st) ==        \* hostWrapper.Report from the shutdown goroutine (hostWrapper = nil: never started)
  IF Len(srcs[g]) > 0 THEN /\ spend' = [spend EXCEPT ![g] = StatusTo(g, srcs[g], st)]
                           /\ past' = [past EXCEPT ![g] = Last5(Append(@, st))]
                      ELSE UNCHANGED <<spend, past>>

SdBegin(g) ==
  /\ sdpc[g] = "begin"
  /\ Report(g, "StatusStopping")
  /\ owner' = [owner EXCEPT !["http"] = IF @ = g THEN 0 ELSE @]        \* serverHTTP.Shutdown: listeners closed first
  /\ sdpc' = [sdpc EXCEPT ![g] = "http"]
  /\ emit' = <<>>
  /\ UNCHANGED <<cfg, kind2, phase, reg, srv, srcs, once, waiters, mapg, req>>

SdStatus(g) ==
  /\ spend[g] # <<>>
  /\ emit' = <<Head(spend[g])>>
  /\ spend' = [spend EXCEPT ![g] = Tail(@)]
  /\ UNCHANGED <<cfg, kind2, phase, reg, srv, srcs, past, once, sdpc, waiters, owner, mapg, req>>

SdHttpDone(g) ==
  /\ sdpc[g] = "http" /\ spend[g] = <<>> /\ InFlight(g, "http") = {}
  /\ owner' = [owner EXCEPT !["grpc"] = IF @ = g THEN 0 ELSE @]        \* GracefulStop: listeners closed, GOAWAY
  /\ sdpc' = [sdpc EXCEPT ![g] = "grpc"]
  /\ emit' = <<>>
  /\ UNCHANGED <<cfg, kind2, phase, reg, srv, srcs, past, once, spend, waiters, mapg, req>>

SdGrpcDone(g) ==
  /\ sdpc[g] = "grpc" /\ (Variant = "nowait" \/ InFlight(g, "grpc") = {})
  /\ Report(g, "StatusStopped")
  /\ mapg' = IF mapg = g /\ (g = 1 \/ kind2 = "same") THEN 0 ELSE mapg      \* removeFunc
  /\ phase' = [phase EXCEPT ![g] = "stopped"]
  /\ sdpc' = [sdpc EXCEPT ![g] = "fin"]
  /\ emit' = <<>>
  /\ UNCHANGED <<cfg, kind2, reg, srv, srcs, once, waiters, owner, req>>

SdFin(g) ==
  /\ sdpc[g] = "fin" /\ spend[g] = <<>> /\ once[g] = "running"
  /\ once' = [once EXCEPT ![g] = "done"]
  /\ emit' = <<>>
  /\ UNCHANGED <<cfg, kind2, phase, reg, srv, srcs, past, sdpc, spend, waiters, owner, mapg, req>>

SdRet(g, sig) ==
  /\ sig \in waiters[g] /\ once[g] = "done"
  /\ waiters' = [waiters EXCEPT ![g] = @ \ {sig}]
  /\ emit' = <<[e |-> "sdret", g |-> g, sig |-> sig, err |-> FALSE, panic |-> FALSE]>>
  /\ UNCHANGED <<cfg, kind2, phase, reg, srv, srcs, past, once, sdpc, spend, owner, mapg, req>>

\* ------------------------------------------------------------------ composition
\* steps of the code's own goroutines (servers, shutdown runner, waiting Shutdown callers)
Ctl == \/ \E g \in G : SdBegin(g) \/ SdStatus(g) \/ SdHttpDone(g) \/ SdGrpcDone(g) \/ SdFin(g)
       \/ \E g \in G, s \in Sigs : SdRet(g, s)
       \/ \E r \in Reqs : Refuse(r) \/ Reject(r) \/ Consume(r) \/ Resp(r)
CtlEnabled == \/ \E g \in G : sdpc[g] = "begin" \/ spend[g] # <<>>
                              \/ (sdpc[g] = "http" /\ InFlight(g, "http") = {})
                              \/ (sdpc[g] = "grpc" /\ (Variant = "nowait" \/ InFlight(g, "grpc") = {}))
                              \/ (sdpc[g] = "fin" /\ once[g] = "running")
                              \/ (waiters[g] # {} /\ once[g] = "done")
              \/ \E r \in Reqs : req[r].st \in {"sent", "ret"}
\* steps of the driver
Env == \/ \E g \in G, s \in Sigs : Create(g, s) \/ Start(g, s) \/ SdCall(g, s)
       \/ \E p \in Ports : Hold(p) \/ Unhold(p) \/ Probe(p)
       \/ \E r \in Reqs, tr \in Ports, s \in Sigs : Send(r, tr, s)
       \/ \E r \in Reqs, ok \in BOOLEAN : ConsRet(r, ok)
MNext == Ctl \/ Env

\* ------------------------------------------------------------------ structural invariants of the model
TypeOK ==
  /\ \A g \in G : /\ phase[g] \in {"none", "created", "started", "failed", "stopped"}
                  /\ once[g] \in {"no", "running", "done"}
                  /\ sdpc[g] \in {"idle", "begin", "http", "grpc", "fin"}
                  /\ reg[g] \subseteq Sigs /\ srv[g] \subseteq reg[g] /\ waiters[g] \subseteq reg[g]
                  /\ Range(srcs[g]) \subseteq reg[g] /\ Len(past[g]) <= 5
  /\ \A p \in Ports : owner[p] \in {0, 1, 2, 9}
  /\ mapg \in 0..2
\* an endpoint is listened on only by an incarnation that was started and whose Shutdown has not got past that server,
\* and only if the protocol is configured; once Shutdown has returned to anybody nothing is bound and nothing in flight
Lifetime ==
  /\ \A p \in Ports : owner[p] \in G => /\ Conf(p) /\ phase[owner[p]] = "started"
                                        /\ sdpc[owner[p]] \in {"idle", "begin"} \/ (p = "grpc" /\ sdpc[owner[p]] = "http")
  /\ \A g \in G : once[g] = "done" => /\ \A p \in Ports : owner[p] # g
                                      /\ Variant = "nowait" \/ \A p \in Ports : InFlight(g, p) = {}
=============================================================================
