---------------------------- MODULE OtlpLifecycleGen ----------------------------
(* E11 -- script generator.  Explores OtlpLifecycle.tla with the code's own goroutines scheduled EAGERLY (whenever a
   server, the shutdown runner or a waiting Shutdown caller can take a step it does; the driver acts only when they are
   all blocked or idle) and prints, for every behaviour the driver declares finished (Finish: every incarnation that was
   created has been shut down, nothing is in flight), the configuration and the history of events.  checks/E11.py turns
   a history into a script for harness/otlplife: the driver's events (create, hold, unhold, startcall, probe, send,
   consret = the consumer's outcome / the release of its gate, sdcall) are what the driver DOES, the code's events
   (consume, resp, sdret) are what it WAITS for before it goes on -- so the points at which the driver acts are points it
   can reach in the real code.  Exhaustive for small bounds, `-simulate` for bigger ones.
   The verdict does NOT come from these histories: every recorded observation is judged by OtlpLifecycleMonitor
   (statement) and OtlpLifecycleTrace (model). *)
EXTENDS OtlpLifecycle, TLC, Json

CONSTANTS Configs, Kinds,
          MaxEnv,                      \* at most so many steps of the driver
          MaxProbe, MaxHold, MaxSd     \* ... of which so many probes / holds / Shutdown calls

VARIABLES hist, nenv, nprobe, nhold, nsd, fin
gvars == <<mvars, hist, nenv, nprobe, nhold, nsd, fin>>

ConfOf(c) == [grpc |-> c \in {"g", "gh"}, http |-> c \in {"h", "gh"}]
GInit == /\ \E c \in Configs, k \in Kinds : MInit(ConfOf(c), k)
         /\ hist = <<>> /\ nenv = 0 /\ nprobe = 0 /\ nhold = 0 /\ nsd = 0 /\ fin = FALSE

Quiet == /\ ~CtlEnabled
         /\ \A r \in Reqs : req[r].st \in {"idle", "done"}
         /\ \A g \in G : phase[g] # "none" => once[g] = "done" /\ waiters[g] = {}
         /\ \A p \in Ports : owner[p] # 9
         /\ phase[1] # "none"

GEnv == \/ \E g \in G, s \in Sigs : Create(g, s) \/ Start(g, s)
        \/ nsd < MaxSd /\ \E g \in G, s \in Sigs : SdCall(g, s)
        \/ nhold < MaxHold /\ \E p \in Ports : Hold(p)
        \/ \E p \in Ports : Unhold(p)
        \/ nprobe < MaxProbe /\ \E p \in Ports : Probe(p)
        \/ \E r \in Reqs, tr \in Ports, s \in Sigs : (\A q \in Reqs : q < r => req[q].st # "idle") /\ Send(r, tr, s)
        \/ \E r \in Reqs, ok \in BOOLEAN : ConsRet(r, ok)

Kind(k) == emit' # <<>> /\ emit'[1].e = k
GNext == /\ ~fin
         /\ \/ /\ CtlEnabled /\ Ctl /\ fin' = FALSE /\ nenv' = nenv
            \/ /\ ~CtlEnabled /\ nenv < MaxEnv /\ GEnv /\ fin' = FALSE /\ nenv' = nenv + 1
            \/ /\ Quiet /\ fin' = TRUE /\ emit' = <<>> /\ nenv' = nenv
               /\ UNCHANGED <<cfg, kind2, phase, reg, srv, srcs, past, once, sdpc, spend, waiters, owner, mapg, req>>
         /\ hist' = hist \o emit'
         /\ nprobe' = IF Kind("probe") THEN nprobe + 1 ELSE nprobe
         /\ nhold' = IF Kind("hold") THEN nhold + 1 ELSE nhold
         /\ nsd' = IF Kind("sdcall") THEN nsd + 1 ELSE nsd
GSpec == GInit /\ [][GNext]_gvars

Emit == fin => PrintT(<<"BEH", ToJson([cfg |-> cfg, kind2 |-> kind2, h |-> hist])>>)
=============================================================================
