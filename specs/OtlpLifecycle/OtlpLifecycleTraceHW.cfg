SPECIFICATION TSpec
CONSTANTS
  Sigs = {"traces", "metrics", "logs", "profiles"}
  Reqs = {1, 2, 3, 4}
  Variant = "real"
CONSTRAINT HighWater
POSTCONDITION Rejected
CHECK_DEADLOCK FALSE
