---------------------------- MODULE OtlpLifecycleMC ----------------------------
(* E11 -- exhaustive design check: every behaviour of the implementation-shaped model OtlpLifecycle.tla inside the bounds
   (all interleavings of the driver, the servers, the shutdown runner and the waiting Shutdown callers; Shutdown requested
   at every moment through every receiver; every consumer outcome; endpoints occupied by the driver or by the other
   incarnation) keeps the HISTORY of emitted events inside the statement: StatementHolds = every clause of OtlpLifeObs.tla
   on the newest events of the history in every state (the clauses only look backwards).  The history is a variable,
   but two states are the same for the search (VIEW) when they agree on the model's variables (incl. the events just
   emitted) and on Summ(hist) = everything of the past a clause can ever refer to: which incarnations had Start called /
   returned nil / returned an error / Shutdown called / returned, which endpoints the driver holds, the signals
   registered per incarnation, and per request its protocol, signal, the incarnations that ran when it was sent, the
   consumers that got it, how often, and what they returned.  The bounds are on the length of the history and on what
   the driver does; the ACTION_CONSTRAINTs below spend them on one aspect at a time (runs "life", "serve", "restart" of
   checks/E11.py).
   Variant # "real": the WRONG designs must be refuted (checks/E11.py requires the violation). *)
EXTENDS OtlpLifecycle, OtlpLifeObs, TLC

CONSTANTS Configs,      \* protocol sets explored: subset of {"g", "h", "gh"}
          Kinds,        \* subset of {"same", "fresh"}
          MaxLen, MaxProbe, MaxHold, MaxSd, GSet

VARIABLE hist
vars == <<mvars, hist>>

ConfOf(c) == [grpc |-> c \in {"g", "gh"}, http |-> c \in {"h", "gh"}]
Init == /\ \E c \in Configs, k \in Kinds : MInit(ConfOf(c), k)
        /\ hist = <<>>
Rec == hist' = hist \o emit'

ACreate     == (\E g \in GSet, s \in Sigs : Create(g, s)) /\ Rec
AHold       == (\E p \in Ports : Hold(p)) /\ Rec
AUnhold     == (\E p \in Ports : Unhold(p)) /\ Rec
AProbe      == (\E p \in Ports : Probe(p)) /\ Rec
AStart      == (\E g \in GSet, s \in Sigs : Start(g, s)) /\ Rec
ASend       == (\E r \in Reqs, tr \in Ports, s \in Sigs : Send(r, tr, s)) /\ Rec
ARefuse     == (\E r \in Reqs : Refuse(r)) /\ Rec
AReject     == (\E r \in Reqs : Reject(r)) /\ Rec
AConsume    == (\E r \in Reqs : Consume(r)) /\ Rec
AConsRet    == (\E r \in Reqs, ok \in BOOLEAN : ConsRet(r, ok)) /\ Rec
AResp       == (\E r \in Reqs : Resp(r)) /\ Rec
ASdCall     == (\E g \in GSet, s \in Sigs : SdCall(g, s)) /\ Rec
ASdBegin    == (\E g \in G : SdBegin(g)) /\ Rec
ASdStatus   == (\E g \in G : SdStatus(g)) /\ Rec
ASdHttpDone == (\E g \in G : SdHttpDone(g)) /\ Rec
ASdGrpcDone == (\E g \in G : SdGrpcDone(g)) /\ Rec
ASdFin      == (\E g \in G : SdFin(g)) /\ Rec
ASdRet      == (\E g \in G, s \in Sigs : SdRet(g, s)) /\ Rec
Next == \/ ACreate \/ AHold \/ AUnhold \/ AProbe \/ AStart \/ ASend \/ ARefuse \/ AReject \/ AConsume \/ AConsRet \/ AResp
        \/ ASdCall \/ ASdBegin \/ ASdStatus \/ ASdHttpDone \/ ASdGrpcDone \/ ASdFin \/ ASdRet
Spec == Init /\ [][Next]_vars

Count(k) == Cardinality({j \in 1..Len(hist) : hist[j].e = k})
Bound == /\ Len(hist) <= MaxLen /\ Count("probe") <= MaxProbe /\ Count("hold") <= MaxHold /\ Count("sdcall") <= MaxSd

\* restrictions of the driver (symmetry: requests are used in order, signals are created before anything else happens to
\* the incarnation -- which the model requires anyway --, an endpoint is only held from before a Start)
InOrder == \A r \in Reqs : (emit' # <<>> /\ emit'[1].e = "send" /\ emit'[1].r = r) => \A q \in Reqs : q < r => req[q].st # "idle"
\* symmetry: "metrics" is only created for an incarnation that has "traces" (requests for both are still sent)
LifeOrder == (emit' # <<>> /\ emit'[1].e = "create" /\ emit'[1].sig = "metrics") => "traces" \in reg[emit'[1].g]
\* run "serve": no probes / holds, everything is created and started before the first request
ServeOrder == /\ LifeOrder
              /\ (emit' # <<>> /\ emit'[1].e \in {"create", "startcall"} /\ emit'[1].g = 1) => \A r \in Reqs : req[r].st = "idle"
              /\ (emit' # <<>> /\ emit'[1].e = "send") => phase[1] \notin {"none", "created"}

\* what the clauses can read of the past (see the header)
Summ(h) ==
  LET n == Len(h) + 1 IN
  [sc   |-> {g \in G : StartCalls(h, g, n) # {}},
   ok   |-> {g \in G : StartedOK(h, g, n)},
   er   |-> {g \in G : StartRets(h, g, n) # {} /\ ~StartedOK(h, g, n)},
   sdc  |-> {g \in G : SdCalled(h, g, n)},
   sdr  |-> {g \in G : SdReturned(h, g, n)},
   held |-> {p \in Ports : Held(h, p, n)},
   rg   |-> [g \in G |-> Reg(h, g, n)],
   rq   |-> [r \in Reqs |-> IF \E k \in Before(h, "send", n) : h[k].r = r
                            THEN LET s == SendOf(h, r, n) IN
                                 <<h[s].tr, h[s].sig, {g \in G : StartedOK(h, g, s)}, {g \in G : SdCalled(h, g, s)},
                                   {h[k].g : k \in Consumes(h, r, n)}, Cardinality(Consumes(h, r, n)),
                                   {h[k].ok : k \in ConsRets(h, r, n)}>>
                            ELSE <<>>]]
View == <<mvars, Summ(hist), Len(hist)>>

\* THE STATEMENT on every reachable history (newest events)
StatementHolds ==
  \A j \in (Len(hist) - Len(emit) + 1)..Len(hist) : OffendedAt(cfg, hist, j) = {}
=============================================================================
