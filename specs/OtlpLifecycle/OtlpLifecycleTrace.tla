---------------------------- MODULE OtlpLifecycleTrace ----------------------------
(* E11 -- TRACE VALIDATION (strict conformance): is what real otlpreceivers did a behaviour of the implementation-shaped
   model OtlpLifecycle.tla?  Input: the same observed.ndjson as the monitor's.  For every observation TLC searches for a
   behaviour of the model (all interleavings of its goroutines) whose observable events are exactly the recorded ones,
   field by field (recorded events have more fields that the model does not determine); unobservable steps may happen
   anywhere.  An observation that is explained prints <<"BEH", {acc: id}>>; NextTrace is enabled everywhere, so one
   rejected observation does not hide the others.  A rejected observation whose events satisfy the monitor is MODEL
   DRIFT, not a finding.  HighWater / Rejected: used on a single rejected observation to locate the first event that
   cannot be explained. *)
EXTENDS OtlpLifecycle, TLC, Json

Log == ndJsonDeserialize("observed.ndjson")
VARIABLES l,    \* observation being explained
          j     \* its next event
tvars == <<mvars, l, j>>

T == Log[l].ev
CfgOf(o) == [grpc |-> o.cfg.grpc, http |-> o.cfg.http]
Markers == {"stall", "unfollowed"}
Matches(ev, line) == \A f \in DOMAIN ev : f \in DOMAIN line /\ line[f] = ev[f]

TInit == /\ l = 1 /\ j = 1 /\ TLCSet(1, 1)
         /\ IF Len(Log) > 0 THEN MInit(CfgOf(Log[1]), Log[1].kind2) ELSE MInit([grpc |-> TRUE, http |-> TRUE], "same")

Step == /\ l <= Len(Log) /\ l' = l
        /\ MNext
        /\ j + Len(emit') - 1 <= Len(T)
        /\ \A i \in 1..Len(emit') : Matches(emit'[i], T[j + i - 1])
        /\ j' = j + Len(emit')

Skip == /\ l <= Len(Log) /\ j <= Len(T) /\ T[j].e \in Markers
        /\ j' = j + 1 /\ l' = l /\ UNCHANGED mvars

NextTrace ==
  /\ l <= Len(Log) /\ l' = l + 1 /\ j' = 1
  /\ cfg' = IF l < Len(Log) THEN CfgOf(Log[l + 1]) ELSE cfg
  /\ kind2' = IF l < Len(Log) THEN Log[l + 1].kind2 ELSE kind2
  /\ phase' = [g \in G |-> "none"] /\ reg' = [g \in G |-> {}] /\ srv' = [g \in G |-> {}]
  /\ srcs' = [g \in G |-> <<>>] /\ past' = [g \in G |-> <<>>]
  /\ once' = [g \in G |-> "no"] /\ sdpc' = [g \in G |-> "idle"] /\ spend' = [g \in G |-> <<>>]
  /\ waiters' = [g \in G |-> {}]
  /\ owner' = [p \in Ports |-> 0] /\ mapg' = 0
  /\ req' = [r \in Reqs |-> NoReq]
  /\ emit' = <<>>

TNext == Step \/ Skip \/ NextTrace
TSpec == TInit /\ [][TNext]_tvars

Explained == (l <= Len(Log) /\ j = Len(T) + 1) => PrintT(<<"BEH", ToJson([acc |-> Log[l].id])>>)

HighWater == IF l = 1 /\ j > TLCGet(1) THEN TLCSet(1, j) ELSE TRUE
Rejected == PrintT(<<"BEH", ToJson([hw |-> TLCGet(1)])>>)
=============================================================================
