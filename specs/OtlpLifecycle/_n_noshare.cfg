SPECIFICATION Spec
CONSTANTS
  Sigs = {"traces", "metrics"}
  Reqs = {}
  Variant = "noshare"
  Configs = {"g"}
  Kinds = {"same"}
  MaxLen = 9
  MaxProbe = 0
  MaxHold = 0
  MaxSd = 1
  GSet = {1}
CONSTRAINT Bound
ACTION_CONSTRAINT InOrder

INVARIANT TypeOK
INVARIANT Lifetime
INVARIANT StatementHolds
CHECK_DEADLOCK FALSE
