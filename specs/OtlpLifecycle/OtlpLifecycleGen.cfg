SPECIFICATION GSpec
CONSTANTS
  Sigs = {"traces", "metrics"}
  Reqs = {1}
  Variant = "real"
  Configs = {"gh"}
  Kinds = {"same"}
  MaxEnv = 6
  MaxProbe = 1
  MaxHold = 0
  MaxSd = 1
INVARIANT Emit
CHECK_DEADLOCK FALSE
