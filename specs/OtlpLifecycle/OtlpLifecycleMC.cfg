SPECIFICATION Spec
CONSTANTS
  Sigs = {"traces", "metrics"}
  Reqs = {1}
  Variant = "real"
  Configs = {"gh"}
  Kinds = {"same"}
  MaxLen = 10
  MaxProbe = 1
  MaxHold = 1
  MaxSd = 1
  GSet = {1}
CONSTRAINT Bound
VIEW View
ACTION_CONSTRAINT InOrder
ACTION_CONSTRAINT LifeOrder
INVARIANT TypeOK
INVARIANT Lifetime
INVARIANT StatementHolds
CHECK_DEADLOCK FALSE
