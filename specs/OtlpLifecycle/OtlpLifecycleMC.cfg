SPECIFICATION Spec
CONSTANTS
  Sigs = {"traces", "metrics"}
  Reqs = {1}
  Variant = "real"
  Configs = {"gh"}
  Kinds = {"same"}
  MaxLen = 12
  MaxProbe = 1
  MaxHold = 1
  MaxSd = 2
  GSet = {1}
CONSTRAINT Bound
ACTION_CONSTRAINT InOrder
INVARIANT TypeOK
INVARIANT Lifetime
INVARIANT StatementHolds
CHECK_DEADLOCK FALSE
