------------------------------ MODULE OtlpLifeObs ------------------------------
(* E11 -- OTLP receiver lifecycle: statement-level OBSERVABLE LAYER and the clauses of the statement.

   Extra specification (no entry in properties.jsonl).  Record, in the form of properties.jsonl:

   title      OTLP receiver: one shared instance per configuration, its servers, and requests around Start / Shutdown
   statement  The receivers the otlpreceiver factory creates for one configuration (CreateTraces / Metrics / Logs /
              Profiles) are ONE component: it is started once however many of them are started (a later Start does not
              bind again and returns nil) and stopped once.  Start binds exactly the protocols present in the
              configuration (grpc and / or http); when a configured endpoint cannot be bound Start returns an error, a
              PermanentError (or FatalError) status event has reached the host's status reporter by then, and a later
              Shutdown is still safe.  While the receiver runs (the first Start returned nil, Shutdown not requested) a
              request for a signal that has a consumer is handed to THAT signal's consumer exactly once and answered
              with success iff the consumer returned nil, with a failure iff it returned an error (receiver package:
              "Push received data to the pipeline ..., acknowledge successful data receipt to the sender if Consume*()
              succeeded or return a failure"); a request for a signal without a consumer is answered with a failure
              and reaches no consumer.  At every moment: a request answered with success was handed to its signal's
              consumer exactly once and that call returned nil before the answer; no request is handed over twice; no
              consumer of a protocol that is not configured is called.  Shutdown: when any Shutdown call returns no
              consumer call of that instance is still running, none starts afterwards (requests in flight are finished
              or answered with a failure -- never success without the consumer's nil), the endpoints are released
              (they can be bound again: by anybody, and by a new instance created from the same configuration object,
              "when the receiver is shutdown it should be removed from this map so the same configuration can be
              recreated successfully", or from an equal one), and Shutdown never panics: not without Start, not after
              a failed Start, not a second time, not through another signal's receiver.
   quantifier for every protocol set {grpc}, {http}, {grpc, http}; every subset of the four signals created; every
              order of Start / Shutdown calls through the signals' receivers; a configured endpoint occupied by
              somebody else (the driver, or another running instance) when Start is called; requests over gRPC and
              HTTP (protobuf and JSON) for created and not created signals, the consumer returning nil / an error /
              blocking on a gate, sent before Start, while running, while a Shutdown is in progress and after it;
              Shutdown requested with requests in flight on either protocol; a second incarnation created from the
              same configuration object or from an equal one, before or after the first one's Shutdown
   anchors    receiver/otlpreceiver/factory.go (createTraces .. createProfiles, receivers map), otlp.go (Start,
              startGRPCServer, startHTTPServer, Shutdown, registerXConsumer), otlphttp.go (handleX),
              internal/{trace,metrics,logs,profiles}/otlp.go (Export), internal/sharedcomponent/sharedcomponent.go
              (Map.LoadOrStore, Component.Start / Shutdown, hostWrapper), component/component.go (lifecycle contract),
              receiver/doc.go (acknowledgment order), docs/component-status.md (Start error => PermanentError; shared
              component), receiver/otlpreceiver/README.md (protocols)

   Left OPEN (documentation silent; every behaviour is accepted by the clauses, the implementation-shaped model
   OtlpLifecycle.tla does what the code does and a divergence from it is MODEL-DRIFT, never a finding):
     O1  the kind of failure: HTTP 404 / gRPC Unimplemented for a signal without consumer, connection refused where
         nobody listens, the status a consumer error is mapped to (C15's business);
     O2  whether a request that arrives while a Shutdown is in progress is still served (component.go: "should not
         accept it anymore"): the code serves gRPC until the HTTP server has drained; any outcome is accepted as long as
         success implies the consumer's nil;
     O3  whether the endpoints are already released after a FAILED Start, before Shutdown (the code releases them), and
         whether an instance whose Start failed may serve; what a second receiver's Start returns after the shared
         Start failed (the code: nil);
     O4  a context with a deadline given to Shutdown (never done here: context.Background, like the service);
     O5  the exact status events and their order (C11's business) except the error event required after a failed Start;
     O6  the error value Shutdown returns; creating a further signal's receiver after Start; Start after Shutdown;
     O7  empty requests (not sent here: the code acknowledges them without calling the consumer);
     O8  README.md names a `profiles_url_path` setting and the default path /v1/profiles; the code has no such setting and
         serves /v1development/profiles (signal of stability "development") -- the driver uses the code's path.

   AN OBSERVATION h is the sequence of events recorded around one configuration (two endpoints), in the order in which the
   recorder's mutex was taken.  g = incarnation (1, 2), sig = signal = the receiver (wrapper) / host / consumer of that
   signal, p = "grpc" / "http" (protocol = endpoint), r = request number:
     [e |-> "create", g, sig, err]               factory.Create<sig> returned (err: it failed)
     [e |-> "hold", p] [e |-> "unhold", p]       the driver binds / releases endpoint p itself
     [e |-> "startcall", g, sig]                 Start of g's receiver for sig is about to be called
     [e |-> "status", g, sig, st]                the host given to that Start call got a status event
     [e |-> "startret", g, sig, err]             ... returned (err: an error)
     [e |-> "probe", p, free]                    the driver tried to bind endpoint p (and released it at once)
     [e |-> "send", r, tr, sig]                  request r for signal sig is about to be sent over protocol tr
     [e |-> "consume", r, g, sig]                the consumer given to Create<sig> of incarnation g is entered with request r
     [e |-> "consret", r, ok]                    ... returns nil (ok) / an error
     [e |-> "resp", r, res, code]                the client of r got "ok" (success) / "fail" (an answer that is a failure) /
                                                 "none" (no answer: refused, reset, transport error)
     [e |-> "sdcall", g, sig] [e |-> "sdret", g, sig, err, panic]      Shutdown through g's receiver for sig
     [e |-> "stall", w, r, g, sig]               the driver waited 10 s in vain for w = "resp" (of r) / "sdret" (of g, sig)
   cf = [grpc |-> BOOLEAN, http |-> BOOLEAN]: the protocols present in the configuration.

   Every clause is a predicate "position j of h offends" that looks at h[1..j] only; the same operators are an invariant
   of the model's history (OtlpLifecycleMC) and the monitor of real observations (OtlpLifecycleMonitor). *)
EXTENDS Integers, Sequences, FiniteSets

Before(h, k, j) == {x \in 1..(j - 1) : h[x].e = k}
MinOf(S)        == CHOOSE x \in S : \A y \in S : x <= y
MaxOf(S)        == CHOOSE x \in S : \A y \in S : x >= y
Configured(cf, p) == IF p = "grpc" THEN cf.grpc ELSE cf.http
Incarnations == {1, 2}

\* ------------------------------------------------------------------ where an incarnation is in its life (before position j)
StartCalls(h, g, j) == {k \in Before(h, "startcall", j) : h[k].g = g}
StartRets(h, g, j)  == {k \in Before(h, "startret", j) : h[k].g = g}
StartedOK(h, g, j)  == StartRets(h, g, j) # {} /\ ~h[MinOf(StartRets(h, g, j))].err      \* its FIRST Start returned nil
SdCalled(h, g, j)   == \E k \in Before(h, "sdcall", j) : h[k].g = g
SdReturned(h, g, j) == \E k \in Before(h, "sdret", j) : h[k].g = g
Running(h, g, j)    == StartedOK(h, g, j) /\ ~SdCalled(h, g, j)
\* g may have an endpoint bound: from the first call of Start until a Shutdown returned (O3: also after a failed Start)
MayHold(h, g, j)    == StartCalls(h, g, j) # {} /\ ~SdReturned(h, g, j)
\* the driver has p bound itself
Held(h, p, j) == \E k \in Before(h, "hold", j) : h[k].p = p /\ ~\E m \in Before(h, "unhold", j) : m > k /\ h[m].p = p
\* signals with a consumer when g was started (created before its first Start; all created ones if it was not started)
Reg(h, g, j) == LET lim == IF StartCalls(h, g, j) = {} THEN j ELSE MinOf(StartCalls(h, g, j))
                IN {h[k].sig : k \in {x \in Before(h, "create", lim) : h[x].g = g /\ ~h[x].err}}

\* ------------------------------------------------------------------ Start
\* The first Start of an incarnation returns an error if a configured endpoint is bound by somebody else for sure (the
\* driver, or another incarnation that runs) and nil if nobody else can have one bound; a later Start of an incarnation
\* that runs returns nil (one shared instance: nothing is bound twice).
StartOutcomeAt(cf, h, j) ==
  /\ h[j].e = "startret"
  /\ LET g == h[j].g
         others == Incarnations \ {g}
         sure  == \E p \in {"grpc", "http"} : Configured(cf, p) /\ (Held(h, p, j) \/ \E o \in others : Running(h, o, j))
         maybe == \E p \in {"grpc", "http"} : Configured(cf, p) /\ (Held(h, p, j) \/ \E o \in others : MayHold(h, o, j))
     IN IF StartRets(h, g, j) = {}
        THEN (h[j].err /\ ~maybe) \/ (~h[j].err /\ sure)
        ELSE h[j].err /\ Running(h, g, j)

\* a failed (first) Start has reported an error status to the host it was called with
StartErrorStatusAt(cf, h, j) ==
  /\ h[j].e = "startret" /\ h[j].err /\ StartRets(h, h[j].g, j) = {}
  /\ ~\E k \in Before(h, "status", j) : h[k].g = h[j].g /\ h[k].sig = h[j].sig
                                         /\ h[k].st \in {"StatusPermanentError", "StatusFatalError"}

\* ------------------------------------------------------------------ requests
SendOf(h, r, j) == MinOf({k \in Before(h, "send", j) : h[k].r = r})
Consumes(h, r, j) == {k \in Before(h, "consume", j) : h[k].r = r}
ConsRets(h, r, j) == {k \in Before(h, "consret", j) : h[k].r = r}

\* a consumer is entered: never twice for one request, only the consumer of the request's signal, only a consumer of an
\* incarnation whose Start has been called and whose Shutdown has not returned, only over a configured protocol
ConsumeAt(cf, h, j) ==
  /\ h[j].e = "consume"
  /\ LET s == SendOf(h, h[j].r, j) IN
       \/ Consumes(h, h[j].r, j) # {}
       \/ h[j].sig # h[s].sig
       \/ StartCalls(h, h[j].g, j) = {}
       \/ SdReturned(h, h[j].g, j)
       \/ ~Configured(cf, h[s].tr)

\* success only after the consumer of the request's signal took the request, once, and returned nil
AckAt(cf, h, j) ==
  /\ h[j].e = "resp" /\ h[j].res = "ok"
  /\ LET r == h[j].r IN
       \/ Cardinality(Consumes(h, r, j)) # 1
       \/ ~\E k \in ConsRets(h, r, j) : h[k].ok

\* a request sent to a receiver that runs from before the request was sent until after it was answered: consumer called,
\* success iff it returned nil, a failure (an answer) otherwise; no consumer for the signal: a failure, no call
SteadyBad(h, r, g, s, j) ==
  IF h[s].sig \in Reg(h, g, j)
  THEN \/ ~\E k \in Consumes(h, r, j) : h[k].g = g
       \/ ConsRets(h, r, j) = {}
       \/ \E k \in ConsRets(h, r, j) : h[j].res # (IF h[k].ok THEN "ok" ELSE "fail")
  ELSE h[j].res # "fail" \/ Consumes(h, r, j) # {}
SteadyAt(cf, h, j) ==
  /\ h[j].e = "resp"
  /\ LET r == h[j].r
         s == SendOf(h, r, j)
         G == {g \in Incarnations : StartedOK(h, g, s) /\ ~SdCalled(h, g, j)}
     IN Configured(cf, h[s].tr) /\ \E g \in G : SteadyBad(h, r, g, s, j)

\* ------------------------------------------------------------------ Shutdown
\* when a Shutdown call returns no consumer call of that incarnation is in progress
QuiescentAt(cf, h, j) ==
  /\ h[j].e = "sdret"
  /\ \E k \in Before(h, "consume", j) : h[k].g = h[j].g /\ ConsRets(h, h[k].r, j) = {}

ShutdownSafeAt(cf, h, j) == h[j].e = "sdret" /\ h[j].panic

\* ------------------------------------------------------------------ endpoints
\* an endpoint that nobody may have bound is free (not configured; never started; Shutdown returned); an endpoint of a
\* configured protocol of a running incarnation is bound
PortAt(cf, h, j) ==
  /\ h[j].e = "probe" /\ ~Held(h, h[j].p, j)
  /\ IF h[j].free THEN Configured(cf, h[j].p) /\ \E g \in Incarnations : Running(h, g, j)
                  ELSE ~(Configured(cf, h[j].p) /\ \E g \in Incarnations : MayHold(h, g, j))

\* ------------------------------------------------------------------ progress (the driver waited 10 s in vain)
\* every request is answered or refused once its consumer call is over (or was never made); Shutdown returns once no
\* consumer call of the incarnation is in progress
ProgressAt(cf, h, j) ==
  /\ h[j].e = "stall"
  /\ \/ h[j].w = "resp" /\ (Consumes(h, h[j].r, j) = {} \/ ConsRets(h, h[j].r, j) # {})
     \/ h[j].w = "sdret" /\ \A k \in Before(h, "consume", j) : h[k].g = h[j].g => ConsRets(h, h[k].r, j) # {}

\* ------------------------------------------------------------------ all clauses
ClauseNames == {"StartOutcome", "StartErrorStatus", "Consume", "Ack", "Steady", "Quiescent", "ShutdownSafe", "Port", "Progress"}
OffendsAt(name, cf, h, j) ==
  CASE name = "StartOutcome" -> StartOutcomeAt(cf, h, j)
    [] name = "StartErrorStatus" -> StartErrorStatusAt(cf, h, j)
    [] name = "Consume" -> ConsumeAt(cf, h, j)
    [] name = "Ack" -> AckAt(cf, h, j)
    [] name = "Steady" -> SteadyAt(cf, h, j)
    [] name = "Quiescent" -> QuiescentAt(cf, h, j)
    [] name = "ShutdownSafe" -> ShutdownSafeAt(cf, h, j)
    [] name = "Port" -> PortAt(cf, h, j)
    [] name = "Progress" -> ProgressAt(cf, h, j)
OffendedAt(cf, h, j) == {name \in ClauseNames : OffendsAt(name, cf, h, j)}
Holds(cf, h) == \A j \in 1..Len(h) : OffendedAt(cf, h, j) = {}
=============================================================================
