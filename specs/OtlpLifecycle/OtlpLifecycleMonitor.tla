---------------------------- MODULE OtlpLifecycleMonitor ----------------------------
(* E11 -- MONITOR: the clauses of OtlpLifeObs.tla (the statement) evaluated by TLC on what REAL otlpreceivers did.

   observed.ndjson is written by harness/otlplife, one line per executed script:
     {"id": n, "cfg": {"grpc": b, "http": b}, "ev": [ events in the order the recorder's mutex was taken ]}
   (events: see OtlpLifeObs.tla; real events carry more fields -- t, msg, enc, inst -- that no clause refers to;
   "unfollowed" marks a script the driver gave up).  Nothing here refers to the implementation-shaped model: any
   behaviour the statement allows is accepted.  An offending event does not stop the run, it is printed as
   <<"BEH", {id, at, clauses}>>; the verdicts of checks/E11.py come from these lines only. *)
EXTENDS OtlpLifeObs, TLC, Json

Log == ndJsonDeserialize("observed.ndjson")
VARIABLE l

Judge(o) ==
  \A j \in 1..Len(o.ev) :
     LET bad == OffendedAt(o.cfg, o.ev, j)
     IN IF bad = {} THEN TRUE ELSE PrintT(<<"BEH", ToJson([id |-> o.id, at |-> j, clauses |-> bad])>>)

MonInit == l = 1
MonNext == l <= Len(Log) /\ Judge(Log[l]) = TRUE /\ l' = l + 1
MonSpec == MonInit /\ [][MonNext]_l
AllJudged == TLCGet("stats").diameter - 1 = Len(Log)
=============================================================================
