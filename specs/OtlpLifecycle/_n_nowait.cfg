SPECIFICATION Spec
CONSTANTS
  Sigs = {"traces"}
  Reqs = {1}
  Variant = "nowait"
  Configs = {"g"}
  Kinds = {"same"}
  MaxLen = 9
  MaxProbe = 0
  MaxHold = 0
  MaxSd = 1
  GSet = {1}
CONSTRAINT Bound
ACTION_CONSTRAINT InOrder
ACTION_CONSTRAINT ServeOrder
INVARIANT TypeOK
INVARIANT Lifetime
INVARIANT StatementHolds
CHECK_DEADLOCK FALSE
