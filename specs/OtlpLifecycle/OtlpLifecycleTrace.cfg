SPECIFICATION TSpec
CONSTANTS
  Sigs = {"traces", "metrics", "logs", "profiles"}
  Reqs = {1, 2, 3, 4}
  Variant = "real"
INVARIANT Explained
CHECK_DEADLOCK FALSE
