SPECIFICATION Spec
CONSTANTS
  Sigs = {"traces", "metrics"}
  Reqs = {1, 2}
  Variant = "real"
  Configs = {"gh"}
  Kinds = {"same"}
  MaxLen = 16
  MaxProbe = 0
  MaxHold = 0
  MaxSd = 2
  GSet = {1}
CONSTRAINT Bound
ACTION_CONSTRAINT InOrder
ACTION_CONSTRAINT ServeOrder
INVARIANT TypeOK
INVARIANT Lifetime
INVARIANT StatementHolds
CHECK_DEADLOCK FALSE
