SPECIFICATION Spec
CONSTANTS
  Sigs = {"traces", "metrics"}
  Reqs = {1, 2}
  Variant = "real"
  Configs = {"gh", "g", "h"}
  Kinds = {"same"}
  MaxLen = 15
  MaxProbe = 0
  MaxHold = 0
  MaxSd = 2
  GSet = {1}
CONSTRAINT Bound
VIEW View
ACTION_CONSTRAINT InOrder
ACTION_CONSTRAINT ServeOrder
INVARIANT TypeOK
INVARIANT Lifetime
INVARIANT StatementHolds
CHECK_DEADLOCK FALSE
