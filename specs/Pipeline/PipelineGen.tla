------------------------------ MODULE PipelineGen ------------------------------
(* Script generator: behaviours of Pipeline.tla projected to what the driver (harness/pipeline) controls -- the order of
   injections, the moment Service.Shutdown is requested, and the outcome of the k-th export call (an export the
   behaviour places after the shutdown request is scripted "slow": the real call blocks until shutdown was requested). *)
EXTENDS Pipeline, Json

VARIABLES steps, outs
gvars == <<vars, steps, outs>>
GInit == Init /\ steps = <<>> /\ outs = <<>>
GNext ==
  \/ \E i \in Items : Inject(i) /\ steps' = Append(steps, [op |-> "inject", item |-> i]) /\ UNCHANGED outs
  \/ \E n \in 1..BatchSize : SendBatch(n) /\ UNCHANGED <<steps, outs>>
  \/ (Dequeue \/ RetryWake) /\ UNCHANGED <<steps, outs>>
  \/ \E o \in {"ok", "perm", "transient"} :
        /\ Export(o)
        /\ outs' = Append(outs, IF phase # "run" /\ o = "ok" /\ inflight.attempts = 0 THEN "slow" ELSE o)
        /\ steps' = (IF phase = "run" /\ (steps = <<>> \/ steps[Len(steps)].op # "pause")
                       THEN Append(steps, [op |-> "pause", item |-> ""]) ELSE steps)
  \/ Step /\ steps' = (IF phase = "run" THEN Append(steps, [op |-> "shutdown", item |-> ""]) ELSE steps) /\ UNCHANGED outs
GSpec == GInit /\ [][GNext]_gvars
EmitScript == Done => PrintT(<<"BEH", ToJson([steps |-> steps, outcomes |-> outs])>>)
=============================================================================
