---------------------------- MODULE PipelineMonitor ----------------------------
(* End-to-end monitor for the composed pipeline (real service: test receiver -> real batch processor -> exporter built with
   the exporter helper -> scripted backend).  Events (harness/pipeline):
     reset{script,cfg}  inject_end{items,ok}  exp_consume{items,ok}  push_start{items,call}  push_end{items,call,out}
     shutdown_start  shutdown_end  late_push{items}
   Clauses (from Pipeline.tla) decided when Service.Shutdown has returned; one verdict line per violated clause. *)
EXTENDS Integers, Sequences, FiniteSets, TLC, Json

Log == ndJsonDeserialize("observed.ndjson")
VARIABLES l, sid, accepted, refused, delivered, failed, anyFailure
mvars == <<l, sid, accepted, refused, delivered, failed, anyFailure>>
E == Log[l]
Is(e) == l <= Len(Log) /\ E.ev = e /\ l' = l + 1
SetOf(s) == {s[i] : i \in 1..Len(s)}
Report(clause, detail) == PrintT(<<"BEH", ToJson([script |-> sid, clause |-> clause, detail |-> detail])>>)
Bump(f, S) == [x \in DOMAIN f \cup S |-> (IF x \in DOMAIN f THEN f[x] ELSE 0) + (IF x \in S THEN 1 ELSE 0)]
Cnt(f, x) == IF x \in DOMAIN f THEN f[x] ELSE 0

MInit == l = 1 /\ sid = "" /\ accepted = {} /\ refused = {} /\ delivered = <<>> /\ failed = {} /\ anyFailure = FALSE
MReset == Is("reset") /\ sid' = E.script /\ accepted' = {} /\ refused' = {} /\ delivered' = <<>> /\ failed' = {} /\ anyFailure' = FALSE
MInject == /\ Is("inject_end")
           /\ IF E.ok THEN accepted' = accepted \cup SetOf(E.items) /\ UNCHANGED refused
                      ELSE refused' = refused \cup SetOf(E.items) /\ UNCHANGED accepted
           /\ UNCHANGED <<sid, delivered, failed, anyFailure>>
\* the exporter refused a batch (queue full): recorded failure, the batch processor drops it
MExpConsume == /\ Is("exp_consume")
               /\ IF E.ok THEN UNCHANGED <<failed, anyFailure>>
                          ELSE failed' = failed \cup SetOf(E.items) /\ anyFailure' = TRUE
               /\ UNCHANGED <<sid, accepted, refused, delivered>>
MPushEnd == /\ Is("push_end")
            /\ IF E.out = "ok" THEN delivered' = Bump(delivered, SetOf(E.items)) /\ UNCHANGED <<failed, anyFailure>>
                               ELSE failed' = failed \cup SetOf(E.items) /\ anyFailure' = TRUE /\ UNCHANGED delivered
            /\ UNCHANGED <<sid, accepted, refused>>
MLate == Is("late_push") /\ Report("NoWorkAfterShutdown", E.items) /\ UNCHANGED <<sid, accepted, refused, delivered, failed, anyFailure>>
MShutEnd == /\ Is("shutdown_end")
            /\ LET lost == {i \in accepted : Cnt(delivered, i) = 0 /\ i \notin failed}
                   twice == {i \in accepted : Cnt(delivered, i) > 1}
                   ghost == {i \in DOMAIN delivered : i \notin accepted}
               IN /\ (lost # {} => Report("NoSilentLoss", lost))
                  /\ ((~anyFailure /\ twice # {}) => Report("ExactlyOnceIfClean", twice))
                  /\ (ghost # {} => Report("NothingInvented", ghost))
            /\ UNCHANGED <<sid, accepted, refused, delivered, failed, anyFailure>>
MSkip == /\ l <= Len(Log) /\ E.ev \in {"push_start", "shutdown_start", "note", "end"} /\ l' = l + 1
         /\ UNCHANGED <<sid, accepted, refused, delivered, failed, anyFailure>>
MNext == MReset \/ MInject \/ MExpConsume \/ MPushEnd \/ MLate \/ MShutEnd \/ MSkip
MSpec == MInit /\ [][MNext]_mvars
AllConsumed == TLCGet("stats").diameter - 1 = Len(Log)
=============================================================================
