------------------------------ MODULE Pipeline ------------------------------
(* Composition model (beyond the listed properties): ONE logs pipeline as the service builds it

      receiver --> batch processor --> exporter (exporter helper: sending queue, consumers, retry) --> backend

   at item level, with the graceful service shutdown in the order graph.ShutdownAll uses (receivers, then processors,
   then exporters).  It composes what C17 (batch processor), C03 (exporter helper shutdown), C10 (shutdown order) and C19
   (ledgers) state separately, and asks the end-to-end question none of them asks alone:

      every item a receiver was told "accepted" is, when Service.Shutdown has returned, either delivered to the backend
      or dropped WITH a recorded failure (enqueue refused, permanent failure) -- never silently lost -- and it is
      delivered exactly once when nothing failed.

   Actions follow the code: Inject (receiver -> batchprocessor.ConsumeLogs: the item is put on the shard channel and nil
   is returned), Batch (size trigger / timer / shutdown drain -> exporter.ConsumeLogs -> queue.Offer: accepted or
   refused = logged and dropped by the batch processor), Dequeue, Export(outcome), RetryWait, and the shutdown steps
   RcvStop, ProcStop (drain + final send), ExpStopRetry, ExpStopQueue, ExpJoin, Done. *)
EXTENDS Integers, Sequences, FiniteSets, TLC

CONSTANTS Items,        \* item ids
          BatchSize,    \* send_batch_size (= max)
          QueueCap,     \* exporter queue capacity in requests
          RetryOn,
          MaxAttempts

VARIABLES toInject,     \* items the receiver has not yet tried to inject
          accepted,     \* items for which the receiver got nil
          refused,      \* items for which the receiver got an error (nothing may happen to them downstream)
          pending,      \* batch processor: items received, not yet sent (sequence)
          queue,        \* exporter queue: sequence of batches (sets of items)
          inflight,     \* [items, attempts, st] of the batch at the consumer, or "none"
          delivered,    \* item -> number of successful deliveries to the backend
          dropped,      \* items dropped with a recorded failure
          anyFailure,
          phase         \* "run","rcv_stopped","proc_stopped","retry_stopped","queue_stopped","done"

vars == <<toInject, accepted, refused, pending, queue, inflight, delivered, dropped, anyFailure, phase>>

None == [items |-> {}, attempts |-> 0, st |-> "none"]
SeqToSet(s) == {s[i] : i \in 1..Len(s)}

Init == /\ toInject = Items /\ accepted = {} /\ refused = {} /\ pending = <<>> /\ queue = <<>> /\ inflight = None
        /\ delivered = [i \in Items |-> 0] /\ dropped = {} /\ anyFailure = FALSE /\ phase = "run"

\* receiver: only while it is running (it is shut down first)
Inject(i) ==
  /\ phase = "run" /\ i \in toInject
  /\ toInject' = toInject \ {i}
  /\ accepted' = accepted \cup {i} /\ pending' = Append(pending, i)
  /\ UNCHANGED <<refused, queue, inflight, delivered, dropped, anyFailure, phase>>

\* batch processor sends a batch: size trigger, timer (any non-empty batch may go), or the drain at its shutdown
SendBatch(n) ==
  /\ phase \in {"run", "rcv_stopped"} /\ n \in 1..Len(pending) /\ n <= BatchSize
  /\ LET b == SeqToSet(SubSeq(pending, 1, n)) IN
     /\ pending' = SubSeq(pending, n + 1, Len(pending))
     /\ IF Len(queue) + (IF inflight.st # "none" THEN 1 ELSE 0) < QueueCap
          THEN queue' = Append(queue, b) /\ UNCHANGED <<dropped, anyFailure>>
          ELSE \* "sending queue is full": the batch processor logs the error and the data is dropped
               queue' = queue /\ dropped' = dropped \cup b /\ anyFailure' = TRUE
  /\ UNCHANGED <<toInject, accepted, refused, inflight, delivered, phase>>

Dequeue ==
  /\ inflight.st = "none" /\ queue # <<>> /\ phase # "done"
  /\ inflight' = [items |-> Head(queue), attempts |-> 0, st |-> "ready"] /\ queue' = Tail(queue)
  /\ UNCHANGED <<toInject, accepted, refused, pending, delivered, dropped, anyFailure, phase>>

Export(o) ==
  /\ inflight.st = "ready"
  /\ CASE o = "ok" -> /\ delivered' = [i \in Items |-> IF i \in inflight.items THEN delivered[i] + 1 ELSE delivered[i]]
                      /\ inflight' = None /\ UNCHANGED <<dropped, anyFailure>>
       [] o = "perm" -> /\ dropped' = dropped \cup inflight.items /\ anyFailure' = TRUE
                        /\ inflight' = None /\ UNCHANGED delivered
       [] o = "transient" ->
            /\ anyFailure' = TRUE /\ UNCHANGED delivered
            /\ IF RetryOn /\ inflight.attempts + 1 < MaxAttempts /\ phase \notin {"retry_stopped", "queue_stopped"}
                 THEN inflight' = [inflight EXCEPT !.attempts = @ + 1, !.st = "waiting"] /\ UNCHANGED dropped
                 ELSE \* retries disabled / exhausted / interrupted by shutdown: the request fails (memory queue: dropped)
                      inflight' = None /\ dropped' = dropped \cup inflight.items
  /\ UNCHANGED <<toInject, accepted, refused, pending, queue, phase>>

RetryWake ==
  /\ inflight.st = "waiting"
  /\ IF phase \in {"retry_stopped", "queue_stopped"}
       THEN inflight' = None /\ dropped' = dropped \cup inflight.items     \* shutdown-classified error: memory queue drops
       ELSE inflight' = [inflight EXCEPT !.st = "ready"] /\ UNCHANGED dropped
  /\ UNCHANGED <<toInject, accepted, refused, pending, queue, delivered, anyFailure, phase>>

\* graceful shutdown, in the order of graph.ShutdownAll
Step ==
  /\ CASE phase = "run"           -> phase' = "rcv_stopped"
       [] phase = "rcv_stopped"   -> pending = <<>> /\ phase' = "proc_stopped"          \* batch processor drained
       [] phase = "proc_stopped"  -> phase' = "retry_stopped"
       [] phase = "retry_stopped" -> phase' = "queue_stopped"
       [] phase = "queue_stopped" -> queue = <<>> /\ inflight.st = "none" /\ phase' = "done"   \* consumers joined
       [] OTHER -> FALSE
  /\ UNCHANGED <<toInject, accepted, refused, pending, queue, inflight, delivered, dropped, anyFailure>>

Next == \/ \E i \in Items : Inject(i)
        \/ \E n \in 1..BatchSize : SendBatch(n)
        \/ Dequeue \/ RetryWake \/ Step
        \/ \E o \in {"ok", "perm", "transient"} : Export(o)
Spec == Init /\ [][Next]_vars

----------------------------------------------------------------------------
Done == phase = "done"
NoSilentLoss       == Done => \A i \in accepted : delivered[i] >= 1 \/ i \in dropped
ExactlyOnceIfClean == (Done /\ ~anyFailure) => \A i \in accepted : delivered[i] = 1
NothingInvented    == \A i \in Items : delivered[i] > 0 => i \in accepted
RefusedUntouched   == \A i \in refused : delivered[i] = 0
NoDuplicates       == \A i \in Items : delivered[i] <= 1      \* (a retried batch is delivered at most once: ok ends it)
=============================================================================
