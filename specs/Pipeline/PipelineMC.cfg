SPECIFICATION Spec
CONSTANTS
  Items = {"a", "b", "c", "d"}
  BatchSize = 2
  QueueCap = 1
  RetryOn = TRUE
  MaxAttempts = 2
INVARIANTS NoSilentLoss ExactlyOnceIfClean NothingInvented RefusedUntouched NoDuplicates
CHECK_DEADLOCK FALSE
