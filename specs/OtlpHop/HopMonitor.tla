------------------------------ MODULE HopMonitor ------------------------------
(* Monitor for C15: evaluates the clauses of HopObs.tla on observations recorded from the real
   exporter -> receiver hop (harness/otlphop).  observed.ndjson, one object per request:
     {"id":k, "req":{transport, via, auth, method, media, wellformed, items, outcome:{kind,code,ri,wrap},
                     enc, enabled:[..], n, w, max, signal, ...},
              "obs":{"consumed":n, "eq":b, "resp":{kind,status,code,retryAfter,ri}, "cls":{class,delay}}}
   For every line TLC prints <<"VERDICT", json>> with the set of failed clauses, so every observation gets
   its own verdict.  This is the only source of a VIOLATION for C15. *)
EXTENDS HopObs, Sequences, TLC, Json

Log == ndJsonDeserialize("observed.ndjson")

SeqRange(s) == { s[i] : i \in 1..Len(s) }
ReqOf(x) == [ transport |-> x.transport, via |-> x.via, auth |-> x.auth, method |-> x.method, media |-> x.media,
              wellformed |-> x.wellformed, items |-> x.items, outcome |-> x.outcome, recv |-> x.recv,
              enc |-> x.enc, enabled |-> SeqRange(x.enabled), n |-> x.n, w |-> x.w, max |-> x.max ]

WellFormedLine(l) ==
    /\ l.req.transport \in { "grpc", "http" } /\ l.req.via \in { "exporter", "raw" }
    /\ l.req.auth \in { "off", "good", "bad" } /\ l.req.items \in { "some", "zero" }
    /\ l.req.wellformed \in BOOLEAN
    /\ l.req.outcome.kind \in { "nil", "perm", "trans", "status" }
    /\ l.req.outcome.kind = "status" => l.req.outcome.code \in GrpcCodes
    /\ l.obs.consumed \in Nat /\ l.obs.eq \in BOOLEAN
    /\ l.obs.resp.kind \in { "grpc", "http" }
    /\ l.obs.resp.kind = (IF l.req.transport = "grpc" THEN "grpc" ELSE "http")
    /\ l.obs.resp.status \in Int /\ l.obs.resp.retryAfter \in Int /\ l.obs.resp.ri \in Int
    /\ l.obs.cls.delay \in Int
    /\ l.req.via = "exporter" => l.obs.cls.class \in { "success", "permanent", "retryable", "throttle", "permanent+throttle" }

Verdict(l) == [ id |-> l.id,
                failed |-> IF WellFormedLine(l) THEN HopFailed(ReqOf(l.req), l.obs) ELSE { "MalformedLine" } ]

VARIABLE i
MInit == i = 1
MNext == /\ i <= Len(Log)
         /\ PrintT(<<"VERDICT", ToJson(Verdict(Log[i]))>>)
         /\ i' = i + 1
MSpec == MInit /\ [][MNext]_i
=============================================================================
