SPECIFICATION Spec
CONSTANTS
  Max = 4
  Families = "all"
  Requests <- MCRequests
INVARIANTS InvRoundTrip InvPassThroughUnencoded InvNotEnabledRejected InvLimitHolds InvNeverWrongBytes InvLimitAlways
CHECK_DEADLOCK FALSE
