----------------------------- MODULE IngressObs -----------------------------
(* Statement level of C16 (and of the ingress part of C15): what a handler behind the HTTP server
   middleware may observe for one request, written from the property statement only.

   A request r is a record
       enc      content coding the client applied and announced in Content-Encoding:
                "none" (no header) or a coding name
       enabled  the set of decoder names the server has enabled; "identity" stands for the entry
                "" of `compression_algorithms` (the identity / no-encoding entry)
       n        length of the body the client was given (plain bytes)
       w        length of the body on the wire (after the client's compression)
       max      configured maximum request body size
       (framing  "length" | "chunked": whether the request declares its length; carried for the record only --
                no clause depends on it: the limit holds "whatever the framing")
   An observation o of the real execution (or of the model) is a record
       ran      the innermost handler was invoked
       status   status class the client saw: "2xx" "4xx" "5xx" or "none" (no response obtained)
       nread    number of body bytes the handler obtained before EOF or error
       rerr     the handler's read ended with an error instead of EOF
       eq       the bytes the handler obtained equal the first nread bytes the client was given
   The same operators are evaluated (a) by TLC on every terminal state of the protocol machine
   (OtlpHop.tla, small integers) and (b) by TLC on every observation recorded from the real
   confighttp client/server (IngressMonitor.tla, real byte counts).  Only (b) yields a verdict. *)
EXTENDS Integers, FiniteSets

Codings      == { "gzip", "zlib", "deflate", "zstd", "snappy", "lz4" }   \* configcompression names
DecoderNames == Codings \cup { "identity" }
UnknownCoding == "br"              \* a coding outside the supported set; never enabled

EncEnabled(r) == IF r.enc = "none" THEN "identity" \in r.enabled ELSE r.enc \in r.enabled
Over(r)       == r.n > r.max       \* decompressed size exceeds the limit
WireOver(r)   == r.w > r.max       \* the encoded body alone exceeds the limit

(* What the handler got, as a class.  "over" takes precedence: more than max bytes were obtained. *)
ReadClass(r, o) ==
    IF ~o.ran THEN "none"
    ELSE IF o.nread > r.max THEN "over"
    ELSE IF ~o.rerr /\ o.nread = r.n /\ o.eq THEN "exact"
    ELSE IF ~o.rerr THEN "wrong"           \* clean EOF but not exactly the bytes the client was given
    ELSE "err"                             \* at most max bytes, then a read error

(* ---- the clauses of the statement ------------------------------------------------------- *)

(* "For every body and every compression algorithm the HTTP client and server settings support, a
   handler behind the server middleware reads exactly the bytes the client was given".
   Scope: the coding is enabled and neither the body nor its encoded form exceeds the limit (for an
   encoded form larger than the limit whose plain form fits, the statement -- which counts the
   limit "after decompression" -- and the description of the raw-body limit do not agree on the
   outcome; see SilentWireOver). *)
RoundTrip(r, o) ==
    (r.enc # "none" /\ EncEnabled(r) /\ ~Over(r) /\ ~WireOver(r))
        => (o.ran /\ ReadClass(r, o) = "exact")

(* "a request without content encoding passes through untouched".  Scope: the identity entry is
   enabled (the statement does not clearly cover an enabled list without it: both outcomes are
   admitted there, DESIGN 4 C15/C16 Limits). *)
PassThroughUnencoded(r, o) ==
    (r.enc = "none" /\ "identity" \in r.enabled /\ ~Over(r))
        => (o.ran /\ ReadClass(r, o) = "exact")

(* "A request whose content encoding is not enabled is rejected with a client error before the
   handler runs." *)
NotEnabledRejected(r, o) ==
    (r.enc # "none" /\ ~EncEnabled(r)) => (~o.ran /\ o.status = "4xx")

(* "A handler can never read more than the configured maximum request body size, counted after
   decompression, so a small compressed body cannot expand without bound." *)
LimitHolds(r, o) == o.ran => o.nread <= r.max

(* "reads exactly the bytes": whenever the handler sees a clean end of the body it has seen exactly
   the client's bytes -- never a silently truncated, extended or altered body. *)
NeverWrongBytes(r, o) == ReadClass(r, o) # "wrong"

(* Where the statement is silent the observation is only constrained by LimitHolds/NeverWrongBytes:
     - no content encoding and the identity entry is not enabled (reject or pass through),
     - the encoded form alone is larger than the limit although the plain body fits,
     - the plain body is larger than the limit (the handler may be refused up front or may read a
       prefix of at most max bytes and then fail). *)
SilentNoIdentity(r) == r.enc = "none" /\ "identity" \notin r.enabled
SilentWireOver(r)   == EncEnabled(r) /\ WireOver(r) /\ ~Over(r)

IngressClauseNames == { "RoundTrip", "PassThroughUnencoded", "NotEnabledRejected", "LimitHolds",
                        "NeverWrongBytes" }
IngressHolds(c, r, o) ==
    CASE c = "RoundTrip"            -> RoundTrip(r, o)
      [] c = "PassThroughUnencoded" -> PassThroughUnencoded(r, o)
      [] c = "NotEnabledRejected"   -> NotEnabledRejected(r, o)
      [] c = "LimitHolds"           -> LimitHolds(r, o)
      [] c = "NeverWrongBytes"      -> NeverWrongBytes(r, o)
IngressFailed(r, o) == { c \in IngressClauseNames : ~IngressHolds(c, r, o) }
IngressProperty(r, o) == IngressFailed(r, o) = {}
=============================================================================
