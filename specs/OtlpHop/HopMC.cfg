SPECIFICATION Spec
CONSTANTS
  Depth = "quick"
  Requests <- MCRequests
INVARIANTS InvSuccessIff InvDelivered InvStatusPassthrough InvPermanentIffNonRetryable InvThrottleHonoured InvRejectedNeverConsumed InvEmptyAckWithoutConsume InvConsumedOnce
CHECK_DEADLOCK FALSE
