------------------------------- MODULE OtlpHop -------------------------------
(* One request through the OTLP hop as a small protocol machine, shaped like the Go code:

     client side   Send            exporter / confighttp.ClientConfig.ToClient: marshal, compress
                                   (compressRoundTripper / grpc.UseCompressor), set headers
     HTTP server   Auth            confighttp.authInterceptor            (401 before anything else)
                   RawLimit        confighttp.maxRequestBodySizeInterceptor (MaxBytesReader on the raw body)
                   Decode          confighttp.decompressor.ServeHTTP     (decoder by Content-Encoding,
                                                                          MaxBytesReader after decompression)
                   Handler         the handler behind the middleware:
                                     "probe"  reads the whole body (C16)
                                     "otlp"   otlpreceiver handleTraces/Metrics/Logs/Profiles:
                                              readContentType (method, media type), readAndCloseBody,
                                              unmarshal
     gRPC server   GDecode         grpc-go: decompress by grpc-encoding, unmarshal
                   GAuth           configgrpc.authUnaryServerInterceptor (runs after decoding)
     both          Export          internal/{logs,metrics,trace,profiles}.Receiver.Export: no items -> ack
                   Consume         next consumer returns the scripted outcome; errors.GetStatusFromError;
                                   HTTP: errors.GetHTTPStatusCodeFromStatus + writeStatusResponse (Retry-After),
                                   gRPC: the status travels as it is (one action: nothing can interleave)
     client side   Classify        otlpexporter.processError / otlphttpexporter.export
     scripted peer Stub            not collector code: an HTTP server that answers the status it is told, so
                                   that the exporter also sees the statuses the real receiver never produces

   Named deviations / notes:
     - Auth and Decode answer through the receiver's errorHandler with the status they report (401 / 400)
       whatever the request's Content-Type is.  Before commit 4fb83e83e the code answered 500 there for a
       Content-Type other than protobuf / JSON; the check found that on the real code (clause
       RejectedNeverConsumed) and the machine describes the repaired behaviour.
     - the gRPC server's message size limit and the HTTP/2 framing are not modelled; TLS is off.
     - the payload is an opaque tag: equality at the consumer is sampled by the driver (srv.consumed and
       the driver's byte comparison), not derived by the machine.

   The byte-level part is arithmetic over stream lengths: a stream is [n |-> deliverable bytes,
   err |-> ends with an error instead of EOF]; http.MaxBytesReader(c) delivers at most c bytes and
   fails if more are available; a decoder over a complete encoded stream yields the n plain bytes
   (codec fidelity is an ASSUMPTION of the model, sampled on concrete bodies by the driver), over a
   truncated one some prefix followed by the error.

   The three implementation tables (consumer error -> gRPC status, gRPC status -> HTTP status +
   Retry-After, wire status -> exporter classification) below are transcriptions of what the Go code
   does today; the PROPERTY (HopObs.tla / IngressObs.tla) is written from the statement and the
   OTLP specification tables (OtlpTables.tla).  TLC checks that the former satisfies the latter
   for every request; the replay checks that the real code behaves like the former. *)
EXTENDS HopObs, Sequences, TLC

CONSTANT Requests            \* the finite set of request records explored (defined by the MC modules)

VARIABLES pc,        \* stage of the in-flight request
          req,       \* the request (chosen by Send)
          body,      \* the body as the next server layer would read it: [n, err]
          srv,       \* server-side facts: [ran, nread, rerr, consumed]
          resp,      \* wire response: [kind |-> "none"] | [kind |-> "http", status, code, retryAfter]
                     \*                | [kind |-> "grpc", code, ri]
          cls        \* exporter classification: [class, delay]

vars == <<pc, req, body, srv, resp, cls>>

NoReq  == [transport |-> "none"]
NoResp == [kind |-> "none"]
NoCls  == [class |-> "none", delay |-> 0]
Srv0   == [ran |-> FALSE, nread |-> 0, rerr |-> FALSE, consumed |-> 0]

Init == /\ pc = "idle" /\ req = NoReq /\ body = [n |-> 0, err |-> FALSE]
        /\ srv = Srv0 /\ resp = NoResp /\ cls = NoCls

(* ---- byte streams ------------------------------------------------------------------------ *)
Capped(s, c) == IF s.n > c THEN [n |-> c, err |-> TRUE] ELSE s        \* http.MaxBytesReader(_, s, c)
Decoded(s, r) == IF ~s.err THEN { [n |-> r.n, err |-> FALSE] }
                 ELSE { [n |-> k, err |-> TRUE] : k \in 0..r.n }     \* truncated input: a prefix, then the error

(* ---- implementation tables (what the Go code does today) ---------------------------------- *)
\* receiver/otlpreceiver/internal/errors.GetStatusFromError
ImplStatusOfOutcome(out) ==
    CASE out.kind = "status" -> [code |-> out.code, ri |-> out.ri]      \* status.FromError succeeds: passthrough
      [] out.kind = "perm"   -> [code |-> "INTERNAL", ri |-> NoRI]
      [] out.kind = "trans"  -> [code |-> "UNAVAILABLE", ri |-> NoRI]

\* receiver/otlpreceiver/internal/errors.GetHTTPStatusCodeFromStatus
ImplHttpOfCode(code) ==
    CASE code \in { "CANCELLED", "DEADLINE_EXCEEDED", "ABORTED", "OUT_OF_RANGE", "UNAVAILABLE", "DATA_LOSS" } -> 503
      [] code = "RESOURCE_EXHAUSTED" -> 429
      [] code = "INVALID_ARGUMENT"   -> 400
      [] code = "UNAUTHENTICATED"    -> 401
      [] code = "PERMISSION_DENIED"  -> 403
      [] code = "UNIMPLEMENTED"      -> 404
      [] OTHER                       -> 500

\* otlphttp.go writeStatusResponse: Retry-After only for 429/503 and only when RetryInfo is present;
\* whole seconds, truncated (int64(delay / time.Second)).  Delays are in ms, NoRI = absent.
ImplRetryAfter(status, ri) == IF status \in {429, 503} /\ ri # NoRI THEN (ri \div 1000) * 1000 ELSE NoRI

\* statusutil.NewStatusFromMsgAndHTTPCode: the code of the Status written for a middleware/handler error
ImplCodeOfHttp(status) ==
    CASE status = 400 -> "INVALID_ARGUMENT" [] status = 401 -> "UNAUTHENTICATED"
      [] status = 403 -> "PERMISSION_DENIED" [] status = 404 -> "UNIMPLEMENTED"
      [] status = 429 -> "RESOURCE_EXHAUSTED" [] status \in {502, 503, 504} -> "UNAVAILABLE"
      [] OTHER -> "UNKNOWN"

\* exporter/otlpexporter processError / shouldRetry
ImplClassifyGrpc(code, ri) ==
    IF code = "OK" THEN [class |-> "success", delay |-> 0]
    ELSE IF ~( code \in { "CANCELLED", "DEADLINE_EXCEEDED", "ABORTED", "OUT_OF_RANGE", "UNAVAILABLE", "DATA_LOSS" }
               \/ (code = "RESOURCE_EXHAUSTED" /\ ri # NoRI) )
         THEN [class |-> "permanent", delay |-> 0]
    ELSE IF ri # NoRI /\ ri # 0 THEN [class |-> "throttle", delay |-> ri]
    ELSE [class |-> "retryable", delay |-> 0]

\* exporter/otlphttpexporter export / isRetryableStatusCode
ImplClassifyHttp(status, retryAfter) ==
    IF status >= 200 /\ status <= 299 THEN [class |-> "success", delay |-> 0]
    ELSE IF status \notin {429, 502, 503, 504} THEN [class |-> "permanent", delay |-> 0]
    ELSE IF status \in {429, 503} /\ retryAfter # NoRI
         THEN [class |-> "throttle", delay |-> retryAfter]             \* "Retry-After: 0" -> throttle, delay 0
    ELSE [class |-> "retryable", delay |-> 0]

(* ---- actions ------------------------------------------------------------------------------ *)
HttpResp(status, code, ra) == [kind |-> "http", status |-> status, code |-> code, retryAfter |-> ra]
\* an error answered by the middleware / the handler itself (errorHandler, writeError with a plain error)
HttpError(status) == HttpResp(status, ImplCodeOfHttp(status), NoRI)
GrpcResp(code, ri) == [kind |-> "grpc", code |-> code, ri |-> ri]

Answer(r) == resp' = r /\ pc' = IF req.via = "exporter" THEN "classify" ELSE "done"

Send(r) ==
    /\ pc = "idle"
    /\ req' = r
    /\ body' = [n |-> r.w, err |-> FALSE]
    /\ pc' = IF r.recv = "stub" THEN "stub" ELSE IF r.transport = "http" THEN "auth" ELSE "gdecode"
    /\ UNCHANGED <<srv, resp, cls>>

Stub ==                                                     \* scripted HTTP peer (not collector code): answers as told
    /\ pc = "stub"
    /\ Answer(HttpResp(req.stub.status, IF req.stub.status < 300 THEN "OK" ELSE "UNKNOWN", req.stub.ra))
    /\ UNCHANGED <<req, body, srv, cls>>

Auth ==                                                     \* confighttp.authInterceptor
    /\ pc = "auth"
    /\ IF req.auth = "bad"
       THEN Answer(HttpError(401)) /\ UNCHANGED <<req, body, srv, cls>>
       ELSE pc' = "rawlimit" /\ UNCHANGED <<req, body, srv, resp, cls>>

RawLimit ==                                                 \* maxRequestBodySizeInterceptor: unconditional, whatever
    /\ pc = "rawlimit"                                       \* length the request declares (req.framing is not read)
    /\ body' = Capped(body, req.max)
    /\ pc' = "decode"
    /\ UNCHANGED <<req, srv, resp, cls>>

Decode ==                                                   \* decompressor.ServeHTTP
    /\ pc = "decode"
    /\ IF ~EncEnabled(req)
       THEN Answer(HttpError(400)) /\ UNCHANGED <<req, body, srv, cls>>       \* "unsupported Content-Encoding"
       ELSE IF req.enc = "none"
       THEN pc' = "handler" /\ UNCHANGED <<req, body, srv, resp, cls>>        \* newBody == nil: untouched
       ELSE \/ /\ body.err                                   \* eager decoders (gzip, zlib) read their header in the
               /\ Answer(HttpError(400))                     \* constructor: a raw stream cut inside it fails here
               /\ UNCHANGED <<req, body, srv, cls>>
            \/ /\ \E d \in Decoded(body, req) : body' = Capped(d, req.max)
               /\ pc' = "handler"
               /\ UNCHANGED <<req, srv, resp, cls>>

HandlerProbe ==                                             \* C16: a handler that reads everything
    /\ pc = "handler" /\ req.handler = "probe"
    /\ srv' = [srv EXCEPT !.ran = TRUE, !.nread = body.n, !.rerr = body.err]
    /\ Answer(IF body.err THEN HttpError(400) ELSE HttpResp(200, "OK", NoRI))
    /\ UNCHANGED <<req, body, cls>>

HandlerOtlp ==                                              \* otlphttp.go handleX up to the unmarshal
    /\ pc = "handler" /\ req.handler = "otlp"
    /\ srv' = [srv EXCEPT !.ran = TRUE]
    /\ IF req.method # "POST"     THEN Answer(HttpResp(405, "none", NoRI)) /\ UNCHANGED <<req, body, cls>>
       ELSE IF req.media = "other" THEN Answer(HttpResp(415, "none", NoRI)) /\ UNCHANGED <<req, body, cls>>
       ELSE IF body.err           THEN Answer(HttpError(400)) /\ UNCHANGED <<req, body, cls>>
       ELSE IF ~req.wellformed    THEN Answer(HttpError(400)) /\ UNCHANGED <<req, body, cls>>
       ELSE pc' = "export" /\ UNCHANGED <<req, body, resp, cls>>

GDecode ==                                                  \* grpc-go: decompress + unmarshal
    /\ pc = "gdecode"
    /\ IF ~req.wellformed
       THEN Answer(GrpcResp("INTERNAL", NoRI)) /\ UNCHANGED <<req, body, srv, cls>>
       ELSE pc' = "gauth" /\ UNCHANGED <<req, body, srv, resp, cls>>

GAuth ==                                                    \* configgrpc.authUnaryServerInterceptor
    /\ pc = "gauth"
    /\ IF req.auth = "bad"
       THEN Answer(GrpcResp("UNAUTHENTICATED", NoRI)) /\ UNCHANGED <<req, body, srv, cls>>
       ELSE pc' = "export" /\ UNCHANGED <<req, body, srv, resp, cls>>

Ack == IF req.transport = "http" THEN HttpResp(200, "OK", NoRI) ELSE GrpcResp("OK", NoRI)

Export ==                                                   \* Receiver.Export: empty request -> ack
    /\ pc = "export"
    /\ IF req.items = "zero"
       THEN Answer(Ack) /\ UNCHANGED <<req, body, srv, cls>>
       ELSE pc' = "consume" /\ UNCHANGED <<req, body, srv, resp, cls>>

Consume ==                                                  \* nextConsumer.ConsumeX + GetStatusFromError
    /\ pc = "consume"
    /\ srv' = [srv EXCEPT !.consumed = @ + 1]
    /\ IF req.outcome.kind = "nil"
       THEN Answer(Ack)
       ELSE LET st == ImplStatusOfOutcome(req.outcome) IN
            IF req.transport = "grpc"
            THEN Answer(GrpcResp(st.code, st.ri))
            ELSE LET h == ImplHttpOfCode(st.code) IN
                 Answer(HttpResp(h, st.code, ImplRetryAfter(h, st.ri)))
    /\ UNCHANGED <<req, body, cls>>

Classify ==                                                 \* the exporter interprets what it received
    /\ pc = "classify"
    /\ cls' = IF resp.kind = "grpc" THEN ImplClassifyGrpc(resp.code, resp.ri)
              ELSE ImplClassifyHttp(resp.status, resp.retryAfter)
    /\ pc' = "done"
    /\ UNCHANGED <<req, body, srv, resp>>

Next == \/ (pc = "idle" /\ \E r \in Requests : Send(r))     \* guard first: Requests is large
        \/ Stub \/ Auth \/ RawLimit \/ Decode \/ HandlerProbe \/ HandlerOtlp
        \/ GDecode \/ GAuth \/ Export \/ Consume \/ Classify

Spec == Init /\ [][Next]_vars

(* ---- observations of a finished request, in the vocabulary of the Obs modules ------------ *)
Done == pc = "done"

StatusClass(r) == IF r.kind # "http" THEN "none"
                  ELSE IF r.status < 300 THEN "2xx" ELSE IF r.status < 500 THEN "4xx" ELSE "5xx"

IngressObsOf == [ran |-> srv.ran, status |-> StatusClass(resp), nread |-> srv.nread,
                 rerr |-> srv.rerr, eq |-> TRUE]

HopObsOf == [consumed |-> srv.consumed, resp |-> resp, cls |-> cls, eq |-> TRUE]
=============================================================================
