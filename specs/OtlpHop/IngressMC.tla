------------------------------ MODULE IngressMC ------------------------------
(* C16: exhaustive design check and case generator for the ingress part of OtlpHop.
   Requests: every content coding the client can apply (+ none, + a coding outside the supported
   set) x every enabled-decoder list of the family x every size class x wire class x framing
   {"length": the request declares Content-Length; "chunked": the length is unknown to the server
   (Transfer-Encoding: chunked, r.ContentLength = -1) -- only a hand-made client sends that, the
   collector's own client always declares the length}.  An empty body cannot be sent chunked
   (net/http sends Content-Length: 0 for it).  The limit clauses quantify over the framing: nothing in
   the machine may depend on the declared length.
   Model sizes are small integers around the model limit Max; the clauses only compare n, w with
   max, so the result carries over to real byte counts (the monitor evaluates the same clauses on
   the real counts). *)
EXTENDS OtlpHop, Json

CONSTANTS Max,          \* model limit (>= 3)
          Families      \* "core" | "all": which enabled-decoder lists

SizeTags == { "empty", "small", "limm1", "lim", "limp1", "bomb" }
SizeN(s) == CASE s = "empty" -> 0 [] s = "small" -> 1 [] s = "limm1" -> Max - 1 [] s = "lim" -> Max
              [] s = "limp1" -> Max + 1 [] s = "bomb" -> 3 * Max

(* enabled-decoder lists: "core" = the default list, the empty list, every singleton and every
   list with exactly one name missing (enough to expose cross-talk between two names);
   "all" = every subset of the 7 names. *)
CoreFamilies == { DecoderNames, {} } \cup { {d} : d \in DecoderNames }
                  \cup { DecoderNames \ {d} : d \in DecoderNames }
EnabledLists == IF Families = "all" THEN SUBSET DecoderNames ELSE CoreFamilies

Encs == Codings \cup { "none", UnknownCoding }

(* wire class: "le" = the encoded body fits the limit, "gt" = it does not.  Without coding the
   wire body is the body. An encoded body is never empty-and-over, otherwise both classes exist
   for every size (incompressible bodies grow by the framing, compressible ones shrink). *)
Plain(enc) == enc \in { "none", UnknownCoding }     \* the client sends the body as it is
WireN(enc, s, wc) == IF Plain(enc) THEN SizeN(s)
                     ELSE IF wc = "gt" THEN Max + 2
                     ELSE IF SizeN(s) = 0 THEN 0 ELSE 1
WireClasses(enc, s) == IF Plain(enc) THEN { IF SizeN(s) > Max THEN "gt" ELSE "le" } ELSE { "le", "gt" }

IngressRequests ==
    { [ transport |-> "http", via |-> "raw", handler |-> "probe", auth |-> "off", recv |-> "off",
        enc |-> e, enabled |-> en, size |-> s, wire |-> wf[1], framing |-> wf[2],
        n |-> SizeN(s), w |-> WireN(e, s, wf[1]), max |-> Max ]
      : e \in Encs, en \in EnabledLists, s \in SizeTags, wf \in {"le", "gt"} \X {"length", "chunked"} }
MCRequests == { r \in IngressRequests : /\ r.wire \in WireClasses(r.enc, r.size)
                                        /\ r.framing = "chunked" => r.size # "empty" }

(* ---- design invariants: every clause of the statement on every finished request ---------- *)
InvRoundTrip            == Done => RoundTrip(req, IngressObsOf)
InvPassThroughUnencoded == Done => PassThroughUnencoded(req, IngressObsOf)
InvNotEnabledRejected   == Done => NotEnabledRejected(req, IngressObsOf)
InvLimitHolds           == Done => LimitHolds(req, IngressObsOf)
InvNeverWrongBytes      == Done => NeverWrongBytes(req, IngressObsOf)
\* the limit also holds for every intermediate view the handler could be given
InvLimitAlways          == pc = "handler" => body.n <= req.max

(* ---- generator: one line per finished request with the observation the machine specifies --- *)
Case == [ enc |-> req.enc, enabled |-> req.enabled, size |-> req.size, wire |-> req.wire, framing |-> req.framing,
          ran |-> srv.ran, status |-> IF resp.kind = "http" THEN resp.status ELSE 0,
          class |-> ReadClass(req, IngressObsOf),
          atmax |-> srv.ran /\ srv.nread = req.max,
          silent |-> SilentNoIdentity(req) \/ SilentWireOver(req) ]
Emit == Done => PrintT(<<"CASE", ToJson(Case)>>)
=============================================================================
