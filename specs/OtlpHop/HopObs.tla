------------------------------- MODULE HopObs -------------------------------
(* Statement level of C15: one request through OTLP exporter -> OTLP receiver, written from the
   property statement and the OTLP specification tables (OtlpTables.tla) only.

   A request r extends the ingress request (IngressObs.tla) by
       transport   "grpc" | "http"
       via         "exporter" (real otlpexporter / otlphttpexporter) | "raw" (hand-made request)
       auth        "off" (no authenticator configured) | "good" | "bad" (authenticator rejects)
       method      "POST" | "other"              (HTTP only)
       media       "proto" | "json" | "other"    (HTTP Content-Type; gRPC is always "proto")
       wellformed  the body is a well-formed export request in the announced encoding
       items       "some" | "zero"               (a request with no spans / points / records / profiles)
       recv        which peer the request is sent to: "off" | "auth" | "restricted" = the real receiver in three
                   configurations; "stub" = a scripted HTTP server that answers r.stub = [status, ra] (used to
                   show the exporter every HTTP status of the specification's table, also those the real
                   receiver never produces, e.g. 502 and 504)
       outcome     what the receiver's next consumer returns:
                     [kind |-> "nil"] | [kind |-> "perm"]   consumererror.NewPermanent(plain error)
                     [kind |-> "trans"]                     plain error
                     [kind |-> "status", code, ri, wrap]    error carrying an explicit gRPC status ANYWHERE IN
                                                            ITS CHAIN; ri = RetryInfo delay in ms, -1 = no
                                                            RetryInfo; wrap = how the status error is wrapped:
                                                            "no"   status.Error(...) itself
                                                            "perm" consumererror.NewPermanent(status error)
                                                                   (what otlphttpexporter / otlpexporter return
                                                                   for a non-retryable answer of THEIR backend
                                                                   in a chained deployment)
                                                            "fmt"  fmt.Errorf("...: %w", status error)
   Spec-level table for the consumer error: an error that carries an explicit status anywhere in its chain is
   reported with that status, whatever wraps it ("a consumer error carrying an explicit gRPC status is
   reported with that status"); only an error WITHOUT a status is classified by its permanent marker ("any
   OTHER permanent error ... any OTHER error").  One combination is left open, because the two halves of
   the sentence pull in different directions: a PERMANENT wrapper around a status whose code is RETRYABLE
   by the gRPC table (e.g. NewPermanent(UNAVAILABLE)).  There both answers are admitted: that status
   itself, or any non-retryable failure status (SilentPermanentRetryable).
   An observation o is
       consumed    how often the next consumer was invoked for this request
       eq          the payload at the consumer equals the payload sent (sampled on concrete payloads)
       resp        what was on the wire:
                     [kind |-> "grpc", code, ri]                       (ri as above)
                     [kind |-> "http", status, code, retryAfter]       code = code of the google.rpc.Status
                        in the response body ("none" if the body is not a Status), retryAfter = value of
                        the Retry-After header in ms, -1 = header absent
       cls         how the sending exporter classified the result (via = "exporter" only):
                     [class |-> "success" | "permanent" | "retryable" | "throttle", delay |-> ms]  *)
EXTENDS IngressObs, OtlpTables

NoRI == -1

(* ---- derived facts about the request ------------------------------------------------------ *)
Authenticated(r) == r.auth # "bad"
Malformed(r)     == ~r.wellformed
BadMedia(r)      == r.transport = "http" /\ r.media = "other"
BadMethod(r)     == r.transport = "http" /\ r.method # "POST"
BadEncoding(r)   == r.transport = "http" /\ r.enc # "none" /\ ~EncEnabled(r)
Rejectable(r)    == ~Authenticated(r) \/ Malformed(r) \/ BadMedia(r) \/ BadMethod(r) \/ BadEncoding(r)
Acceptable(r)    == ~Rejectable(r)
Stubbed(r)       == r.recv = "stub"
Reaches(r)       == ~Stubbed(r) /\ Acceptable(r) /\ r.items = "some"   \* must be handed to the next consumer
HasStatus(r)     == r.outcome.kind = "status"

(* ---- derived facts about what was on the wire ---------------------------------------------- *)
WireOK(o)      == IF o.resp.kind = "grpc" THEN o.resp.code = "OK" ELSE HttpSuccess(o.resp.status)
WireFailure(o) == IF o.resp.kind = "grpc" THEN o.resp.code \in GrpcCodes ELSE HttpFailure(o.resp.status)
WireRetryable(o) == IF o.resp.kind = "grpc" THEN GrpcRetryable(o.resp.code, o.resp.ri # NoRI)
                    ELSE HttpRetryable(o.resp.status)
\* the throttling delay the wire response asks for, NoRI if none
WireDelay(o) == IF o.resp.kind = "grpc" THEN o.resp.ri
                ELSE IF o.resp.status \in HttpThrottleStatuses THEN o.resp.retryAfter ELSE NoRI

ByExporter(r) == r.via = "exporter"
Retrying(o)   == o.cls.class \in { "retryable", "throttle" }

(* ---- the clauses of the statement ---------------------------------------------------------- *)

(* "The sender sees success if and only if that consumer accepted the data" (+ "requests with no
   items are acknowledged"). *)
ExpectSuccess(r) == Acceptable(r) /\ (r.items = "zero" \/ r.outcome.kind = "nil")
SuccessIff(r, o) ==
    /\ ~Stubbed(r) => (WireOK(o) <=> ExpectSuccess(r))
    /\ ByExporter(r) => (o.cls.class = "success" <=> WireOK(o))

(* "reaches the receiver's next consumer equal to what was sent" -- once. *)
Delivered(r, o) == Reaches(r) => (o.consumed = 1 /\ o.eq)

(* "a consumer error carrying an explicit gRPC status is reported with that status": the gRPC status
   itself over gRPC (code and RetryInfo), the google.rpc.Status of the response body over HTTP. *)
SilentPermanentRetryable(r) ==
    HasStatus(r) /\ r.outcome.wrap = "perm" /\ GrpcRetryable(r.outcome.code, r.outcome.ri # NoRI)
PassedThrough(r, o) ==
    /\ o.resp.code = r.outcome.code
    /\ o.resp.kind = "grpc" => o.resp.ri = r.outcome.ri
StatusPassthrough(r, o) ==
    (Reaches(r) /\ HasStatus(r)) =>
        \/ PassedThrough(r, o)
        \/ SilentPermanentRetryable(r) /\ WireFailure(o) /\ ~WireRetryable(o)

(* "any other permanent error with a non-retryable status and any other error with a retryable one,
   and the sending exporter classifies what it receives as permanent or retryable exactly as the
   OTLP specification's status tables prescribe, so a failure means the same thing on both sides".
   Receiver half: retryability of the wire status per the table of ITS protocol equals the meaning
   of the consumer's error (for an explicit gRPC status: its retryability per the gRPC table).
   RESOURCE_EXHAUSTED without RetryInfo over HTTP is left open: the gRPC table calls it
   non-retryable, its natural HTTP rendering 429 is retryable by the HTTP table.
   Exporter half: permanent <=> the wire status is non-retryable per the table of the protocol. *)
SilentResourceExhaustedHttp(r) ==
    r.transport = "http" /\ HasStatus(r) /\ r.outcome.code = "RESOURCE_EXHAUSTED" /\ r.outcome.ri = NoRI
OutcomeRetryable(r) ==
    CASE r.outcome.kind = "perm"   -> FALSE
      [] r.outcome.kind = "trans"  -> TRUE
      [] r.outcome.kind = "status" -> GrpcRetryable(r.outcome.code, r.outcome.ri # NoRI)
PermanentIffNonRetryable(r, o) ==
    /\ (Reaches(r) /\ r.outcome.kind # "nil") =>
          /\ WireFailure(o)
          /\ (~SilentResourceExhaustedHttp(r) /\ ~SilentPermanentRetryable(r))
                => (WireRetryable(o) <=> OutcomeRetryable(r))
    /\ (ByExporter(r) /\ WireFailure(o)) =>
          /\ o.cls.class = "permanent" <=> ~WireRetryable(o)
          /\ Retrying(o) <=> WireRetryable(o)

(* "(honouring a requested throttling delay)".  Exporter half: a retryable wire response that asks
   for a positive delay is classified as throttled with exactly that delay, and a throttle
   classification never invents a delay.  End to end: a delay requested by the consumer through
   RetryInfo on a retryable status arrives at the sender: exactly over gRPC, to the second over HTTP
   (Retry-After is in whole seconds; the statement does not say how a fraction is rounded, so the
   second below and the second above are both admitted). *)
ThrottleHonoured(r, o) ==
    /\ (ByExporter(r) /\ WireFailure(o) /\ WireRetryable(o) /\ WireDelay(o) > 0) =>
          (o.cls.class = "throttle" /\ o.cls.delay = WireDelay(o))
    /\ (ByExporter(r) /\ o.cls.class = "throttle") =>
          (WireFailure(o) /\ WireRetryable(o) /\ WireDelay(o) # NoRI /\ o.cls.delay = WireDelay(o))
    /\ (ByExporter(r) /\ Reaches(r) /\ HasStatus(r) /\ r.outcome.ri > 0
          /\ GrpcRetryable(r.outcome.code, TRUE) /\ ~SilentPermanentRetryable(r)) =>
          /\ o.cls.class = "throttle"
          /\ IF r.transport = "grpc" THEN o.cls.delay = r.outcome.ri
             ELSE o.cls.delay \in { (r.outcome.ri \div 1000) * 1000, ((r.outcome.ri + 999) \div 1000) * 1000 }

(* "Malformed, unsupported-media-type, wrong-method or (when an authenticator is configured)
   unauthenticated requests are answered with the protocol's client-error statuses and never reach
   the consumer".  HTTP: a 4xx status that is not retryable.  gRPC: UNAUTHENTICATED for a rejected
   credential; for a body grpc-go itself cannot unmarshal the status is chosen by grpc-go (INTERNAL),
   not by the collector, so only "failure, non-retryable" is required there. *)
RejectedNeverConsumed(r, o) ==
    Rejectable(r) =>
        /\ o.consumed = 0
        /\ IF o.resp.kind = "http"
           THEN HttpClientError(o.resp.status) /\ ~HttpRetryable(o.resp.status)
           ELSE /\ WireFailure(o) /\ ~WireRetryable(o)
                /\ (~Authenticated(r) /\ r.wellformed) => o.resp.code = "UNAUTHENTICATED"
        /\ ByExporter(r) => o.cls.class = "permanent"

(* "requests with no items are acknowledged without invoking it". *)
EmptyAckWithoutConsume(r, o) ==
    (~Stubbed(r) /\ Acceptable(r) /\ r.items = "zero") => (o.consumed = 0 /\ WireOK(o))

HopClauseNames == { "SuccessIff", "Delivered", "StatusPassthrough", "PermanentIffNonRetryable",
                    "ThrottleHonoured", "RejectedNeverConsumed", "EmptyAckWithoutConsume" }
HopHolds(c, r, o) ==
    CASE c = "SuccessIff"               -> SuccessIff(r, o)
      [] c = "Delivered"                -> Delivered(r, o)
      [] c = "StatusPassthrough"        -> StatusPassthrough(r, o)
      [] c = "PermanentIffNonRetryable" -> PermanentIffNonRetryable(r, o)
      [] c = "ThrottleHonoured"         -> ThrottleHonoured(r, o)
      [] c = "RejectedNeverConsumed"    -> RejectedNeverConsumed(r, o)
      [] c = "EmptyAckWithoutConsume"   -> EmptyAckWithoutConsume(r, o)
HopFailed(r, o) == { c \in HopClauseNames : ~HopHolds(c, r, o) }
HopProperty(r, o) == HopFailed(r, o) = {}
=============================================================================
