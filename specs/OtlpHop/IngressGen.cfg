SPECIFICATION Spec
CONSTANTS
  Max = 4
  Families = "core"
  Requests <- MCRequests
INVARIANTS Emit InvRoundTrip InvPassThroughUnencoded InvNotEnabledRejected InvLimitHolds InvNeverWrongBytes
CHECK_DEADLOCK FALSE
