-------------------------------- MODULE HopMC --------------------------------
(* C15: exhaustive design check and case generator for the OTLP hop (OtlpHop.tla).
   Requests:
     A  through the real exporters, reaching the consumer: channel (gRPC x {none,gzip,snappy,zstd};
        HTTP x {proto,json} x {none,gzip,zlib,deflate,zstd,snappy,lz4}) x signal x authenticator
        {not configured, configured + good credential} x every consumer outcome
        (nil, permanent, transient, gRPC status of each of the 16 codes x RetryInfo x wrapping);
     B  through the real exporters, not reaching it: rejected credential, request without items,
        content coding not enabled at the receiver;
     D  the real HTTP exporter against a scripted HTTP server answering every status of interest
        (2xx, 4xx, 5xx incl. 429/502/503/504) x Retry-After {absent, 0, 7 s};
     C  hand-made requests: every combination of credential x method x media type x well-formedness
        x items (HTTP), credential x well-formedness x items (gRPC), also against the receiver with a
        restricted decoder list.
   Depth = "quick": RetryInfo in {absent, 7 s}, wrapped status errors (permanent wrapper, fmt.Errorf %w) on one
   channel per transport/encoding only, raw requests over 3 codings;
   Depth = "full": RetryInfo in {absent, 0, 1 s, 1.5 s, 7 s}, status errors also wrapped in a permanent error
   or by fmt.Errorf("%w"),
   raw requests over all codings. *)
EXTENDS OtlpHop, Json

CONSTANT Depth

Signals   == { "traces", "metrics", "logs", "profiles" }
HttpComps == Codings \cup { "none" }
GrpcComps == { "none", "gzip", "snappy", "zstd" }
RawHttpComps == IF Depth = "full" THEN HttpComps ELSE { "none", "gzip", "zstd" }
RIs   == IF Depth = "full" THEN { NoRI, 0, 1000, 1500, 7000 } ELSE { NoRI, 7000 }
Wrappers == { "perm", "fmt" }                 \* NewPermanent(st.Err()), fmt.Errorf("...: %w", st.Err())
Wraps == IF Depth = "full" THEN { "no" } \cup Wrappers ELSE { "no" }
Restricted == { "identity", "gzip" }            \* compression_algorithms: ["", "gzip"]

Nil == [kind |-> "nil", code |-> "", ri |-> NoRI, wrap |-> "no"]
Outcomes == { Nil, [kind |-> "perm", code |-> "", ri |-> NoRI, wrap |-> "no"],
                   [kind |-> "trans", code |-> "", ri |-> NoRI, wrap |-> "no"] }
            \cup { [kind |-> "status", code |-> c, ri |-> ri, wrap |-> wr] : c \in GrpcCodes, ri \in RIs, wr \in Wraps }

Channels == { [transport |-> "grpc", media |-> "proto", comp |-> c] : c \in GrpcComps }
            \cup { [transport |-> "http", media |-> m, comp |-> c] : m \in {"proto", "json"}, c \in HttpComps }

NoStub == [status |-> 0, ra |-> NoRI]
R(ch, sig, via, auth, recv, method, wf, items, out) ==
    [ transport |-> ch.transport, media |-> ch.media, comp |-> ch.comp, signal |-> sig, via |-> via,
      auth |-> auth, recv |-> recv, method |-> method, wellformed |-> wf, items |-> items, outcome |-> out,
      stub |-> NoStub, handler |-> "otlp", enc |-> ch.comp,
      enabled |-> IF recv = "restricted" THEN Restricted ELSE DecoderNames,
      n |-> 1, w |-> 1, max |-> 4 ]

RecvOf(auth) == IF auth = "off" THEN "off" ELSE "auth"

ReqA == { R(ch, sig, "exporter", a, RecvOf(a), "POST", TRUE, "some", out)
          : ch \in Channels, sig \in Signals, a \in {"off", "good"}, out \in Outcomes }
(* A' (quick only; "full" has the wrapped shapes in Outcomes for every channel): every code x RetryInfo
   wrapped by a permanent error or by fmt.Errorf("%w"), on one channel per transport / encoding *)
WrapChannels == { ch \in Channels : ch.comp = "gzip" }
WrappedOutcomes == { [kind |-> "status", code |-> c, ri |-> ri, wrap |-> wr] : c \in GrpcCodes, ri \in RIs, wr \in Wrappers }
ReqAW == IF Depth = "full" THEN {}
         ELSE { R(ch, sig, "exporter", "off", "off", "POST", TRUE, "some", out)
                : ch \in WrapChannels, sig \in Signals, out \in WrappedOutcomes }
ReqB == { R(ch, sig, "exporter", "bad", "auth", "POST", TRUE, "some", Nil) : ch \in Channels, sig \in Signals }
        \cup { R(ch, sig, "exporter", "off", "off", "POST", TRUE, "zero", Nil) : ch \in Channels, sig \in Signals }
        \cup { R(ch, sig, "exporter", "off", "restricted", "POST", TRUE, "some", Nil)
               : ch \in { c \in Channels : c.transport = "http" }, sig \in Signals }
RawChannels == { [transport |-> "grpc", media |-> "proto", comp |-> c] : c \in GrpcComps }
               \cup { [transport |-> "http", media |-> m, comp |-> c] : m \in {"proto", "json", "other"}, c \in RawHttpComps }
ReqC == { R(ch, sig, "raw", a, rv, m, wf, it, Nil)
          : ch \in RawChannels, sig \in Signals, a \in {"off", "good", "bad"}, rv \in {"off", "auth", "restricted"},
            m \in {"POST", "other"}, wf \in BOOLEAN, it \in {"some", "zero"} }
ReqCValid == { r \in ReqC :
                 /\ r.recv = IF r.auth = "off" THEN r.recv ELSE "auth"
                 /\ r.recv # "auth" \/ r.auth # "off"
                 /\ r.transport = "grpc" => (r.method = "POST" /\ r.recv # "restricted")
                 /\ ~r.wellformed => r.items = "some"           \* a malformed body has no items to speak of
                 /\ r.recv = "restricted" => r.items = "some" }

(* D  the real HTTP exporter against a scripted server: every status of interest x Retry-After *)
StubStatuses == { 200, 202, 204, 400, 401, 403, 404, 405, 408, 413, 415, 422, 429, 500, 501, 502, 503, 504, 507 }
StubRAs      == { NoRI, 0, 7000 }
StubComps    == IF Depth = "full" THEN { "none", "gzip" } ELSE { "gzip" }
ReqD == { [ R([transport |-> "http", media |-> m, comp |-> cp], sig, "exporter", "off", "stub", "POST", TRUE, "some", Nil)
              EXCEPT !.stub = [status |-> st, ra |-> ra] ]
          : m \in {"proto", "json"}, cp \in StubComps, sig \in Signals, st \in StubStatuses, ra \in StubRAs }

MCRequests == ReqA \cup ReqAW \cup ReqB \cup ReqCValid \cup ReqD

(* ---- design invariants: every clause of the statement on every finished request ---------- *)
InvSuccessIff               == Done => SuccessIff(req, HopObsOf)
InvDelivered                == Done => Delivered(req, HopObsOf)
InvStatusPassthrough        == Done => StatusPassthrough(req, HopObsOf)
InvPermanentIffNonRetryable == Done => PermanentIffNonRetryable(req, HopObsOf)
InvThrottleHonoured         == Done => ThrottleHonoured(req, HopObsOf)
InvRejectedNeverConsumed    == Done => RejectedNeverConsumed(req, HopObsOf)
InvEmptyAckWithoutConsume   == Done => EmptyAckWithoutConsume(req, HopObsOf)
\* the consumer is invoked at most once, and only at the Consume stage
InvConsumedOnce             == srv.consumed <= 1

(* ---- generator: one line per finished request with the observation the machine specifies --- *)
PlanOf(r) == [ transport |-> r.transport, media |-> r.media, comp |-> r.comp, signal |-> r.signal, via |-> r.via,
               auth |-> r.auth, recv |-> r.recv, method |-> r.method, wellformed |-> r.wellformed,
               items |-> r.items, outcome |-> r.outcome, stub |-> r.stub ]
Case == [ plan |-> PlanOf(req),
          exp  |-> [ consumed |-> srv.consumed, resp |-> resp, cls |-> cls ],
          silent |-> SilentResourceExhaustedHttp(req) ]
Emit == Done => PrintT(<<"CASE", ToJson(Case)>>)
=============================================================================
