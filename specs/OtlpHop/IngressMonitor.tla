---------------------------- MODULE IngressMonitor ----------------------------
(* Monitor for C16: evaluates the clauses of IngressObs.tla on observations recorded from the real
   confighttp client / server (harness/httpingress).  observed.ndjson, one object per request:
     {"id":k, "req":{"enc":..,"enabled":[..],"n":..,"w":..,"max":..},
              "obs":{"ran":..,"status":"2xx|4xx|5xx|none","nread":..,"rerr":..,"eq":..}}
   For every line TLC prints <<"VERDICT", json>> with the set of failed clauses and the read class,
   so every observation gets its own verdict (a failing line does not hide the following ones).
   This is the only source of a VIOLATION for C16. *)
EXTENDS IngressObs, Sequences, TLC, Json

Log == ndJsonDeserialize("observed.ndjson")

SeqRange(s) == { s[i] : i \in 1..Len(s) }
ReqOf(x) == [ enc |-> x.enc, enabled |-> SeqRange(x.enabled), n |-> x.n, w |-> x.w, max |-> x.max ]
WellFormedLine(l) ==
    /\ l.req.enc \in Codings \cup { "none", UnknownCoding }
    /\ SeqRange(l.req.enabled) \subseteq DecoderNames
    /\ l.req.n \in Nat /\ l.req.w \in Nat /\ l.req.max \in Nat
    /\ l.obs.ran \in BOOLEAN /\ l.obs.rerr \in BOOLEAN /\ l.obs.eq \in BOOLEAN
    /\ l.obs.nread \in Nat /\ l.obs.status \in { "2xx", "4xx", "5xx", "none" }

Verdict(l) == [ id |-> l.id,
                failed |-> IF WellFormedLine(l) THEN IngressFailed(ReqOf(l.req), l.obs) ELSE { "MalformedLine" },
                class |-> IF WellFormedLine(l) THEN ReadClass(ReqOf(l.req), l.obs) ELSE "?" ]

VARIABLE i
MInit == i = 1
MNext == /\ i <= Len(Log)
         /\ PrintT(<<"VERDICT", ToJson(Verdict(Log[i]))>>)
         /\ i' = i + 1
MSpec == MInit /\ [][MNext]_i
=============================================================================
