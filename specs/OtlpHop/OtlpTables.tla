----------------------------- MODULE OtlpTables -----------------------------
(* The status tables of the OTLP specification (opentelemetry-proto docs/specification.md,
   sections "OTLP/gRPC > Failures", "OTLP/gRPC Throttling", "OTLP/HTTP > Failures",
   "Retryable Response Codes", "OTLP/HTTP Throttling"), transcribed from the specification text,
   NOT from the Go switch statements in receiver/otlpreceiver/internal/errors and
   exporter/otlp*exporter.

   OTLP/gRPC, "The client SHOULD interpret gRPC status codes as retryable or not-retryable
   according to the following table":
       CANCELLED yes, UNKNOWN no, INVALID_ARGUMENT no, DEADLINE_EXCEEDED yes, NOT_FOUND no,
       ALREADY_EXISTS no, PERMISSION_DENIED no, UNAUTHENTICATED no,
       RESOURCE_EXHAUSTED only if the server can recover (= the status carries RetryInfo),
       FAILED_PRECONDITION no, ABORTED yes, OUT_OF_RANGE yes, UNIMPLEMENTED no, INTERNAL no,
       UNAVAILABLE yes, DATA_LOSS yes.
   OTLP/HTTP, "Retryable Response Codes": 429, 502, 503, 504; "All other 4xx or 5xx response
   status codes MUST NOT be retried".
   Throttling: gRPC -- RetryInfo.retry_delay in the status details, "the client SHOULD honour the
   waiting interval"; HTTP -- 429 or 503 with a Retry-After header (delay-seconds), "the client
   SHOULD honour the waiting interval specified in the Retry-After header if it is present". *)
EXTENDS Integers

GrpcCodes == { "CANCELLED", "UNKNOWN", "INVALID_ARGUMENT", "DEADLINE_EXCEEDED", "NOT_FOUND",
               "ALREADY_EXISTS", "PERMISSION_DENIED", "RESOURCE_EXHAUSTED", "FAILED_PRECONDITION",
               "ABORTED", "OUT_OF_RANGE", "UNIMPLEMENTED", "INTERNAL", "UNAVAILABLE", "DATA_LOSS",
               "UNAUTHENTICATED" }                         \* the 16 non-OK codes; "OK" is success

GrpcAlwaysRetryable == { "CANCELLED", "DEADLINE_EXCEEDED", "ABORTED", "OUT_OF_RANGE",
                         "UNAVAILABLE", "DATA_LOSS" }

\* hasRetryInfo: the status details contain a google.rpc.RetryInfo
GrpcRetryable(code, hasRetryInfo) ==
    \/ code \in GrpcAlwaysRetryable
    \/ code = "RESOURCE_EXHAUSTED" /\ hasRetryInfo

HttpRetryableStatuses == { 429, 502, 503, 504 }
HttpRetryable(status) == status \in HttpRetryableStatuses
HttpThrottleStatuses == { 429, 503 }          \* the statuses for which Retry-After is defined by OTLP

HttpClientError(status) == status >= 400 /\ status <= 499
HttpFailure(status) == status >= 400 /\ status <= 599
HttpSuccess(status) == status >= 200 /\ status <= 299
=============================================================================
