---------------------------- MODULE LifecycleMC ----------------------------
(* Exhaustive design check of Lifecycle: every small configuration (pipelines, extensions with
   dependencies, shared receivers), every failure script up to MaxFail failing calls, every order the
   algorithm may take.  History-free: all variables are behaviour relevant. *)
EXTENDS Lifecycle
=============================================================================
