----------------------------- MODULE Lifecycle -----------------------------
(* C10 -- components start downstream-first, stop upstream-first, each exactly once.

   Built on PipelineGraph (same configuration builder, same node-level model of graph.go).

   CONFIGURATION PART (phase "config"): the pipeline configuration of PipelineGraph, plus
       exts       the extensions listed in service::extensions
       deps       declared dependencies (extensioncapabilities.Dependent): deps[x] must start before x
       shared     receiver ids whose factory shares ONE object between the signals
                  (internal/sharedcomponent, the way the OTLP receiver does)
       failStart / failShut   which component calls fail (chosen up front, at Freeze)

   STATEMENT LEVEL (section 2): the component instances (PipelineGraph!Instances + extensions), the
   relation SendsTo between them read off the CONFIGURATION (pipeline level, no capabilities / fan-out
   nodes), and the ordering constraints of the statement as guards:
       MayStartExt, MayStartNode, MayStopNode, MayStopExt
   These guards are used twice: as action properties of the algorithm below (design check), and as
   the enabling conditions of LifecycleTrace, which validates call logs of the real service -- so
   every legal order is accepted and every illegal one is rejected.

   IMPLEMENTATION SHAPED (section 3): service.Start / Shutdown, extensions.Start / Shutdown,
   graph.StartAll / ShutdownAll, sharedcomponent.Start / Shutdown with their real freedom:
       * extensions.New fixes ONE order (any topological order of the dependency graph); Start walks it
         forwards and returns at the first error, Shutdown walks ALL of it backwards;
       * StartAll walks any reverse topological order of the NODE graph (capabilities and fan-out nodes
         included; topo.Sort iterates a Go map, so the order is not fixed), calls Start on component
         nodes, returns at the first error; ShutdownAll walks any topological order (computed afresh),
         calls Shutdown on every component node and keeps going after an error;
       * the caller of a failed service.Start calls service.Shutdown (otelcol/collector.go
         setupConfigurationComponents), which shuts down every component, started or not;
       * a sharedcomponent wrapper forwards only the first Start and the first Shutdown to the inner
         object.
   One action per call.

   FINDING (C10-shared-receiver-early-start).  A receiver shared between signals is ONE component that
   sends data into the pipelines of all its signals, but the graph has one receiver node per signal and
   the first node StartAll happens to visit starts the inner object.  With ReceiversLast = FALSE (the
   pinned tree) TLC finds a behaviour violating SharedStartOrder (inner object started while a
   consumer of another signal is not started); the real service shows it in about every second
   lifetime with a shared receiver.  ReceiversLast = TRUE is the model of the delivered repair
   (fixes/C10-receivers-start-last.patch: receiver nodes are started after all other nodes) and
   satisfies SharedStartOrder together with all other clauses. *)
EXTENDS PipelineGraphMC     \* = PipelineGraph + the named universes / connector support table

CONSTANTS ExtIds,      \* extension ids
          MaxFail,     \* bound on |failStart| + |failShut|
          ReceiversLast  \* FALSE: graph.StartAll as it is in the pinned tree (any reverse topological order)
                         \* TRUE : the repaired StartAll (fixes/C10-*.patch): receiver nodes are started after every
                         \*        other node, still in reverse topological order otherwise

VARIABLES exts, deps, shared, failStart, failShut,   \* configuration part (frozen at Freeze)
          phase,       \* "config" | "extStart" | "nodeStart" | "running" | "aborted" | "nodeStop" | "extStop" | "done"
          extOrder,    \* the order computed by extensions.New (computeOrder)
          ei,          \* position in extOrder
          visS, visD,  \* node-graph nodes already visited by StartAll / ShutdownAll
          starts, startRes,     \* per entity: number of Start calls, result of the (last) call
          stops, stopRes,       \* per entity: number of Shutdown calls, result
          svcStart, svcStop     \* result of service.Start / service.Shutdown: "none" | "ok" | "failed"

cvars == <<cfg, exts, deps, shared, failStart, failShut>>
ovars == <<starts, startRes, stops, stopRes, svcStart, svcStop>>
ivars == <<phase, extOrder, ei, visS, visD>>
lvars == <<cvars, ovars, ivars>>

-----------------------------------------------------------------------------
(* 1. configuration part *)

ExtN(x)    == <<"extension", x>>
InnerN(r)  == <<"shared", r>>
SharedUsed == {r \in shared : \E xs \in UsedRcvs : xs[1] = r}

\* dependency graph of the service's extensions is acyclic and closed (else extensions.New fails: not a built service)
RECURSIVE DepReach(_, _)
DepReach(S, k) == IF k = 0 THEN S
                  ELSE LET T == S \cup UNION {deps[x] : x \in S} IN IF T = S THEN S ELSE DepReach(T, k - 1)
DepsOK == /\ \A x \in exts : deps[x] \subseteq exts
          /\ \A x \in exts : x \notin DepReach(deps[x], Cardinality(ExtIds))

AddExt(x)    == /\ phase = "config" /\ x \notin exts /\ exts' = exts \cup {x}
                /\ UNCHANGED <<cfg, deps, shared, failStart, failShut, ovars, ivars>>
AddDep(x, y) == /\ phase = "config" /\ x \in exts /\ y \in exts /\ x # y /\ y \notin deps[x]
                /\ deps' = [deps EXCEPT ![x] = @ \cup {y}]
                /\ UNCHANGED <<cfg, exts, shared, failStart, failShut, ovars, ivars>>
                /\ DepsOK'                                  \* no dependency cycle: extensions.New would fail
Share(r)     == /\ phase = "config" /\ r \in Rcvs \ shared /\ \E xs \in UsedRcvs : xs[1] = r
                /\ shared' = shared \cup {r}
                /\ UNCHANGED <<cfg, exts, deps, failStart, failShut, ovars, ivars>>
Build        == /\ phase = "config" /\ GNext
                /\ UNCHANGED <<exts, deps, shared, failStart, failShut, ovars, ivars>>

-----------------------------------------------------------------------------
(* 2. statement level: instances, who sends data to whom, ordering guards *)

Comps    == Instances                                  \* pipeline component instances (PipelineGraph)
Inners   == {InnerN(r) : r \in SharedUsed}
Ents     == Comps \cup {ExtN(x) : x \in exts} \cup Inners

\* the failure script cannot tell the instances of one processor id in different pipelines of a signal apart
FKey(n)  == IF n[1] = "processor" THEN <<"processor", n[2], n[4]>>
            ELSE IF n[1] = "receiver" /\ n[3] \in shared THEN InnerN(n[3])      \* only the inner object can fail
            ELSE n
FKeys    == {FKey(n) : n \in Ents}

\* first stage of pipeline p / what the last stage of pipeline p hands data to
PipeTail(p) == {<<"exporter", Sig(p), x>> : x \in cfg[p].e \cap Exps}
               \cup {<<"connector", Sig(p), Sig(cq[2]), cq[1]>> :
                        cq \in {dq \in (cfg[p].e \cap Conns) \X On : PEdge(p, dq[1], dq[2])}}
PipeHead(p) == IF cfg[p].p # <<>> THEN {<<"processor", p[1], p[2], cfg[p].p[1]>>} ELSE PipeTail(p)

\* "the components it sends data to"
SendsTo(n) ==
  CASE n[1] = "receiver"  -> UNION {PipeHead(p) : p \in {q \in On : Sig(q) = n[2] /\ n[3] \in cfg[q].r}}
    [] n[1] = "processor" -> LET p == <<n[2], n[3]>>
                                 i == CHOOSE j \in DOMAIN cfg[p].p : cfg[p].p[j] = n[4]
                             IN IF i < Len(cfg[p].p) THEN {<<"processor", p[1], p[2], cfg[p].p[i + 1]>>} ELSE PipeTail(p)
    [] n[1] = "connector" -> UNION {PipeHead(q) : q \in {q \in On : Sig(q) = n[3] /\ n[4] \in cfg[q].r}}
    [] OTHER              -> {}

StartedOK(n)  == startRes[n] = "ok"
Stopped(n)    == stopRes[n] # "none"                   \* its Shutdown call has returned
StartFailure  == \E n \in Ents : startRes[n] = "failed"
StopFailure   == \E n \in Ents : stopRes[n] = "failed"
InCall        == \E n \in Ents : (starts[n] > 0 /\ startRes[n] = "none") \/ (stops[n] > 0 /\ stopRes[n] = "none")

\* every extension is started before any pipeline component and after the extensions it depends on; at most once;
\* a start failure aborts start-up (no further Start calls)
MayStartExt(x)  == /\ starts[ExtN(x)] = 0 /\ ~StartFailure
                   /\ \A n \in Comps : starts[n] = 0
                   /\ \A d \in deps[x] : StartedOK(ExtN(d))
\* every pipeline component is started only after all components it sends data to have started (and all extensions)
MayStartNode(n) == /\ starts[n] = 0 /\ ~StartFailure
                   /\ \A x \in exts : StartedOK(ExtN(x))
                   /\ \A m \in SendsTo(n) : StartedOK(m)
\* a component is shut down only after every component that sends data to it; once
MayStopNode(n)  == /\ stops[n] = 0
                   /\ \A m \in Comps : n \in SendsTo(m) => Stopped(m)
\* extensions last, in reverse order: after all pipeline components and after the extensions depending on it; once
MayStopExt(x)   == /\ stops[ExtN(x)] = 0
                   /\ \A n \in Comps : Stopped(n)
                   /\ \A y \in exts : x \in deps[y] => Stopped(ExtN(y))
\* the inner object of a shared receiver: started / stopped at most once, inside a call on one of its nodes
SharedNodes(r)    == {n \in Comps : n[1] = "receiver" /\ n[3] = r}
MayStartInner(r)  == starts[InnerN(r)] = 0 /\ \E n \in SharedNodes(r) : starts[n] > 0 /\ startRes[n] = "none"
\* ... and, being ONE component that sends data into the pipelines of ALL its signals, only after the components
\* it sends data to -- for every signal -- have started
SharedDownstreamStarted(r) == \A n \in SharedNodes(r) : \A m \in SendsTo(n) : StartedOK(m)
MayStopInner(r)   == stops[InnerN(r)] = 0 /\ \E n \in SharedNodes(r) : stops[n] > 0 /\ stopRes[n] = "none"

\* what must hold when the service lifetime is over (service.Shutdown has returned)
FinalOK == /\ \A n \in Ents : starts[n] <= 1 /\ stops[n] = 1 /\ Stopped(n)
           /\ svcStart = "failed" <=> StartFailure          \* the start failure is what start-up returned
           /\ svcStop = "failed" <=> StopFailure            \* a shutdown failure is reported
           /\ ~StartFailure => \A n \in Ents : StartedOK(n)   \* a successful start-up started everything

-----------------------------------------------------------------------------
(* 3. implementation shaped: one action per call *)

Zero(S, v) == [n \in S |-> v]

\* any order computeOrder may return: a permutation of exts in which dependencies come first
IsTopo(s) == \A i, j \in DOMAIN s : s[j] \in deps[s[i]] => j < i
Perms(S)  == {s \in [1..Cardinality(S) -> S] : \A i, j \in DOMAIN s : i # j => s[i] # s[j]}

\* subsets with at most two elements (MaxFail <= 2)
Small(S) == {{}} \cup {{x} : x \in S} \cup {{xy[1], xy[2]} : xy \in S \X S}

Freeze == /\ phase = "config" /\ On # {} /\ Valid /\ DepsOK
          /\ \E o \in {s \in Perms(exts) : IsTopo(s)} : extOrder' = o
          /\ \E ff \in {gg \in Small(FKeys) \X Small(FKeys) : Cardinality(gg[1]) + Cardinality(gg[2]) <= MaxFail} :
                failStart' = ff[1] /\ failShut' = ff[2]
          /\ starts' = Zero(Ents, 0) /\ startRes' = Zero(Ents, "none")
          /\ stops' = Zero(Ents, 0) /\ stopRes' = Zero(Ents, "none")
          /\ phase' = "extStart" /\ ei' = 1 /\ visS' = {} /\ visD' = {}
          /\ UNCHANGED <<cfg, exts, deps, shared, svcStart, svcStop>>

Res(n, failing) == IF FKey(n) \in failing THEN "failed" ELSE "ok"

\* extensions.Start: for each id in order: Start; return at the first error
ExtStart == /\ phase = "extStart" /\ ei <= Len(extOrder)
            /\ LET n == ExtN(extOrder[ei]) r == Res(n, failStart)
               IN /\ starts' = [starts EXCEPT ![n] = @ + 1]
                  /\ startRes' = [startRes EXCEPT ![n] = r]
                  /\ IF r = "ok" THEN phase' = phase /\ ei' = ei + 1 /\ svcStart' = svcStart
                     ELSE phase' = "aborted" /\ ei' = ei /\ svcStart' = "failed"
            /\ UNCHANGED <<cvars, stops, stopRes, svcStop, extOrder, visS, visD>>
ExtStartDone == /\ phase = "extStart" /\ ei > Len(extOrder)
                /\ phase' = "nodeStart"
                /\ UNCHANGED <<cvars, ovars, extOrder, ei, visS, visD>>

\* the wrapper of a shared receiver: only the first Start reaches the inner object
StartCall(n) ==
  IF n[1] = "receiver" /\ n[3] \in shared
  THEN LET in == InnerN(n[3]) IN
       IF starts[in] = 0
       THEN LET r == Res(in, failStart) IN
            /\ starts' = [starts EXCEPT ![n] = @ + 1, ![in] = @ + 1]
            /\ startRes' = [startRes EXCEPT ![n] = r, ![in] = r]
       ELSE /\ starts' = [starts EXCEPT ![n] = @ + 1]
            /\ startRes' = [startRes EXCEPT ![n] = "ok"]
  ELSE /\ starts' = [starts EXCEPT ![n] = @ + 1]
       /\ startRes' = [startRes EXCEPT ![n] = Res(n, failStart)]

\* graph.StartAll: reverse topological order of the node graph, Start on component nodes, return at the first error
NodeStart(n) == /\ phase = "nodeStart"
                /\ LET E == Edges IN /\ n \in NodesOf(E) \ visS /\ SuccIn(E, n) \subseteq visS
                                     /\ (ReceiversLast /\ n[1] = "receiver") =>
                                            \A m \in NodesOf(E) : m[1] # "receiver" => m \in visS
                /\ visS' = visS \cup {n}
                /\ IF IsComponent(n)
                   THEN /\ StartCall(n)
                        /\ IF startRes'[n] = "ok" THEN phase' = phase /\ svcStart' = svcStart
                           ELSE phase' = "aborted" /\ svcStart' = "failed"
                   ELSE UNCHANGED <<starts, startRes, phase, svcStart>>
                /\ UNCHANGED <<cvars, stops, stopRes, svcStop, extOrder, ei, visD>>
NodeStartDone == /\ phase = "nodeStart" /\ visS = AllNodes
                 /\ phase' = "running" /\ svcStart' = "ok"
                 /\ UNCHANGED <<cvars, starts, startRes, stops, stopRes, svcStop, extOrder, ei, visS, visD>>

\* service.Shutdown, called when running or after a failed Start
BeginStop == /\ phase \in {"running", "aborted"}
             /\ phase' = "nodeStop"
             /\ UNCHANGED <<cvars, ovars, extOrder, ei, visS, visD>>

StopCall(n) ==
  IF n[1] = "receiver" /\ n[3] \in shared
  THEN LET in == InnerN(n[3]) IN
       IF stops[in] = 0
       THEN LET r == Res(in, failShut) IN
            /\ stops' = [stops EXCEPT ![n] = @ + 1, ![in] = @ + 1]
            /\ stopRes' = [stopRes EXCEPT ![n] = r, ![in] = r]
       ELSE /\ stops' = [stops EXCEPT ![n] = @ + 1]
            /\ stopRes' = [stopRes EXCEPT ![n] = "ok"]
  ELSE /\ stops' = [stops EXCEPT ![n] = @ + 1]
       /\ stopRes' = [stopRes EXCEPT ![n] = Res(n, failShut)]

\* graph.ShutdownAll: topological order, Shutdown on every component node, errors collected
NodeStop(n) == /\ phase = "nodeStop"
               /\ LET E == Edges IN n \in NodesOf(E) \ visD /\ \A m \in NodesOf(E) : n \in SuccIn(E, m) => m \in visD
               /\ visD' = visD \cup {n}
               /\ IF IsComponent(n) THEN StopCall(n) ELSE UNCHANGED <<stops, stopRes>>
               /\ UNCHANGED <<cvars, starts, startRes, svcStart, svcStop, phase, extOrder, ei, visS>>
NodeStopDone == /\ phase = "nodeStop" /\ visD = AllNodes
                /\ phase' = "extStop" /\ ei' = Len(extOrder)
                /\ UNCHANGED <<cvars, ovars, extOrder, visS, visD>>

\* extensions.Shutdown: the whole order backwards, errors collected
ExtStop == /\ phase = "extStop" /\ ei >= 1
           /\ LET n == ExtN(extOrder[ei])
              IN /\ stops' = [stops EXCEPT ![n] = @ + 1]
                 /\ stopRes' = [stopRes EXCEPT ![n] = Res(n, failShut)]
           /\ ei' = ei - 1
           /\ UNCHANGED <<cvars, starts, startRes, svcStart, svcStop, phase, extOrder, visS, visD>>
ExtStopDone == /\ phase = "extStop" /\ ei = 0
               /\ phase' = "done" /\ svcStop' = IF StopFailure THEN "failed" ELSE "ok"
               /\ UNCHANGED <<cvars, starts, startRes, stops, stopRes, svcStart, extOrder, ei, visS, visD>>

LInit == /\ GInit /\ exts = {} /\ deps = [x \in ExtIds |-> {}] /\ shared = {} /\ failStart = {} /\ failShut = {}
         /\ phase = "config" /\ extOrder = <<>> /\ ei = 0 /\ visS = {} /\ visD = {}
         /\ starts = <<>> /\ startRes = <<>> /\ stops = <<>> /\ stopRes = <<>>
         /\ svcStart = "none" /\ svcStop = "none"

LNext == \/ Build \/ (\E x \in ExtIds : AddExt(x)) \/ (\E x, y \in ExtIds : AddDep(x, y)) \/ (\E r \in Rcvs : Share(r))
         \/ Freeze
         \/ ExtStart \/ ExtStartDone \/ (\E n \in AllNodes : NodeStart(n)) \/ NodeStartDone
         \/ BeginStop
         \/ (\E n \in AllNodes : NodeStop(n)) \/ NodeStopDone \/ ExtStop \/ ExtStopDone
LSpec == LInit /\ [][LNext]_lvars

-----------------------------------------------------------------------------
(* properties: the algorithm respects the statement's guards *)

Live == phase # "config"

\* a Start call begins only when the statement allows it
StartOrder == [][Live => \A n \in Comps : (starts'[n] > starts[n]) => MayStartNode(n)]_lvars
ExtFirst   == [][Live => \A x \in exts : (starts'[ExtN(x)] > starts[ExtN(x)]) => MayStartExt(x)]_lvars
StopOrder  == [][Live => \A n \in Comps : (stops'[n] > stops[n]) => MayStopNode(n)]_lvars
ExtLast    == [][Live => \A x \in exts : (stops'[ExtN(x)] > stops[ExtN(x)]) => MayStopExt(x)]_lvars
\* the inner object of a shared receiver is started only when the consumers of all its signals have started.
\* Holds for the repaired StartAll (ReceiversLast = TRUE) only: in the pinned tree the first node of the receiver that
\* the (map-ordered) topological sort happens to visit starts the inner object -- see findings / fixes for C10.
SharedStartOrder == [][Live => \A r \in SharedUsed : (starts'[InnerN(r)] > starts[InnerN(r)]) => SharedDownstreamStarted(r)]_lvars
SharedOnce == Live => (\A r \in SharedUsed : starts[InnerN(r)] <= 1 /\ stops[InnerN(r)] <= 1)
AtMostOnce == Live => (\A n \in Ents : starts[n] <= 1 /\ stops[n] <= 1)
\* nothing is shut down while start-up is still in progress, nothing is started after shutdown began
Phases     == (Live /\ \E n \in Ents : stops[n] > 0) => phase \in {"nodeStop", "extStop", "done"}
Final      == phase = "done" => FinalOK
\* every lifetime can be completed (no stuck state before "done")
NoStuck    == (Live /\ phase # "done") => ENABLED LNext
=============================================================================
