---------------------------- MODULE LifecycleGen ----------------------------
(* Script generator for C10: every frozen configuration of the bounded space -- pipelines, service
   extensions with dependency declarations, shared receivers, failure script (which Start / Shutdown
   calls fail) -- is printed as one JSON object.  Only the configuration part of Lifecycle is explored
   (GenNext); the lifetimes themselves come from the real service and are validated by LifecycleTrace. *)
EXTENDS Lifecycle, Json

GenNext == \/ Build \/ (\E x \in ExtIds : AddExt(x)) \/ (\E x, y \in ExtIds : AddDep(x, y)) \/ (\E r \in Rcvs : Share(r))
           \/ Freeze
GenSpec == LInit /\ [][GenNext]_lvars

Script == [pipes  |-> {[sig |-> p[1], name |-> p[2], r |-> cfg[p].r, p |-> cfg[p].p, e |-> cfg[p].e] : p \in On},
           conns  |-> {[id |-> c, sup |-> Support[c]] : c \in ConnUsed},
           exts   |-> exts,
           deps   |-> {xy \in exts \X exts : xy[2] \in deps[xy[1]]},
           shared |-> SharedUsed,
           failStart |-> failStart,
           failShut  |-> failShut]

EmitScript == phase = "extStart" => PrintT(<<"BEH", ToJson(Script)>>)
=============================================================================
