SPECIFICATION LSpec
CONSTANTS
  PipeSeq <- Pipes2
  Rcvs = {"r1"}
  Procs = {"p1"}
  Exps = {"e1"}
  Conns = {"ca1"}
  Support <- SupportDef
  MaxSize = 5
  ExtIds = {"x1", "x2"}
  MaxFail = 1
INVARIANTS SharedOnce AtMostOnce Phases Final NoStuck
PROPERTIES StartOrder ExtFirst StopOrder ExtLast
CHECK_DEADLOCK FALSE
