--------------------------- MODULE LifecycleTrace ---------------------------
(* Trace validation for C10.  observed.ndjson, written by checks/C10.py from the call logs recorded by
   harness/graph (real service.New / Start / Shutdown with instrumented components):

     {"ev":"reset","pipes":[{sig,name,r,p,e}..],"exts":[..],"deps":[[x,y]..],"shared":[..]}   one service lifetime
     {"ev":"start","k":kind,"id":..,"sig":..,"sig2":..,"inst":n}      a component's Start was entered
     {"ev":"start_end", ..same.., "ok":bool}                         ... and returned
     {"ev":"inner_start","id":r} / {"ev":"inner_start_end","id":r,"ok":b}      inner object of a shared receiver
     {"ev":"svc_start_end","ok":b,"is":b}       service.Start returned (is: the error wraps the component's error)
     {"ev":"shutdown",...} {"ev":"shutdown_end",...,"ok":b} {"ev":"inner_shutdown"..} {"ev":"inner_shutdown_end"..}
     {"ev":"svc_shutdown_end","ok":b,"isall":b}  service.Shutdown returned (isall: it wraps every shutdown error)
     ... next lifetime: reset ...
     {"ev":"end"}

   The enabling condition of every event IS the statement's constraint (Lifecycle!MayStartExt,
   MayStartNode, MayStopNode, MayStopExt, MayStartInner, MayStopInner, FinalOK): any legal order is a
   behaviour, any illegal call has no enabled action and the trace is rejected at that line.
   One clause is reported separately instead of rejecting the lifetime: SharedDownstreamStarted at the
   inner_start of a shared receiver (TLC prints SHARED_EARLY_AT <line>; checks/C10.py turns it into a
   violation with the narrow signature of finding C10-shared-receiver-early-start), so that all other
   clauses are still validated on lifetimes that show this known defect.
   A processor instance cannot know its pipeline, so the first event of an instance binds it
   nondeterministically to a pipeline that lists the processor (one instance per pipeline); TLC searches
   for a binding that explains the whole lifetime. *)
EXTENDS Lifecycle, Json

Log == ndJsonDeserialize("observed.ndjson")

VARIABLES l,       \* next line of Log
          curl,    \* line of the Start/Shutdown call in progress (0: none)
          icurl,   \* line of the inner call in progress (0: none)
          pbind,   \* set of <<instance#, processor node>>
          done     \* the current lifetime is over

tvars == <<lvars, l, curl, icurl, pbind, done>>

frozen == <<failStart, failShut, phase, extOrder, ei, visS, visD>>     \* not used by trace validation

SeqRange(s) == {s[i] : i \in DOMAIN s}

CfgOf(h) == [p \in Pipes |->
               LET S == {i \in DOMAIN h.pipes : h.pipes[i].sig = p[1] /\ h.pipes[i].name = p[2]}
               IN IF S = {} THEN EmptyPipe
                  ELSE LET i == CHOOSE j \in S : TRUE
                       IN [r |-> SeqRange(h.pipes[i].r), p |-> h.pipes[i].p, e |-> SeqRange(h.pipes[i].e)]]

Ev(e) == l <= Len(Log) /\ Log[l].ev = e

TInit == /\ LInit /\ l = 1 /\ curl = 0 /\ icurl = 0 /\ pbind = {} /\ done = TRUE /\ TLCSet(1, 1) /\ TLCSet(2, 0)

TReset == /\ Ev("reset") /\ done /\ curl = 0 /\ icurl = 0
          /\ cfg' = CfgOf(Log[l])
          /\ exts' = SeqRange(Log[l].exts)
          /\ deps' = [x \in ExtIds |-> {d \in ExtIds : \E i \in DOMAIN Log[l].deps : Log[l].deps[i] = <<x, d>>}]
          /\ shared' = SeqRange(Log[l].shared)
          /\ starts' = Zero(Ents', 0) /\ startRes' = Zero(Ents', "none")
          /\ stops' = Zero(Ents', 0) /\ stopRes' = Zero(Ents', "none")
          /\ svcStart' = "none" /\ svcStop' = "none"
          /\ pbind' = {} /\ done' = FALSE /\ l' = l + 1
          /\ UNCHANGED <<frozen, curl, icurl>>

\* the entity an event talks about; processors: any pipeline consistent with the binding so far
NodesOfEvent(e) ==
  CASE e.k = "extension" -> {ExtN(e.id)} \cap Ents
    [] e.k = "receiver"  -> {<<"receiver", e.sig, e.id>>} \cap Comps
    [] e.k = "exporter"  -> {<<"exporter", e.sig, e.id>>} \cap Comps
    [] e.k = "connector" -> {<<"connector", e.sig, e.sig2, e.id>>} \cap Comps
    [] e.k = "processor" -> {n \in Comps : /\ n[1] = "processor" /\ n[2] = e.sig /\ n[4] = e.id
                                           /\ \A b \in pbind : (b[1] = e.inst) <=> (b[2] = n)}
    [] OTHER -> {}
Bind(e, n) == IF e.k = "processor" THEN pbind \cup {<<e.inst, n>>} ELSE pbind

Res2(b) == IF b THEN "ok" ELSE "failed"
SameCall(a, b) == a.k = b.k /\ a.id = b.id /\ a.inst = b.inst

TStart == /\ Ev("start") /\ ~done /\ curl = 0 /\ svcStart = "none"
          /\ \E n \in NodesOfEvent(Log[l]) :
                /\ IF n[1] = "extension" THEN MayStartExt(n[2]) ELSE MayStartNode(n)
                /\ starts' = [starts EXCEPT ![n] = @ + 1]
                /\ pbind' = Bind(Log[l], n)
          /\ curl' = l /\ l' = l + 1
          /\ UNCHANGED <<cvars, startRes, stops, stopRes, svcStart, svcStop, ivars, icurl, done>>

TStartEnd == /\ Ev("start_end") /\ curl # 0 /\ icurl = 0 /\ Log[curl].ev = "start" /\ SameCall(Log[curl], Log[l])
             /\ \E n \in NodesOfEvent(Log[l]) :
                   /\ starts[n] = 1 /\ startRes[n] = "none"
                   /\ startRes' = [startRes EXCEPT ![n] = Res2(Log[l].ok)]
             /\ curl' = 0 /\ l' = l + 1
             /\ UNCHANGED <<cvars, starts, stops, stopRes, svcStart, svcStop, ivars, icurl, pbind, done>>

TInnerStart == /\ Ev("inner_start") /\ curl # 0 /\ icurl = 0
               /\ LET r == Log[l].id IN
                     /\ InnerN(r) \in Ents /\ MayStartInner(r)
                     /\ Log[curl].k = "receiver" /\ Log[curl].id = r /\ Log[curl].ev = "start"
                     /\ starts' = [starts EXCEPT ![InnerN(r)] = @ + 1]
                     \* reported separately (narrow signature), does not stop the validation of the rest of the
                     \* lifetime: the shared object is started by the first of its nodes, possibly before the
                     \* consumers of its OTHER signals have started
                     /\ IF ~SharedDownstreamStarted(r)
                        THEN TLCSet(2, TLCGet(2) + 1) /\ PrintT(<<"SHARED_EARLY_AT", l>>) ELSE TRUE
               /\ icurl' = l /\ l' = l + 1
               /\ UNCHANGED <<cvars, startRes, stops, stopRes, svcStart, svcStop, ivars, curl, pbind, done>>
TInnerStartEnd == /\ Ev("inner_start_end") /\ icurl # 0 /\ Log[icurl].ev = "inner_start" /\ Log[icurl].id = Log[l].id
                  /\ startRes' = [startRes EXCEPT ![InnerN(Log[l].id)] = Res2(Log[l].ok)]
                  /\ icurl' = 0 /\ l' = l + 1
                  /\ UNCHANGED <<cvars, starts, stops, stopRes, svcStart, svcStop, ivars, curl, pbind, done>>

\* service.Start returned: it fails iff a component failed to start, and then with that component's error;
\* if it succeeded every component has been started
TSvcStartEnd == /\ Ev("svc_start_end") /\ ~done /\ curl = 0 /\ svcStart = "none"
                /\ Log[l].ok <=> ~StartFailure
                /\ ~Log[l].ok => Log[l].is
                /\ Log[l].ok => \A n \in Ents : StartedOK(n)
                /\ svcStart' = Res2(Log[l].ok) /\ l' = l + 1
                /\ UNCHANGED <<cvars, starts, startRes, stops, stopRes, svcStop, ivars, curl, icurl, pbind, done>>

TStop == /\ Ev("shutdown") /\ ~done /\ curl = 0 /\ svcStart # "none" /\ svcStop = "none"
         /\ \E n \in NodesOfEvent(Log[l]) :
               /\ IF n[1] = "extension" THEN MayStopExt(n[2]) ELSE MayStopNode(n)
               /\ stops' = [stops EXCEPT ![n] = @ + 1]
               /\ pbind' = Bind(Log[l], n)
         /\ curl' = l /\ l' = l + 1
         /\ UNCHANGED <<cvars, starts, startRes, stopRes, svcStart, svcStop, ivars, icurl, done>>

TStopEnd == /\ Ev("shutdown_end") /\ curl # 0 /\ icurl = 0 /\ Log[curl].ev = "shutdown" /\ SameCall(Log[curl], Log[l])
            /\ \E n \in NodesOfEvent(Log[l]) :
                  /\ stops[n] = 1 /\ stopRes[n] = "none"
                  /\ stopRes' = [stopRes EXCEPT ![n] = Res2(Log[l].ok)]
            /\ curl' = 0 /\ l' = l + 1
            /\ UNCHANGED <<cvars, starts, startRes, stops, svcStart, svcStop, ivars, icurl, pbind, done>>

TInnerStop == /\ Ev("inner_shutdown") /\ curl # 0 /\ icurl = 0
              /\ LET r == Log[l].id IN
                    /\ InnerN(r) \in Ents /\ MayStopInner(r)
                    /\ Log[curl].k = "receiver" /\ Log[curl].id = r /\ Log[curl].ev = "shutdown"
                    /\ stops' = [stops EXCEPT ![InnerN(r)] = @ + 1]
              /\ icurl' = l /\ l' = l + 1
              /\ UNCHANGED <<cvars, starts, startRes, stopRes, svcStart, svcStop, ivars, curl, pbind, done>>
TInnerStopEnd == /\ Ev("inner_shutdown_end") /\ icurl # 0 /\ Log[icurl].ev = "inner_shutdown" /\ Log[icurl].id = Log[l].id
                 /\ stopRes' = [stopRes EXCEPT ![InnerN(Log[l].id)] = Res2(Log[l].ok)]
                 /\ icurl' = 0 /\ l' = l + 1
                 /\ UNCHANGED <<cvars, starts, startRes, stops, svcStart, svcStop, ivars, curl, pbind, done>>

\* service.Shutdown returned: everything was shut down exactly once; failures are reported, not swallowed
TSvcStopEnd == /\ Ev("svc_shutdown_end") /\ ~done /\ curl = 0 /\ svcStart # "none" /\ svcStop = "none"
               /\ svcStop' = Res2(Log[l].ok)
               /\ UNCHANGED <<cvars, starts, startRes, stops, stopRes, svcStart, ivars, curl, icurl, pbind>>
               /\ FinalOK'
               /\ Log[l].isall
               /\ done' = TRUE /\ l' = l + 1

TEnd == /\ Ev("end") /\ done /\ l' = l + 1
        /\ UNCHANGED <<lvars, curl, icurl, pbind, done>>

TNext == \/ TReset \/ TStart \/ TStartEnd \/ TInnerStart \/ TInnerStartEnd \/ TSvcStartEnd
         \/ TStop \/ TStopEnd \/ TInnerStop \/ TInnerStopEnd \/ TSvcStopEnd \/ TEnd
TSpec == TInit /\ [][TNext]_tvars

\* invariants evaluated on every state of every explained prefix
TraceInv == ~done => (/\ \A n \in Ents : starts[n] <= 1 /\ stops[n] <= 1
                      /\ (\E n \in Ents : stops[n] > 0) => svcStart # "none")

HighWater == IF l > TLCGet(1) THEN TLCSet(1, l) ELSE TRUE
Accepted == IF TLCGet(1) = Len(Log) + 1 THEN PrintT(<<"SHARED_EARLY", TLCGet(2)>>)
            ELSE PrintT(<<"REJECTED_AT", TLCGet(1), Len(Log)>>) /\ FALSE
=============================================================================
