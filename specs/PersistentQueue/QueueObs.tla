------------------------------ MODULE QueueObs ------------------------------
(* C01 -- observable layer of the persistent sending queue.  The property is written ONCE here,
   over what a user of the exporter helper can see: which requests were accepted (enqueue returned
   nil in a live process), which hand-offs to the export function started/completed in which
   process incarnation, and which requests a clean restart delivers.

   Used three ways: by the implementation-shaped model (PersistentQueue.tla updates these
   variables from its actions; `Recoverable` is then the storage-layout operator), by the
   monitor (PQMonitor.tla updates them from recorded API events of the REAL code; `Recoverable`
   is measured operationally by actually restarting on the real storage contents). *)
EXTENDS Naturals, FiniteSets

VARIABLES accepted,    \* requests whose enqueue returned nil while the process was alive
          handed,      \* <<request, incarnation>> : a hand-off to the export function started
          finalised    \* requests with one hand-off COMPLETED (success or non-shutdown failure) in a live process

obsVars == <<accepted, handed, finalised>>

ObsInit == accepted = {} /\ handed = {} /\ finalised = {}

ObsAccept(r)    == accepted'  = accepted \cup {r}
ObsHand(r, inc) == handed'    = handed \cup {<<r, inc>>}
ObsFinal(r)     == finalised' = finalised \cup {r}

\* Obligation: requests the queue still owes a hand-off
Owed == accepted \ finalised

(* NoLoss: whatever is owed is recoverable -- would be delivered by a clean restart on the
   current storage contents.  `rec` is the recoverable set (layout-based or measured). *)
NoLoss(rec) == Owed \subseteq rec

(* At-least-once: once a live incarnation has drained (quiescent, every hand-off answered with a
   final outcome) nothing is owed any more. *)
AtLeastOnce(drained) == drained => Owed = {}

\* nothing is handed over that was never offered
NoPhantom(offered) == \A h \in handed : h[1] \in offered
=============================================================================
