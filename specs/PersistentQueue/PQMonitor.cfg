SPECIFICATION MSpec
INVARIANT InvNoPhantom
POSTCONDITION AllConsumed
CHECK_DEADLOCK FALSE
