------------------------------ MODULE PQTrace ------------------------------
(* C01 strict conformance: a trace recorded from the REAL persistent queue (every storage call with
   the decoded storage contents after it, every API event) must be a behaviour of
   PersistentQueue.tla: each `store` line has to be explained by the model's next storage action
   and the model's durable state must then EQUAL the real storage contents.  Steps the trace does
   not log (a completion that stores nothing because the hand-off was interrupted by shutdown)
   are silent model steps.  A rejection with the monitor satisfied is MODEL-DRIFT, not a violation.

   lines: reset{script,cap}  start{inc}  store{inc,n,after:{ri,wi,di,keys,vals}}  offer_end{req,ok}
          push{req,inc}  push_end{req,inc,outcome}  crash{inc,at}  shutdown_start{inc} *)
EXTENDS PersistentQueue, Json

Log == ndJsonDeserialize("observed.ndjson")

VARIABLES l, shutReq      \* shutReq: Shutdown() was called; `stopped` is set by a later, unlogged step under the queue lock
tvars == <<vars, l, shutReq>>

Ev == Log[l]
Is(e) == l <= Len(Log) /\ Ev.ev = e /\ l' = l + 1

TInit == Init /\ l = 1 /\ shutReq = FALSE /\ TLCSet(1, 1)

TReset == /\ Is("reset")
          /\ ri' = 0 /\ wi' = 0 /\ di' = <<>> /\ items' = <<>> /\ riSet' = FALSE
          /\ vri' = 0 /\ vwi' = 0 /\ cdi' = <<>> /\ qsize' = 0 /\ stopped' = FALSE
          /\ phase' = "rec_idx" /\ rec' = NoRec /\ cons' = IdleCons
          /\ prod' = [r \in Reqs |-> "todo"] /\ crashes' = 0 /\ inc' = 1
          /\ accepted' = {} /\ handed' = {} /\ finalised' = {} /\ shutReq' = FALSE

\* the real storage contents after the call
AfterMatches ==
  LET a == Ev.after IN
  /\ ri' = a.ri /\ wi' = a.wi
  /\ SeqToSet(di') = {a.di[k] : k \in 1..Len(a.di)}
  /\ DOMAIN items' = {a.keys[k] : k \in 1..Len(a.keys)}
  /\ \A k \in 1..Len(a.keys) : items'[a.keys[k]] = a.vals[k]

TStore == /\ Is("store")
          /\ \/ RecIdx \/ RecGetDI \/ RecRetrieve \/ RecMove \/ RecCleanup
             \/ (RecPut /\ wi' # wi)
             \/ \E r \in Reqs : OfferStore(r)
             \/ \E c \in Consumers : Dequeue(c) \/ CleanupMissing(c) \/ (cons[c].out # "shutdown" /\ DoneStore(c))
          /\ AfterMatches /\ UNCHANGED shutReq

TOfferEnd == /\ Is("offer_end")
             /\ IF Ev.ok THEN OfferReturn(Ev.req) ELSE OfferRefuse(Ev.req)
             /\ UNCHANGED shutReq

TPush == /\ Is("push") /\ Ev.inc = inc
         /\ \E c \in Consumers : cons[c].req = Ev.req /\ PushStart(c)
         /\ UNCHANGED shutReq

TPushEnd == /\ Is("push_end") /\ Ev.inc = inc
            /\ IF Ev.outcome = "transient"
                 THEN UNCHANGED vars       \* not a completed hand-off: the sender waits in back-off
                 ELSE \E c \in Consumers : cons[c].req = Ev.req /\ PushEnd(c, IF Ev.outcome = "ok" THEN "ok" ELSE "fail")
            /\ UNCHANGED shutReq

TCrash == Is("crash") /\ Crash /\ shutReq' = FALSE
TStart == /\ Is("start")
          /\ IF Ev.inc = inc THEN UNCHANGED vars ELSE Crash      \* clean restart after a completed shutdown
          /\ shutReq' = FALSE
TShutdown == Is("shutdown_start") /\ shutReq' = TRUE /\ UNCHANGED vars

\* unlogged steps
Silent == /\ l' = l /\ UNCHANGED shutReq
          /\ \/ \E c \in Consumers : PushEnd(c, "shutdown")
             \/ \E c \in Consumers : cons[c].out = "shutdown" /\ DoneStore(c)
             \/ (RecPut /\ wi' = wi)
             \/ (shutReq /\ Shutdown)

TNext == TReset \/ TStore \/ TOfferEnd \/ TPush \/ TPushEnd \/ TCrash \/ TStart \/ TShutdown \/ Silent
TSpec == TInit /\ [][TNext]_tvars

HighWater == IF l > TLCGet(1) THEN TLCSet(1, l) ELSE TRUE
Accepted == IF TLCGet(1) = Len(Log) + 1 THEN TRUE
            ELSE PrintT(<<"REJECTED_AT", TLCGet(1), Len(Log)>>) /\ FALSE

\* the layout-based property operators are evaluated on every state of the real trace as well
TraceInvNoLoss == InvNoLoss
=============================================================================
