--------------------------- MODULE PersistentQueue ---------------------------
(* C01 -- implementation-shaped model of exporterhelper/internal/queuebatch/persistent_queue.go
   (requests sizer: the only one config validation admits with storage).

   Durable state  : ri, wi (read/write index), di (currently dispatched indices), items (index -> body)
   Volatile state : one process incarnation: readIndex, writeIndex, currentlyDispatchedItems,
                    queueSize, stopped, recovery phase, per-consumer state, per-producer state.
   ONE ACTION PER STORAGE CALL, in the order the code makes them, so that "the process dies
   before/after its k-th storage call" is "Crash between two actions", and a death during the
   recovery that follows a death is just another interleaving.

     start-up    RecIdx      Batch(get ri, get wi)                 initPersistentContiguousStorage
                 RecGetDI    Get(di)                               retrieveAndEnqueueNotDispatchedReqs
                 RecRetrieve Batch(get body...)
       Fixed:    RecMove     Batch(set wi, set new bodies, delete old bodies, set di=<<>>)
       ~Fixed:   RecCleanup  Batch(delete body...)      <- bodies now only in memory
                 RecPut      per body: capacity test, Batch(set wi, set body)   (putInternal)
     running     OfferStore(p)  capacity test, Batch(set wi, set body)          Offer/putInternal
                 OfferReturn(p) Offer returns nil  (observable: accepted)
                 OfferRefuse(p) queue full, returns ErrQueueIsFull (no storage call)
                 Dequeue(c)     Batch(set ri, set di, get body); size := 0 when drained   getNextItem
                 PushStart(c)   consumeFunc invoked                (observable: handed)
                 PushEnd(c, o)  export returns o in {ok, fail, shutdown}
                 DoneStore(c)   onDone: final -> Batch(set di, delete body); shutdown error -> nothing
                 Shutdown       stopped := TRUE
     Crash       enabled in every state: wipes the volatile part, keeps the durable part

   `Fixed = FALSE` is the design of the pinned tree before the repair (fix: commit in /repo):
   TLC finds the three loss scenarios of DESIGN.md 9.1 on it.  `Fixed = TRUE` is the repaired design. *)
EXTENDS QueueObs, Sequences, TLC

CONSTANTS Reqs,            \* requests (one producer call each)
          Capacity,        \* queue_size in requests
          NumConsumers,
          MaxCrashes,
          Fixed,           \* TRUE: repaired recovery (one atomic batch, no capacity test)
          AllowShutdown    \* TRUE: the Shutdown action and shutdown-interrupted hand-offs are explored

Consumers == 1..NumConsumers
NoReq == "none"

VARIABLES ri, wi, di, items, riSet,                  \* durable (riSet: the read index key exists)
          vri, vwi, cdi, qsize, stopped, phase, rec, \* volatile queue object
          cons,                                      \* consumer -> [st, idx, req, out]
          prod,                                      \* request -> "todo" | "stored" | "done"
          crashes, inc

durable  == <<ri, wi, di, items, riSet>>
volatile == <<vri, vwi, cdi, qsize, stopped, phase, rec, cons>>
env      == <<prod, crashes, inc>>
vars     == <<durable, volatile, env, obsVars>>

Item(i)          == IF i \in DOMAIN items THEN items[i] ELSE NoReq
RemoveIdx(s, x)  == SelectSeq(s, LAMBDA y : y # x)
SeqToSet(s)      == {s[k] : k \in 1..Len(s)}
IdleCons         == [c \in Consumers |-> [st |-> "idle", idx |-> 0, req |-> NoReq, out |-> "none"]]
NoRec            == [list |-> <<>>, vals |-> <<>>, k |-> 1]

\* Layout-based recoverable set: queued range or dispatched list, body present
\* (pinned design: without a stored read index the whole storage is taken for a new queue)
Recoverable == { items[i] : i \in { j \in DOMAIN items : ((riSet \/ Fixed) /\ j >= ri /\ j < wi) \/ j \in SeqToSet(di) } }

Init ==
  /\ ri = 0 /\ wi = 0 /\ di = <<>> /\ items = <<>> /\ riSet = FALSE
  /\ vri = 0 /\ vwi = 0 /\ cdi = <<>> /\ qsize = 0 /\ stopped = FALSE
  /\ phase = "rec_idx" /\ rec = NoRec /\ cons = IdleCons
  /\ prod = [r \in Reqs |-> "todo"] /\ crashes = 0 /\ inc = 1
  /\ ObsInit

----------------------------------------------------------------------------
\* start-up recovery
RecIdx ==
  /\ phase = "rec_idx"
  \* the read index is first stored by the first dequeue; pinned design: "value not set" => new queue
  /\ IF riSet \/ Fixed THEN vri' = ri /\ vwi' = wi /\ qsize' = wi - ri
                       ELSE vri' = 0 /\ vwi' = 0 /\ qsize' = 0
  /\ phase' = "rec_getdi"
  /\ UNCHANGED <<durable, cdi, stopped, rec, cons, env, obsVars>>

RecGetDI ==
  /\ phase = "rec_getdi"
  /\ IF Len(di) = 0 THEN phase' = "running" /\ UNCHANGED rec
                    ELSE phase' = "rec_retrieve" /\ rec' = [rec EXCEPT !.list = di]
  /\ UNCHANGED <<durable, vri, vwi, cdi, qsize, stopped, cons, env, obsVars>>

RecRetrieve ==
  /\ phase = "rec_retrieve"
  /\ rec' = [rec EXCEPT !.vals = [k \in 1..Len(rec.list) |-> Item(rec.list[k])], !.k = 1]
  /\ phase' = IF Fixed THEN "rec_move" ELSE "rec_cleanup"
  /\ UNCHANGED <<durable, vri, vwi, cdi, qsize, stopped, cons, env, obsVars>>

\* repaired design: ONE batch appends the still-present dispatched bodies at the tail, deletes the old
\* copies, advances wi and clears di.  Recovered requests were accepted before: no capacity test.
RecMove ==
  /\ phase = "rec_move" /\ Fixed
  /\ LET present == SelectSeq(rec.list, LAMBDA i : i \in DOMAIN items)
         n       == Len(present)
         newDom  == ((DOMAIN items) \ SeqToSet(rec.list)) \cup {vwi + k - 1 : k \in 1..n}
     IN /\ items' = [i \in newDom |-> IF i >= vwi THEN items[present[i - vwi + 1]] ELSE items[i]]
        /\ wi' = vwi + n /\ vwi' = vwi + n /\ qsize' = qsize + n /\ di' = <<>>
  /\ phase' = "running"
  /\ UNCHANGED <<ri, riSet, vri, cdi, stopped, rec, cons, env, obsVars>>

\* pinned design: delete first ...
RecCleanup ==
  /\ phase = "rec_cleanup" /\ ~Fixed
  /\ items' = [i \in (DOMAIN items) \ SeqToSet(rec.list) |-> items[i]]
  /\ phase' = "rec_put"
  /\ UNCHANGED <<ri, wi, di, riSet, vri, vwi, cdi, qsize, stopped, rec, cons, env, obsVars>>

\* ... then re-enqueue one by one through putInternal (capacity test!)
RecPut ==
  /\ phase = "rec_put" /\ ~Fixed
  /\ IF rec.k > Len(rec.vals)
       THEN phase' = "running" /\ UNCHANGED <<durable, vwi, qsize, rec>>
       ELSE LET r == rec.vals[rec.k] IN
            IF r = NoReq \/ qsize + 1 > Capacity
              THEN \* missing body, or ErrQueueIsFull: the request is dropped (only logged)
                   rec' = [rec EXCEPT !.k = @ + 1] /\ UNCHANGED <<durable, vwi, qsize, phase>>
              ELSE /\ wi' = vwi + 1
                   /\ items' = [i \in (DOMAIN items) \cup {vwi} |-> IF i = vwi THEN r ELSE items[i]]
                   /\ vwi' = vwi + 1 /\ qsize' = qsize + 1
                   /\ rec' = [rec EXCEPT !.k = @ + 1]
                   /\ UNCHANGED <<ri, di, phase>>
  /\ UNCHANGED <<riSet, vri, cdi, stopped, cons, env, obsVars>>

----------------------------------------------------------------------------
\* producers
OfferStore(r) ==
  /\ phase = "running" /\ prod[r] = "todo" /\ qsize + 1 <= Capacity
  /\ wi' = vwi + 1
  /\ items' = [i \in (DOMAIN items) \cup {vwi} |-> IF i = vwi THEN r ELSE items[i]]
  /\ vwi' = vwi + 1 /\ qsize' = qsize + 1
  /\ prod' = [prod EXCEPT ![r] = "stored"]
  /\ UNCHANGED <<ri, di, riSet, vri, cdi, stopped, phase, rec, cons, crashes, inc, obsVars>>

OfferReturn(r) ==
  /\ prod[r] = "stored"
  /\ prod' = [prod EXCEPT ![r] = "done"]
  /\ ObsAccept(r)
  /\ UNCHANGED <<durable, volatile, crashes, inc, handed, finalised>>

OfferRefuse(r) ==
  /\ phase = "running" /\ prod[r] = "todo" /\ qsize + 1 > Capacity
  /\ prod' = [prod EXCEPT ![r] = "done"]
  /\ UNCHANGED <<durable, volatile, crashes, inc, obsVars>>

\* consumers
Dequeue(c) ==
  /\ phase = "running" /\ ~stopped /\ cons[c].st = "idle" /\ vri # vwi
  /\ LET idx == vri  ncdi == Append(cdi, idx)  r == Item(idx) IN
     /\ vri' = vri + 1 /\ ri' = vri + 1 /\ riSet' = TRUE /\ di' = ncdi /\ cdi' = ncdi
     /\ qsize' = IF vri + 1 = vwi THEN 0 ELSE qsize
     /\ cons' = [cons EXCEPT ![c] = [st |-> IF r = NoReq THEN "cleanup" ELSE "got", idx |-> idx, req |-> r, out |-> "none"]]
  /\ UNCHANGED <<wi, items, vwi, stopped, phase, rec, env, obsVars>>

PushStart(c) ==
  /\ cons[c].st = "got"
  /\ cons' = [cons EXCEPT ![c].st = "pushing"]
  /\ ObsHand(cons[c].req, inc)
  /\ UNCHANGED <<durable, vri, vwi, cdi, qsize, stopped, phase, rec, env, accepted, finalised>>

\* the export function returns: ok / fail are final, "shutdown" only while shutting down (retry wait interrupted)
PushEnd(c, o) ==
  /\ cons[c].st = "pushing"
  /\ o = "shutdown" => stopped
  /\ cons' = [cons EXCEPT ![c].st = "ondone", ![c].out = o]
  /\ IF o # "shutdown" THEN ObsFinal(cons[c].req) ELSE UNCHANGED finalised
  /\ UNCHANGED <<durable, vri, vwi, cdi, qsize, stopped, phase, rec, env, accepted, handed>>

Finish(idx) ==
  /\ cdi' = RemoveIdx(cdi, idx) /\ di' = RemoveIdx(cdi, idx)
  /\ items' = [i \in (DOMAIN items) \ {idx} |-> items[i]]

DoneStore(c) ==
  /\ cons[c].st = "ondone"
  /\ qsize' = IF qsize > 0 THEN qsize - 1 ELSE 0
  /\ IF cons[c].out = "shutdown"
       THEN UNCHANGED <<cdi, di, items>>           \* kept for the next start
       ELSE Finish(cons[c].idx)
  /\ cons' = [cons EXCEPT ![c] = [st |-> "idle", idx |-> 0, req |-> NoReq, out |-> "none"]]
  /\ UNCHANGED <<ri, wi, riSet, vri, vwi, stopped, phase, rec, env, obsVars>>

CleanupMissing(c) ==
  /\ cons[c].st = "cleanup"
  /\ Finish(cons[c].idx)
  /\ cons' = [cons EXCEPT ![c] = [st |-> "idle", idx |-> 0, req |-> NoReq, out |-> "none"]]
  /\ UNCHANGED <<ri, wi, riSet, vri, vwi, qsize, stopped, phase, rec, env, obsVars>>

Shutdown ==
  /\ AllowShutdown /\ phase = "running" /\ ~stopped
  /\ stopped' = TRUE
  /\ UNCHANGED <<durable, vri, vwi, cdi, qsize, phase, rec, cons, env, obsVars>>

\* process death (or restart after a completed shutdown) at any storage-call boundary
Crash ==
  /\ crashes < MaxCrashes
  /\ crashes' = crashes + 1 /\ inc' = inc + 1
  /\ vri' = 0 /\ vwi' = 0 /\ cdi' = <<>> /\ qsize' = 0 /\ stopped' = FALSE
  /\ phase' = "rec_idx" /\ rec' = NoRec /\ cons' = IdleCons
  \* a producer whose request was stored but whose call had not returned never sees nil
  /\ prod' = [r \in Reqs |-> IF prod[r] = "stored" THEN "done" ELSE prod[r]]
  /\ UNCHANGED <<durable, obsVars>>

Next ==
  \/ RecIdx \/ RecGetDI \/ RecRetrieve \/ RecMove \/ RecCleanup \/ RecPut
  \/ \E r \in Reqs : OfferStore(r) \/ OfferReturn(r) \/ OfferRefuse(r)
  \/ \E c \in Consumers : \/ Dequeue(c) \/ PushStart(c) \/ DoneStore(c) \/ CleanupMissing(c)
                          \/ \E o \in {"ok", "fail", "shutdown"} : PushEnd(c, o)
  \/ Shutdown \/ Crash

Spec == Init /\ [][Next]_vars

----------------------------------------------------------------------------
\* the property (operators of QueueObs instantiated with the layout-based recoverable set)
InvNoLoss == NoLoss(Recoverable)

Quiescent == /\ phase = "running" /\ ~stopped /\ vri = vwi
             /\ \A c \in Consumers : cons[c].st = "idle"
             /\ \A r \in Reqs : prod[r] = "done"
InvAtLeastOnce == AtLeastOnce(Quiescent)
InvNoPhantom   == NoPhantom(Reqs)

\* a request leaves the recoverable set only once a hand-off has completed with a final outcome
DeleteOnlyAfterFinal ==
  [][\A r \in Reqs : (r \in Recoverable /\ r \notin Recoverable') => r \in finalised']_vars

\* a hand-off interrupted by shutdown leaves the request stored
ShutdownKeeps ==
  [][\A c \in Consumers : (cons[c].st = "ondone" /\ cons[c].out = "shutdown" /\ cons'[c].st = "idle")
        => cons[c].req \in Recoverable']_vars

\* sanity of the model itself
TypeOK == /\ qsize >= 0 /\ vri <= vwi /\ ri <= wi
=============================================================================
